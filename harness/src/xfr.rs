//! Shared helpers of the C10 executors (replay_xfr, record_xfr): the mapping
//! between the record ids of spec/Xfr.tla and real records, message
//! rendering with the real `MessageBuilder`, zone pre-loading, and the
//! projections (walk -> content, InMemoryZoneDiff -> diff) that are compared
//! with the model.
//!
//! Record ids (Xfr.tla): `base + 1000*tt`.  A non-SOA base is
//! `1 + 4*n + 2*t + v` with name index n, type index t in {0: A, 1: TXT},
//! value index v in {0, 1}; the SOA record with serial s has base `100 + s`;
//! tt is the index of the record's TTL in `TTLS` (the TTL of the RRset the
//! record belongs to; SOA records always carry index 0).
#![allow(dead_code)]

use bytes::Bytes;
use domain::base::iana::{Class, Opcode, Rcode};
use domain::base::message_builder::StaticCompressor;
use domain::base::name::Name;
use domain::base::net::Ipv4Addr;
use domain::base::{
    Message, MessageBuilder, ParsedName, Rtype, Serial, ToName, Ttl,
};
use domain::net::xfr::protocol::{ParsedRecord, XfrResponseInterpreter};
use domain::rdata::{Soa, Txt, ZoneRecordData, A};
use domain::zonetree::types::ZoneUpdate;
use domain::zonetree::update::ZoneUpdater;
use domain::zonetree::{
    InMemoryZoneDiff, Rrset, SharedRrset, StoredName, Zone, ZoneBuilder,
};
use serde_json::{json, Value};
use std::collections::BTreeMap;
use std::str::FromStr;
use std::sync::{Arc, Mutex};

pub const SOA_BASE: i64 = 100;
pub const TTL: u32 = 3600;
/// TTL index -> seconds
pub const TTLS: [u32; 3] = [TTL, 7200, 300];
pub const TT: i64 = 1000;
pub const REQ_ID: u16 = 0x1234;

pub type StoredData = ZoneRecordData<Bytes, StoredName>;

pub fn apex() -> StoredName {
    Name::from_str("example.").unwrap()
}

/// Name index -> owner name.  Index 0 is the apex, 1 a child, 2 a name below
/// the child (so the child may be an empty non-terminal or not), 3 a name
/// below an empty non-terminal that holds nothing else; further indexes are
/// used by the recorder only.
pub fn name_of(n: i64) -> StoredName {
    let s = match n {
        0 => "example.".to_string(),
        1 => "a.example.".to_string(),
        2 => "b.a.example.".to_string(),
        3 => "c.d.example.".to_string(),
        4 => "*.w.example.".to_string(),
        5 => "e.c.d.example.".to_string(),
        k => format!("h{}.l{}.example.", k, k % 3),
    };
    Name::from_str(&s).unwrap()
}

pub fn name_index(name: &StoredName, max_n: i64) -> Option<i64> {
    (0..=max_n).find(|n| &name_of(*n) == name)
}

pub fn base_of(id: i64) -> i64 {
    id % TT
}

pub fn ttl_of(id: i64) -> Ttl {
    Ttl::from_secs(TTLS[(id / TT) as usize % TTLS.len()])
}

pub fn ttl_index(ttl: Ttl) -> Option<i64> {
    TTLS.iter().position(|t| *t == ttl.as_secs()).map(|i| i as i64)
}

pub fn is_soa_id(id: i64) -> bool {
    base_of(id) >= SOA_BASE
}

/// The model's serials are small version indexes; the real SOA serial is
/// `SERIAL_BASE + index` in RFC 1982 arithmetic (mod 2^32), so a recorder can
/// place the versions of one run on both sides of the 2^32 wrap while every
/// projection (record ids, diff start/end) stays index based.
pub static SERIAL_BASE: std::sync::atomic::AtomicU32 = std::sync::atomic::AtomicU32::new(0);
pub fn serial_base() -> u32 {
    SERIAL_BASE.load(std::sync::atomic::Ordering::SeqCst)
}
pub fn real_serial(index: u32) -> u32 {
    serial_base().wrapping_add(index)
}
pub fn serial_index(real: u32) -> u32 {
    real.wrapping_sub(serial_base())
}

pub fn soa_of(serial: u32) -> Soa<StoredName> {
    soa_variant(serial, 0)
}

/// variant 0: the zone's SOA; variant 1: same serial, MINIMUM differs
pub fn soa_variant(serial: u32, variant: u32) -> Soa<StoredName> {
    let serial = real_serial(serial);
    let minimum = 60 + variant;
    Soa::new(
        Name::from_str("ns.example.").unwrap(),
        Name::from_str("h.example.").unwrap(),
        Serial(serial),
        Ttl::from_secs(600),
        Ttl::from_secs(300),
        Ttl::from_secs(86400),
        Ttl::from_secs(minimum),
    )
}

pub fn key_of(id: i64) -> (i64, i64) {
    let id = base_of(id);
    ((id - 1) / 4, ((id - 1) / 2) % 2)
}

pub fn rtype_of(id: i64) -> Rtype {
    if is_soa_id(id) {
        Rtype::SOA
    } else if key_of(id).1 == 0 {
        Rtype::A
    } else {
        Rtype::TXT
    }
}

pub fn owner_of(id: i64) -> StoredName {
    if is_soa_id(id) {
        apex()
    } else {
        name_of(key_of(id).0)
    }
}

pub fn data_of(id: i64) -> StoredData {
    let id = base_of(id);
    if is_soa_id(id) {
        let k = (id - SOA_BASE) as u32;
        return ZoneRecordData::Soa(soa_variant(k % 100, k / 100));
    }
    let v = (id - 1) % 2;
    if key_of(id).1 == 0 {
        ZoneRecordData::A(A::new(Ipv4Addr::new(192, 0, 2, (v + 1) as u8)))
    } else {
        let txt: Txt<Bytes> =
            Txt::build_from_slice(format!("v{}", v).as_bytes()).unwrap();
        ZoneRecordData::Txt(txt)
    }
}

/// Real record -> record id including the TTL index (None for anything
/// outside the universe, a TTL outside `TTLS`, or a SOA whose TTL is not TTL).
pub fn rid_of(owner: &StoredName, data: &StoredData, ttl: Ttl, max_n: i64) -> Option<i64> {
    let b = id_of(owner, data, max_n)?;
    let tt = ttl_index(ttl)?;
    if is_soa_id(b) && tt != 0 {
        return None;
    }
    Some(b + TT * tt)
}

/// Real record data -> base id (None for anything outside the universe).
pub fn id_of(owner: &StoredName, data: &StoredData, max_n: i64) -> Option<i64> {
    match data {
        ZoneRecordData::Soa(soa) => {
            let idx = serial_index(soa.serial().into_int());
            if owner == &apex() && idx < 100 && soa == &soa_variant(idx, 0) {
                Some(SOA_BASE + idx as i64)
            } else if owner == &apex() && idx < 100 && soa == &soa_variant(idx, 1) {
                Some(SOA_BASE + 100 + idx as i64)
            } else {
                None
            }
        }
        _ => {
            let n = name_index(owner, max_n)?;
            for t in 0..2 {
                for v in 0..2 {
                    let id = 1 + 4 * n + 2 * t + v;
                    if &data_of(id) == data {
                        return Some(id);
                    }
                }
            }
            None
        }
    }
}

//------------ zone pre-loading and projection --------------------------------

/// Builds a zone holding SOA(serial) (if serial > 0) and the given records;
/// each RRset holds its records in the order given.
pub fn build_zone(serial: i64, recs: &[i64]) -> Zone {
    let mut b = ZoneBuilder::new(apex(), Class::IN);
    if serial > 0 {
        let mut rr = Rrset::new(Rtype::SOA, Ttl::from_secs(TTL));
        rr.push_data(data_of(SOA_BASE + serial));
        b.insert_rrset(&apex(), SharedRrset::new(rr)).unwrap();
    }
    let mut sets: BTreeMap<(i64, i64), Vec<i64>> = BTreeMap::new();
    for id in recs {
        sets.entry(key_of(*id)).or_default().push(*id);
    }
    for (_k, ids) in sets {
        // one TTL per RRset: the one the (first) record id carries
        let mut rr = Rrset::new(rtype_of(ids[0]), ttl_of(ids[0]));
        for id in &ids {
            rr.push_data(data_of(*id));
        }
        b.insert_rrset(&owner_of(ids[0]), SharedRrset::new(rr)).unwrap();
    }
    b.build()
}

/// Content visible to a *fresh* reader: `{"soa": [serials...], "recs":
/// [ids...]}` as sorted multisets, every record id with the TTL index of the
/// RRset walk() showed it in; records outside the universe (or with a TTL
/// outside it) are listed under "other".
pub fn walk_content(zone: &Zone, max_n: i64) -> Value {
    let acc: Arc<Mutex<(Vec<i64>, Vec<i64>, Vec<String>)>> =
        Arc::new(Mutex::new((vec![], vec![], vec![])));
    let acc2 = acc.clone();
    zone.read().walk(Box::new(move |owner, rrset, _cut| {
        let mut a = acc2.lock().unwrap();
        for d in rrset.data() {
            match rid_of(&owner, d, rrset.ttl(), max_n) {
                Some(id) if is_soa_id(id) => a.0.push(id - SOA_BASE),
                Some(id) => a.1.push(id),
                None => a.2.push(format!("{} {} {} {}", owner, rrset.ttl().as_secs(), rrset.rtype(), d)),
            }
        }
    }));
    let mut a = acc.lock().unwrap();
    a.0.sort();
    a.1.sort();
    a.2.sort();
    if a.2.is_empty() {
        json!({"soa": a.0, "recs": a.1})
    } else {
        json!({"soa": a.0, "recs": a.1, "other": a.2})
    }
}

/// `{"s": start, "e": end, "add": [ids], "rem": [ids]}`; SOA entries are
/// reported through s/e and as base ids >= 100 in add/rem; every id carries
/// the TTL index of the diff entry (an RRset) it was found in.
pub fn diff_json(d: &InMemoryZoneDiff, max_n: i64) -> Value {
    let side = |m: &std::collections::HashMap<(StoredName, Rtype), SharedRrset>| {
        let mut ids = vec![];
        let mut other = vec![];
        for ((owner, _rt), rrset) in m.iter() {
            for data in rrset.data() {
                match rid_of(owner, data, rrset.ttl(), max_n) {
                    Some(id) => ids.push(id),
                    None => other.push(format!("{} {} {}", owner, rrset.ttl().as_secs(), data)),
                }
            }
        }
        ids.sort();
        other.sort();
        (ids, other)
    };
    let (add, oa) = side(&d.added);
    let (rem, or) = side(&d.removed);
    let mut v = json!({"s": serial_index(d.start_serial.into_int()), "e": serial_index(d.end_serial.into_int()),
                       "add": add, "rem": rem});
    if !oa.is_empty() || !or.is_empty() {
        v["other"] = json!([oa, or]);
    }
    v
}

//------------ messages -------------------------------------------------------

/// The XFR request the responses are meant to answer.
pub fn request(qtype: u16) -> Message<Bytes> {
    let mut b = MessageBuilder::new_bytes();
    b.header_mut().set_id(REQ_ID);
    let mut q = b.question();
    q.push((apex(), Rtype::from_int(qtype))).unwrap();
    q.into_message()
}

/// Renders an abstract message of Xfr.tla:
/// `{"id":0|1, "qr","op","rc","tc": ints, "qd": [[wrongname, qtype]...],
///   "qdc","anc","nsc": claimed counts, "an": [ids]}`.
/// The sections are written by the real MessageBuilder with name
/// compression; the claimed counts are then patched into the header.
pub fn render(m: &Value) -> Message<Bytes> {
    let target = StaticCompressor::new(Vec::<u8>::new());
    let mut b = MessageBuilder::from_target(target).unwrap();
    {
        let h = b.header_mut();
        h.set_id(if m["id"].as_i64().unwrap_or(1) == 1 { REQ_ID } else { REQ_ID ^ 0x00ff });
        h.set_qr(m["qr"].as_i64().unwrap_or(1) == 1);
        h.set_opcode(Opcode::from_int(m["op"].as_i64().unwrap_or(0) as u8));
        h.set_rcode(Rcode::checked_from_int(m["rc"].as_i64().unwrap_or(0) as u8).unwrap());
        h.set_tc(m["tc"].as_i64().unwrap_or(0) == 1);
        h.set_aa(true);
    }
    let mut q = b.question();
    for qd in m["qd"].as_array().cloned().unwrap_or_default() {
        let wrong = qd[0].as_i64().unwrap_or(0) == 1;
        let qname = if wrong { Name::from_str("elpmaxe.").unwrap() } else { apex() };
        q.push((qname, Rtype::from_int(qd[1].as_u64().unwrap_or(252) as u16)))
            .unwrap();
    }
    let mut a = q.answer();
    for id in m["an"].as_array().cloned().unwrap_or_default() {
        let id = id.as_i64().unwrap();
        a.push((owner_of(id), Class::IN, ttl_of(id), data_of(id)))
            .unwrap();
    }
    let mut octets: Vec<u8> = a.finish().into_target();
    let patch = |octets: &mut Vec<u8>, pos: usize, v: &Value| {
        if let Some(x) = v.as_u64() {
            octets[pos] = (x >> 8) as u8;
            octets[pos + 1] = x as u8;
        }
    };
    patch(&mut octets, 4, &m["qdc"]);
    patch(&mut octets, 6, &m["anc"]);
    patch(&mut octets, 8, &m["nsc"]);
    Message::from_octets(Bytes::from(octets)).unwrap()
}

//------------ updates --------------------------------------------------------

pub fn parsed_id(rec: &ParsedRecord, max_n: i64) -> i64 {
    use domain::base::name::FlattenInto;
    let owner: StoredName = rec.owner().to_name();
    let data: Result<StoredData, _> = rec.data().clone().try_flatten_into();
    match data {
        Ok(d) => rid_of(&owner, &d, rec.ttl(), max_n).unwrap_or(-1),
        Err(_) => -1,
    }
}

pub fn update_json(u: &ZoneUpdate<ParsedRecord>, max_n: i64) -> Value {
    match u {
        ZoneUpdate::DeleteAllRecords => json!(["DelAll", 0]),
        ZoneUpdate::DeleteRecord(r) => json!(["Del", parsed_id(r, max_n)]),
        ZoneUpdate::AddRecord(r) => json!(["Add", parsed_id(r, max_n)]),
        ZoneUpdate::BeginBatchDelete(r) => json!(["BBD", parsed_id(r, max_n)]),
        ZoneUpdate::BeginBatchAdd(r) => json!(["BBA", parsed_id(r, max_n)]),
        ZoneUpdate::Finished(r) => json!(["Fin", parsed_id(r, max_n)]),
        _ => json!(["Unknown", -1]),
    }
}

pub fn is_commit(u: &ZoneUpdate<ParsedRecord>) -> bool {
    matches!(u, ZoneUpdate::BeginBatchDelete(_) | ZoneUpdate::Finished(_))
}

/// The receiver of Xfr.tla: one interpreter and one updater on `zone`, fed
/// message by message.  Returns one step object per delivered message and
/// the content a fresh reader sees after the updater has been dropped.
///
/// step = {"ir": "ok"|"err"|"panic", "isans": bool, "ups": [[kind,id]...],
///         "it": "ok"|"err", "ap": "ok"|"err"|"panic",
///         "diffs": [diff|null ...]  (one per commit),
///         "pubs": [content after each commit], "pub": content after the message}
pub async fn receive(
    zone: &Zone,
    req: &Message<Bytes>,
    msgs: Vec<Message<Bytes>>,
    max_n: i64,
) -> (Vec<Value>, Value, Vec<InMemoryZoneDiff>) {
    let mut interp = XfrResponseInterpreter::new();
    let mut updater: ZoneUpdater<ParsedName<Bytes>> =
        ZoneUpdater::new(zone.clone()).await.unwrap();
    let mut steps = vec![];
    let mut all_diffs = vec![];
    let mut first = true;
    for msg in msgs {
        if interp.is_finished() {
            break;
        }
        let mut step = json!({"ir": "ok", "isans": true, "ups": [], "it": "ok",
                              "ap": "ok", "diffs": [], "pubs": []});
        let isans = msg.is_answer(req);
        let mut stop = false;
        // interpret_response borrows the interpreter for the life of the
        // iterator; collect the updates first (as the documented loop does,
        // updates are applied one by one below, stopping at the first error)
        let r = std::panic::catch_unwind(std::panic::AssertUnwindSafe(|| {
            match interp.interpret_response(msg.clone()) {
                Err(_) => Err(()),
                Ok(it) => {
                    let mut v = vec![];
                    for u in it {
                        match u {
                            Ok(u) => v.push(Ok(u)),
                            Err(_) => {
                                v.push(Err(()));
                                break;
                            }
                        }
                    }
                    Ok(v)
                }
            }
        }));
        let ups = match r {
            Err(_) => {
                step["ir"] = json!("panic");
                stop = true;
                vec![]
            }
            Ok(Err(())) => {
                step["ir"] = json!("err");
                stop = true;
                vec![]
            }
            Ok(Ok(v)) => v,
        };
        if !stop && first && !isans {
            step["isans"] = json!(false);
            stop = true;
        }
        first = false;
        if !stop {
            for u in ups {
                match u {
                    Err(()) => {
                        step["it"] = json!("err");
                        stop = true;
                        break;
                    }
                    Ok(u) => {
                        step["ups"].as_array_mut().unwrap().push(update_json(&u, max_n));
                        let commit = is_commit(&u);
                        match updater.apply(u).await {
                            Err(_) => {
                                step["ap"] = json!("err");
                                stop = true;
                                break;
                            }
                            Ok(d) => {
                                if commit {
                                    step["diffs"].as_array_mut().unwrap().push(match &d {
                                        Some(d) => diff_json(d, max_n),
                                        None => json!({"none": true}),
                                    });
                                    step["pubs"]
                                        .as_array_mut()
                                        .unwrap()
                                        .push(walk_content(zone, max_n));
                                }
                                if let Some(d) = d {
                                    all_diffs.push(d);
                                }
                            }
                        }
                    }
                }
            }
        }
        step["pub"] = walk_content(zone, max_n);
        steps.push(step);
        if stop {
            break;
        }
    }
    drop(updater);
    (steps, walk_content(zone, max_n), all_diffs)
}
