//! X09 harness support: a scripted in-memory `Resolver` for the lookup
//! functions of `domain::resolv::lookup`, and the vocabulary shared by
//! `replay_lookup` (S->I) and `record_lookup` (I->S).
//!
//! Included by the bins with `#[path]`.

#![allow(dead_code)]

use domain::base::iana::{Class, Rcode, Rtype};
use domain::base::message_builder::MessageBuilder;
use domain::base::name::{Name, ToName};
use domain::base::{Message, Question, Ttl};
use domain::rdata::{Aaaa, Cname, Ptr, Srv, A};
use domain::resolv::resolver::Resolver;
use domain::base::name::RelativeName;
use domain::resolv::lookup::srv::FoundSrvs;
use domain::resolv::lookup::lookup_srv;
use domain::resolv::stub::conf::ResolvConf;
use serde_json::{json, Value};
use std::future::Future;
use std::io;
use std::net::{IpAddr, Ipv4Addr, Ipv6Addr};
use std::pin::Pin;
use std::str::FromStr;
use std::sync::{Arc, Mutex};

//------------ vocabulary ------------------------------------------------------

pub const SERVICE: &str = "_svc._tcp";
pub const HOST: &str = "host.test.";
pub const ALT: &str = "alt.test.";
pub const OTHER: &str = "other.test.";

/// Target number -> absolute name: 0 root, 9 the bare host, k "t<k>.test.".
pub fn target_name(t: i64) -> String {
    match t {
        0 => ".".into(),
        9 => HOST.into(),
        k => format!("t{}.test.", k),
    }
}

/// Absolute name (lower case, trailing dot) -> target number, -1 unknown.
pub fn target_of(name: &str) -> i64 {
    let n = name.to_ascii_lowercase();
    if n == "." {
        return 0;
    }
    if n == HOST {
        return 9;
    }
    if let Some(rest) = n.strip_prefix('t') {
        if let Some(num) = rest.strip_suffix(".test.") {
            if let Ok(k) = num.parse::<i64>() {
                return k;
            }
        }
    }
    -1
}

/// Abstract address <<s, t, f, k>> (s: 0 additional section, 1 host lookup;
/// f: 4 | 6) -> IP address and back.
pub fn addr_of(s: u8, t: u8, f: u8, k: u8) -> IpAddr {
    if f == 4 {
        IpAddr::V4(Ipv4Addr::new(10, s, t, k))
    } else {
        IpAddr::V6(Ipv6Addr::new(0x2001, 0xdb8, 0, 0, 0, s as u16, t as u16, k as u16))
    }
}

pub fn addr_abs(a: &IpAddr) -> Value {
    match a {
        IpAddr::V4(v) => {
            let o = v.octets();
            json!([o[1], o[2], 4, o[3]])
        }
        IpAddr::V6(v) => {
            let s = v.segments();
            json!([s[5], s[6], 6, s[7]])
        }
    }
}

pub fn name(s: &str) -> Name<Vec<u8>> {
    Name::<Vec<u8>>::from_str(s).expect("name")
}

/// Lower-cased presentation form with a trailing dot.
pub fn dotted(s: String) -> String {
    let s = s.to_ascii_lowercase();
    if s.ends_with('.') { s } else { format!("{}.", s) }
}

pub fn lower_dotted(n: &impl ToName) -> String {
    let n: Name<Vec<u8>> = n.to_name();
    dotted(format!("{}", n))
}

/// Labels (without the root) of a name as lower-cased octet lists.
pub fn labels_json(n: &impl ToName) -> Value {
    let n: Name<Vec<u8>> = n.to_name();
    let mut out = vec![];
    for l in n.iter() {
        if l.is_root() {
            continue;
        }
        out.push(Value::Array(
            l.as_slice().iter().map(|b| json!(b.to_ascii_lowercase())).collect(),
        ));
    }
    Value::Array(out)
}

//------------ scripted answers ------------------------------------------------

#[derive(Clone, Debug)]
pub enum Rd {
    A(Ipv4Addr),
    Aaaa(Ipv6Addr),
    Cname(String),
    Ptr(String),
    Srv(u16, u16, u16, String),
}

#[derive(Clone, Debug)]
pub struct Rec {
    pub owner: String,
    pub chaos: bool,
    pub rd: Rd,
}

impl Rec {
    pub fn new(owner: &str, rd: Rd) -> Rec {
        Rec { owner: owner.into(), chaos: false, rd }
    }
    pub fn addr(owner: &str, a: IpAddr) -> Rec {
        match a {
            IpAddr::V4(v) => Rec::new(owner, Rd::A(v)),
            IpAddr::V6(v) => Rec::new(owner, Rd::Aaaa(v)),
        }
    }
}

#[derive(Clone, Debug)]
pub enum Reply {
    /// The query fails with an I/O error.
    Err,
    /// A response with this rcode and these sections.
    Msg { nx: bool, answer: Vec<Rec>, additional: Vec<Rec> },
}

impl Reply {
    pub fn nodata() -> Reply {
        Reply::Msg { nx: false, answer: vec![], additional: vec![] }
    }
    pub fn answer(recs: Vec<Rec>) -> Reply {
        Reply::Msg { nx: false, answer: recs, additional: vec![] }
    }
}

fn push_rec<T: domain::base::message_builder::RecordSectionBuilder<Vec<u8>>>(b: &mut T, r: &Rec) {
    let owner = name(&r.owner);
    let class = if r.chaos { Class::CH } else { Class::IN };
    let ttl = Ttl::from_secs(60);
    match &r.rd {
        Rd::A(a) => b.push((owner, class, ttl, A::new(*a))).expect("push"),
        Rd::Aaaa(a) => b.push((owner, class, ttl, Aaaa::new(*a))).expect("push"),
        Rd::Cname(n) => b.push((owner, class, ttl, Cname::new(name(n)))).expect("push"),
        Rd::Ptr(n) => b.push((owner, class, ttl, Ptr::new(name(n)))).expect("push"),
        Rd::Srv(p, w, port, t) => b
            .push((owner, class, ttl, Srv::new(*p, *w, *port, name(t))))
            .expect("push"),
    }
}

pub fn build_message(qname: &Name<Vec<u8>>, qtype: Rtype, nx: bool, answer: &[Rec], additional: &[Rec]) -> Vec<u8> {
    let mut mb = MessageBuilder::new_vec();
    mb.header_mut().set_qr(true);
    mb.header_mut().set_ra(true);
    mb.header_mut().set_rd(true);
    if nx {
        mb.header_mut().set_rcode(Rcode::NXDOMAIN);
    }
    let mut qb = mb.question();
    qb.push(Question::new_in(qname.clone(), qtype)).expect("question");
    let mut ab = qb.answer();
    for r in answer {
        push_rec(&mut ab, r);
    }
    let mut ad = ab.additional();
    for r in additional {
        push_rec(&mut ad, r);
    }
    ad.finish()
}

//------------ the resolver ----------------------------------------------------

pub struct Ans(pub Message<Vec<u8>>);

impl AsRef<Message<Vec<u8>>> for Ans {
    fn as_ref(&self) -> &Message<Vec<u8>> {
        &self.0
    }
}

pub type Script = Arc<dyn Fn(&str, Rtype) -> Reply + Send + Sync>;

/// One logged question: lower-cased dotted name, labels, type.
#[derive(Clone, Debug)]
pub struct Asked {
    pub name: String,
    pub labels: Value,
    pub qtype: Rtype,
}

pub struct Scripted {
    pub script: Script,
    pub log: Arc<Mutex<Vec<Asked>>>,
}

impl Scripted {
    pub fn new(script: Script) -> Scripted {
        Scripted { script, log: Arc::new(Mutex::new(vec![])) }
    }
    pub fn asked(&self) -> usize {
        self.log.lock().unwrap().len()
    }
    pub fn log(&self) -> Vec<Asked> {
        self.log.lock().unwrap().clone()
    }
}

pub fn type_str(t: Rtype) -> &'static str {
    if t == Rtype::A {
        "A"
    } else if t == Rtype::AAAA {
        "AAAA"
    } else if t == Rtype::SRV {
        "SRV"
    } else if t == Rtype::PTR {
        "PTR"
    } else {
        "other"
    }
}

impl Resolver for Scripted {
    type Octets = Vec<u8>;
    type Answer = Ans;
    type Query<'a> = Pin<Box<dyn Future<Output = Result<Ans, io::Error>> + Send + 'a>>;

    fn query<'a, N, Q>(&'a self, question: Q) -> Self::Query<'a>
    where
        N: ToName,
        Q: Into<Question<N>>,
    {
        let q: Question<N> = question.into();
        let qname: Name<Vec<u8>> = q.qname().to_name();
        let qtype = q.qtype();
        let dotted = dotted(format!("{}", qname));
        self.log.lock().unwrap().push(Asked {
            name: dotted.clone(),
            labels: labels_json(&qname),
            qtype,
        });
        let reply = (self.script)(&dotted, qtype);
        Box::pin(async move {
            // one suspension point, so that the two halves of a join! really interleave
            tokio::task::yield_now().await;
            match reply {
                Reply::Err => Err(io::Error::new(io::ErrorKind::Other, "scripted failure")),
                Reply::Msg { nx, answer, additional } => {
                    let bytes = build_message(&qname, qtype, nx, &answer, &additional);
                    Ok(Ans(Message::from_octets(bytes).expect("message")))
                }
            }
        })
    }
}

pub fn runtime() -> tokio::runtime::Runtime {
    tokio::runtime::Builder::new_current_thread().build().expect("runtime")
}


pub fn geti(v: &Value, k: &str) -> i64 {
    v.get(k).and_then(|x| x.as_i64()).unwrap_or(0)
}
pub fn getb(v: &Value, k: &str) -> bool {
    v.get(k).and_then(|x| x.as_bool()).unwrap_or(false)
}
pub fn arr<'a>(v: &'a Value, k: &str) -> Vec<&'a Value> {
    v.get(k).and_then(|x| x.as_array()).map(|a| a.iter().collect()).unwrap_or_default()
}
pub fn sort_json(v: &mut Vec<Value>) {
    v.sort_by_key(|x| x.to_string());
}

//------------ SRV worlds ------------------------------------------------------

pub fn svc_name(host: &str) -> String {
    format!("{}.{}", SERVICE, host)
}

/// The resolver script of a world: {srv, alias, recs: [[p,w,port,t,own]],
/// addl: [[t,f,k]], hosts: [a, aaaa]}
pub fn srv_script(inp: &Value) -> Script {
    let srv_ok = inp["srv"].as_str().unwrap_or("ok") == "ok";
    let alias = getb(inp, "alias");
    let recs: Vec<Vec<i64>> = arr(inp, "recs")
        .iter()
        .map(|r| r.as_array().unwrap().iter().map(|x| x.as_i64().unwrap()).collect())
        .collect();
    let addl: Vec<Vec<i64>> = arr(inp, "addl")
        .iter()
        .map(|r| r.as_array().unwrap().iter().map(|x| x.as_i64().unwrap()).collect())
        .collect();
    let ha = inp["hosts"][0].as_str().unwrap_or("Data").to_string();
    let h6 = inp["hosts"][1].as_str().unwrap_or("Data").to_string();
    Arc::new(move |qname: &str, qtype: Rtype| {
        if qtype == Rtype::SRV {
            if !srv_ok {
                return Reply::Err;
            }
            let canonical = if alias { svc_name(ALT) } else { qname.to_string() };
            let foreign = if alias { qname.to_string() } else { svc_name(OTHER) };
            let mut answer = vec![];
            if alias {
                answer.push(Rec::new(qname, Rd::Cname(canonical.clone())));
            }
            for r in &recs {
                let owner = if r[4] == 0 { &foreign } else { &canonical };
                let mut rec = Rec::new(
                    owner,
                    Rd::Srv(r[0] as u16, r[1] as u16, r[2] as u16, target_name(r[3])),
                );
                rec.chaos = r[4] == 2;
                answer.push(rec);
            }
            let additional = addl
                .iter()
                .map(|a| Rec::addr(&target_name(a[0]), addr_of(0, a[0] as u8, a[1] as u8, a[2] as u8)))
                .collect();
            return Reply::Msg { nx: recs.is_empty() && !alias, answer, additional };
        }
        let t = target_of(qname);
        let (out, f) = if qtype == Rtype::A { (&ha, 4) } else { (&h6, 6) };
        match out.as_str() {
            "Err" => Reply::Err,
            "NoData" => Reply::nodata(),
            _ => Reply::answer(vec![Rec::addr(qname, addr_of(1, t as u8, f, 1))]),
        }
    })
}

pub fn q_json(a: &Asked) -> Value {
    if a.qtype == Rtype::SRV {
        if a.name == svc_name(HOST) {
            json!(["svc", "SRV"])
        } else {
            json!([a.name, "SRV"])
        }
    } else {
        json!([target_of(&a.name), type_str(a.qtype)])
    }
}

pub fn do_lookup_srv(rt: &tokio::runtime::Runtime, res: &Scripted, port: u16) -> Result<Option<FoundSrvs>, ()> {
    let svc = RelativeName::<Vec<u8>>::from_str(SERVICE).unwrap();
    let host = name(HOST);
    rt.block_on(lookup_srv(res, svc, host, port)).map_err(|_| ())
}

pub fn srv_tuple(s: &domain::rdata::Srv<impl domain::base::name::ToName>) -> (i64, i64, i64, i64) {
    (
        s.priority() as i64,
        s.weight() as i64,
        s.port() as i64,
        target_of(&lower_dotted(s.target())),
    )
}


//------------ host ------------------------------------------------------------

pub const HQ: &str = "h.test.";

pub fn host_name_of(idx: i64) -> String {
    match idx {
        0 => HQ.into(),
        1 => "c1.test.".into(),
        2 => "c2.test.".into(),
        _ => OTHER.into(),
    }
}

/// ANS = {err, chain, loop, recs: [[owner, k]]}
pub fn host_reply(ans: &Value, f: u8) -> Reply {
    if ans.is_string() || getb(ans, "err") {
        return Reply::Err;
    }
    let chain = geti(ans, "chain");
    let mut answer = vec![];
    for c in 0..chain {
        answer.push(Rec::new(&host_name_of(c), Rd::Cname(host_name_of(c + 1))));
    }
    if getb(ans, "loop") {
        answer.push(Rec::new(&host_name_of(chain), Rd::Cname(host_name_of(0))));
    }
    for r in arr(ans, "recs") {
        let owner = r[0].as_i64().unwrap();
        let rec = Rec::addr(&host_name_of(owner), addr_of(1, owner as u8, f, r[1].as_i64().unwrap() as u8));
        answer.push(rec);
    }
    Reply::answer(answer)
}


//------------ rev

pub fn rev_script(ans: String, n: i64) -> Script {
    Arc::new(move |q: &str, _t: Rtype| {
        let canonical = "x.rev.test.".to_string();
        let mut answer = vec![];
        let owner = match ans.as_str() {
            "err" => return Reply::Err,
            "alias" => {
                answer.push(Rec::new(q, Rd::Cname(canonical.clone())));
                canonical.clone()
            }
            _ => q.to_string(),
        };
        if ans == "foreign" {
            answer.push(Rec::new(OTHER, Rd::Ptr("p99.test.".into())));
        }
        for k in 1..=n {
            answer.push(Rec::new(&owner, Rd::Ptr(format!("p{}.test.", k))));
        }
        if ans == "alias" {
            // a PTR record at the alias itself is not an answer
            answer.push(Rec::new(OTHER, Rd::Ptr("p98.test.".into())));
        }
        Reply::answer(answer)
    })
}

pub fn ptr_of(n: &str) -> i64 {
    n.strip_prefix('p').and_then(|r| r.strip_suffix(".test.")).and_then(|k| k.parse().ok()).unwrap_or(-1)
}


//------------ resolv.conf projection -----------------------------------------

pub fn conf_state(c: &ResolvConf) -> Value {
    let o = &c.options;
    let mut flags: Vec<&str> = vec![];
    let table: [(&str, bool); 17] = [
        ("aa_only", o.aa_only),
        ("use_vc", o.use_vc),
        ("primary", o.primary),
        ("no_recurse", !o.recurse),
        ("no_default_names", !o.default_names),
        ("stay_open", o.stay_open),
        ("no_dn_search", !o.dn_search),
        ("use_inet6", o.use_inet6),
        ("rotate", o.rotate),
        ("no_check_name", o.no_check_name),
        ("keep_tsig", o.keep_tsig),
        ("blast", o.blast),
        ("use_bstring", o.use_bstring),
        ("use_ip6dotint", o.use_ip6dotint),
        ("use_edns0", o.use_edns0),
        ("single_request", o.single_request),
        ("single_request_reopen", o.single_request_reopen),
    ];
    for (n, v) in table.iter() {
        if *v {
            flags.push(n);
        }
    }
    if o.no_tld_query {
        flags.push("no_tld_query");
    }
    flags.sort();
    json!({
        "servers": c.servers.iter().map(|s| {
            let a = s.addr;
            if a.port() == 53 { format!("{}", a.ip()) } else { format!("{}", a) }
        }).collect::<Vec<_>>(),
        "stmo": c.servers.iter().map(|s| s.request_timeout.as_secs()).collect::<Vec<_>>(),
        "search": o.search.as_slice().iter().map(|n| dotted(format!("{}", n))).collect::<Vec<_>>(),
        "ndots": o.ndots,
        "timeout": o.timeout.as_secs(),
        "attempts": o.attempts,
        "flags": flags,
    })
}
