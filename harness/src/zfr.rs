//! Further routes into and out of the zone-file reader (C07): construction
//! routes (through `zf::zonefile_via`), `Zonefile::current_offset`, the
//! `zonetree::parsed::Zonefile` driver, and the string-token scanner
//! (`IterScanner`) as a second implementation of the record-data grammar.
//! Included by the C07 executors with `#[path = "../zfr.rs"] mod zfr;`
//! (after `mod zf;`).
#![allow(dead_code)]
use super::zf;
use bytes::Bytes;
use domain::base::iana::Rtype;
use domain::base::name::Name;
use domain::base::rdata::ComposeRecordData;
use domain::base::scan::IterScanner;
use domain::rdata::ZoneRecordData;
use domain::zonefile::inplace::Entry;
use domain::zonetree::error::RecordError;
use domain::zonetree::parsed;
use domain::zonetree::ZoneBuilder;
use serde_json::{json, Value};
use verif_harness::common::*;

/// Read to exhaustion through construction route `route`.  Observation as
/// `zf::read_all`: `{"entries": [...], "err": bool}`; `offs` gets
/// `current_offset()` before the first and after every call of `next_entry`.
pub fn read_all_route(route: &str, data: &[u8], o: &zf::ReadOpts, offs: &mut Vec<u64>) -> Value {
    let mut zone = match zf::zonefile_via(route, data, o) {
        Ok(z) => z,
        // a text that is not UTF-8 has no `&str` route: the slice route stands in
        Err(_) if route == "from_str" => match zf::zonefile_via("from_slice", data, o) {
            Ok(z) => z,
            Err(e) => return json!({"ctor_failed": e}),
        },
        Err(e) => return json!({"ctor_failed": e}),
    };
    let mut entries = vec![];
    offs.push(zone.current_offset() as u64);
    for _ in 0..=data.len() + 2 {
        let r = zone.next_entry();
        offs.push(zone.current_offset() as u64);
        match r {
            Ok(Some(Entry::Record(r))) => entries.push(zf::record_json(&r)),
            Ok(Some(Entry::Include { path, origin })) => entries.push(json!({
                "include": json_bytes(path.as_str().as_bytes()),
                "origin": json_bytes(&origin.map(|n| zf::name_octets(&n)).unwrap_or_default()),
            })),
            Ok(None) => return json!({"entries": entries, "err": false}),
            Err(_) => return json!({"entries": entries, "err": true}),
        }
    }
    json!({"entries": entries, "err": true, "no_progress": true})
}

fn kind_of(e: &RecordError) -> &'static str {
    match e {
        RecordError::ClassMismatch(..) => "ClassMismatch",
        RecordError::IllegalZoneCut(..) => "IllegalZoneCut",
        RecordError::IllegalRecord(..) => "IllegalRecord",
        RecordError::IllegalCname(..) => "IllegalCname",
        RecordError::MultipleCnames(..) => "MultipleCnames",
        RecordError::MalformedRecord(..) => "MalformedRecord",
        RecordError::InvalidRecord(..) => "InvalidRecord",
        RecordError::MissingSoa(..) => "MissingSoa",
    }
}

/// `parsed::Zonefile::try_from(inplace::Zonefile)` and then
/// `ZoneBuilder::try_from(parsed::Zonefile)`.  `builder`: what the
/// specification says about the second conversion -- "fail" (it has to
/// fail) or "any" (the specification leaves it open; then only a panic is an
/// observation).
pub fn parsed_obs(route: &str, data: &[u8], o: &zf::ReadOpts, builder: &str) -> Value {
    let zone = match zf::zonefile_via(route, data, o) {
        Ok(z) => z,
        Err(_) => match zf::zonefile_via("from_slice", data, o) {
            Ok(z) => z,
            Err(e) => return json!({"ctor_failed": e}),
        },
    };
    let r = std::panic::catch_unwind(std::panic::AssertUnwindSafe(|| parsed::Zonefile::try_from(zone)));
    let pz = match r {
        Err(_) => return json!({"panic": true}),
        Ok(Err(errors)) => {
            let list: Vec<Value> = errors
                .into_iter()
                .map(|(name, e)| json!({"owner": json_bytes(&zf::name_octets(&name)), "kind": kind_of(&e)}))
                .collect();
            return json!({"ok": false, "errors": list});
        }
        Ok(Ok(pz)) => pz,
    };
    let apex = pz.origin().map(|n| zf::name_octets(n)).unwrap_or_default();
    let class = pz.class().map(|c| c.to_int() as i64).unwrap_or(-1);
    // the classification getters (opaque collections) must at least not panic
    let _ = (pz.normal(), pz.zone_cuts(), pz.cnames(), pz.out_of_zone());
    let b = std::panic::catch_unwind(std::panic::AssertUnwindSafe(|| ZoneBuilder::try_from(pz).map(|b| b.build())));
    let bobs = match b {
        Err(_) => "panic",
        Ok(_) if builder == "any" => "any",
        Ok(Ok(_)) => "ok",
        Ok(Err(_)) => "fail",
    };
    json!({"ok": true, "errors": [], "apex": json_bytes(&apex), "class": class, "builder": bobs})
}

/// The record-data grammar through the string-token scanner: the tokens of
/// one entry's data (text of unquoted tokens, escapes allowed) are scanned by
/// `ZoneRecordData::scan` over an `IterScanner`.  `{"rd": octets}` when the
/// data is accepted and every token was used, `{"err": true}` otherwise.
pub fn iter_scan(rtype: u16, toks: &[String]) -> Value {
    let mut sc = IterScanner::<_, Vec<u8>>::new(toks.iter().map(|s| s.as_str()));
    let r: Result<ZoneRecordData<Vec<u8>, Name<Vec<u8>>>, _> = ZoneRecordData::scan(Rtype::from_int(rtype), &mut sc);
    match r {
        Ok(d) if sc.is_exhausted() => {
            let mut v: Vec<u8> = vec![];
            let _ = d.compose_rdata(&mut v);
            json!({"rd": json_bytes(&v)})
        }
        _ => json!({"err": true}),
    }
}

/// `Bytes` is only named so that the module compiles in bins that do not use it.
pub fn _unused(_: Bytes) {}
