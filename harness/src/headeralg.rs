//! X06: the real header / OPT header / builder objects driven by the
//! operations of spec/HeaderAlg.tla, and their projection (12 header octets,
//! OPT header octets, builder stage, what every getter reports).
//!
//! Two carriers:
//!  * plain   -- an owned `HeaderSection` + an owned `OptHeader`, mirrored by
//!               `Header::for_message_slice_mut` / `HeaderCounts::
//!               for_message_slice_mut` / `OptHeader::for_record_slice_mut`
//!               over raw buffers; both must always hold the same octets;
//!  * builder -- a `MessageBuilder<StreamTarget<Vec<u8>>>` in one of its five
//!               stages; header access through `header_mut()` of the stage,
//!               the OPT record through `AdditionalBuilder::opt` /
//!               `OptBuilder`, read back through `as_message()`.
#![allow(dead_code)]

use domain::base::header::{Flags, Header, HeaderCounts, HeaderSection};
use domain::base::iana::{Class, Opcode, OptRcode, Rcode, Rtype};
use domain::base::message_builder::{
    AdditionalBuilder, AnswerBuilder, AuthorityBuilder, MessageBuilder, QuestionBuilder,
    StreamTarget, TreeCompressor,
};
use domain::base::opt::OptHeader;
use domain::base::wire::Composer;
use domain::base::name::ToLabelIter;
use domain::base::{Message, Name, Question, ToName};
use domain::rdata::A;
use octseq::builder::ShortBuf;
use serde_json::{json, Value};
use std::panic::{catch_unwind, AssertUnwindSafe};
use std::str::FromStr;

pub type Tgt = StreamTarget<Vec<u8>>;

pub fn ints(v: &Value) -> Vec<i64> {
    v.as_array()
        .map(|a| a.iter().map(|x| x.as_i64().unwrap_or(0)).collect())
        .unwrap_or_default()
}

pub fn jb(b: &[u8]) -> Value {
    Value::Array(b.iter().map(|x| json!(*x)).collect())
}

pub fn flags_of_mask(m: i64) -> Flags {
    Flags {
        qr: m & 64 != 0,
        aa: m & 32 != 0,
        tc: m & 16 != 0,
        rd: m & 8 != 0,
        ra: m & 4 != 0,
        ad: m & 2 != 0,
        cd: m & 1 != 0,
    }
}

pub fn mask_of_flags(f: Flags) -> i64 {
    (f.qr as i64) * 64
        + (f.aa as i64) * 32
        + (f.tc as i64) * 16
        + (f.rd as i64) * 8
        + (f.ra as i64) * 4
        + (f.ad as i64) * 2
        + (f.cd as i64)
}

/// The i-th question every carrier uses (names differ in case and length,
/// types and classes differ).
pub fn question(i: usize) -> Question<Name<Vec<u8>>> {
    let names = ["q0.Example.COM.", "Q1.example.com.", "x.q2.EXAMPLE.com.", "q3.example.org."];
    let types = [Rtype::A, Rtype::AAAA, Rtype::MX, Rtype::AXFR];
    let name = Name::<Vec<u8>>::from_str(names[i % 4]).unwrap();
    let class = if i % 3 == 2 { Class::CH } else { Class::IN };
    Question::new(name, types[i % 4], class)
}

pub fn question_len(i: usize) -> usize {
    question(i).qname().compose_len() as usize + 4
}

/// One header-level setter applied to a `Header`.  Returns false for an
/// unknown operation name.
pub fn apply_header_op(h: &mut Header, k: &str, a: &[i64]) -> bool {
    let b = a.first().copied().unwrap_or(0) != 0;
    match k {
        "set_id" => h.set_id(a[0] as u16),
        "set_qr" => h.set_qr(b),
        "set_aa" => h.set_aa(b),
        "set_tc" => h.set_tc(b),
        "set_rd" => h.set_rd(b),
        "set_ra" => h.set_ra(b),
        "set_z" => h.set_z(b),
        "set_ad" => h.set_ad(b),
        "set_cd" => h.set_cd(b),
        "set_opcode" => h.set_opcode(Opcode::from_int(a[0] as u8)),
        "set_rcode" => h.set_rcode(Rcode::checked_from_int(a[0] as u8).expect("rcode arg")),
        "set_flags" => h.set_flags(flags_of_mask(a[0])),
        _ => return false,
    }
    true
}

/// One counts operation; result code 0 ok / 1 Err (a panic is caught by the
/// caller).
pub fn apply_count_op(c: &mut HeaderCounts, k: &str, a: &[i64]) -> Option<i64> {
    let sec = a.first().copied().unwrap_or(0);
    match k {
        "set_count" => {
            let v = a[1] as u16;
            match sec {
                0 => c.set_qdcount(v),
                1 => c.set_ancount(v),
                2 => c.set_nscount(v),
                _ => c.set_arcount(v),
            }
            Some(0)
        }
        "set_ucount" => {
            let v = a[1] as u16;
            match sec {
                0 => c.set_zocount(v),
                1 => c.set_prcount(v),
                2 => c.set_upcount(v),
                _ => c.set_adcount(v),
            }
            Some(0)
        }
        "inc" => {
            let r = match sec {
                0 => c.inc_qdcount(),
                1 => c.inc_ancount(),
                2 => c.inc_nscount(),
                _ => c.inc_arcount(),
            };
            Some(if r.is_ok() { 0 } else { 1 })
        }
        "dec" => {
            match sec {
                0 => c.dec_qdcount(),
                1 => c.dec_ancount(),
                2 => c.dec_nscount(),
                _ => c.dec_arcount(),
            }
            Some(0)
        }
        "set_counts" => {
            let mut other = HeaderCounts::new();
            let octs: Vec<u8> = a.iter().map(|x| *x as u8).collect();
            other.as_slice_mut().copy_from_slice(&octs[..8]);
            c.set(other);
            Some(0)
        }
        _ => None,
    }
}

pub fn apply_optheader_op(o: &mut OptHeader, k: &str, a: &[i64]) -> bool {
    match k {
        "oh_udp" => o.set_udp_payload_size(a[0] as u16),
        "oh_rcode" => o.set_rcode(OptRcode::masked_from_int(a[0] as u16)),
        "oh_version" => o.set_version(a[0] as u8),
        "oh_do" => o.set_dnssec_ok(a[0] != 0),
        _ => return false,
    }
    true
}

fn header_getters(h: Header, x: &mut Vec<i64>) {
    x.push(h.id() as i64);
    x.push(h.qr() as i64);
    x.push(h.opcode().to_int() as i64);
    x.push(h.aa() as i64);
    x.push(h.tc() as i64);
    x.push(h.rd() as i64);
    x.push(h.ra() as i64);
    x.push(h.z() as i64);
    x.push(h.ad() as i64);
    x.push(h.cd() as i64);
    x.push(h.rcode().to_int() as i64);
    x.push(mask_of_flags(h.flags()));
}

fn count_getters(c: HeaderCounts, x: &mut Vec<i64>) {
    x.push(c.qdcount() as i64);
    x.push(c.ancount() as i64);
    x.push(c.nscount() as i64);
    x.push(c.arcount() as i64);
    x.push(c.zocount() as i64);
    x.push(c.prcount() as i64);
    x.push(c.upcount() as i64);
    x.push(c.adcount() as i64);
}

//------------------------------------------------------------------ plain

pub struct Plain {
    /// owned values
    pub sec: HeaderSection,
    pub opt: OptHeader,
    /// the same state kept in raw buffers and only touched through the
    /// `for_*_slice_mut` views
    pub buf: Vec<u8>,
    pub obuf: Vec<u8>,
}

impl Plain {
    pub fn new(h: &[u8], o: &[u8]) -> Self {
        let mut sec = HeaderSection::new();
        // an owned HeaderSection can only be filled through its parts
        {
            let hd = sec.header_mut();
            *hd = *Header::for_message_slice(h);
        }
        {
            let c = sec.counts_mut();
            c.as_slice_mut().copy_from_slice(&h[4..12]);
        }
        // OptHeader has no constructor from octets: copy through a view
        let opt = if o == &[0u8, 0, 41, 0, 0, 0, 0, 0, 0][..] {
            OptHeader::default()
        } else {
            let mut tmp = o.to_vec();
            tmp.extend_from_slice(&[0, 0]);
            *OptHeader::for_record_slice(&tmp)
        };
        let mut buf = h.to_vec();
        buf.extend_from_slice(&[0xEE; 4]); // trailing octets must never change
        let mut obuf = o.to_vec();
        obuf.extend_from_slice(&[0xEE; 4]);
        Plain { sec, opt, buf, obuf }
    }

    /// Applies the operation to both representations; result code.
    pub fn apply(&mut self, k: &str, a: &[i64]) -> i64 {
        // owned
        let r1 = catch_unwind(AssertUnwindSafe(|| {
            if apply_header_op(self.sec.header_mut(), k, a) {
                return 0;
            }
            if let Some(r) = apply_count_op(self.sec.counts_mut(), k, a) {
                return r;
            }
            if apply_optheader_op(&mut self.opt, k, a) {
                return 0;
            }
            9
        }))
        .unwrap_or(2);
        // views over raw buffers
        let r2 = catch_unwind(AssertUnwindSafe(|| {
            if apply_header_op(Header::for_message_slice_mut(&mut self.buf), k, a) {
                return 0;
            }
            if let Some(r) = apply_count_op(HeaderCounts::for_message_slice_mut(&mut self.buf), k, a) {
                return r;
            }
            if apply_optheader_op(OptHeader::for_record_slice_mut(&mut self.obuf), k, a) {
                return 0;
            }
            9
        }))
        .unwrap_or(2);
        if r1 != r2 {
            return 70;
        }
        r1
    }

    pub fn rebase(&mut self, h: &[u8]) {
        *self = Plain::new(h, &self.obuf[..9].to_vec());
    }

    /// Like `apply`, but the raw buffer is written through a `Message`:
    /// `Message::header_mut()` for the header setters and
    /// `Message::remove_last_additional()` for `dec` of ARCOUNT.
    pub fn apply_via_message(&mut self, k: &str, a: &[i64]) -> i64 {
        let via = apply_header_op(&mut Header::new(), k, a) || (k == "dec" && a[0] == 3);
        if !via {
            return self.apply(k, a);
        }
        let r1 = catch_unwind(AssertUnwindSafe(|| {
            if apply_header_op(self.sec.header_mut(), k, a) {
                return 0;
            }
            apply_count_op(self.sec.counts_mut(), k, a).unwrap_or(9)
        }))
        .unwrap_or(2);
        let r2 = catch_unwind(AssertUnwindSafe(|| {
            let mut m = Message::from_octets(self.buf[..12].to_vec()).unwrap();
            let r = if apply_header_op(m.header_mut(), k, a) {
                0
            } else {
                m.remove_last_additional();
                0
            };
            self.buf[..12].copy_from_slice(m.as_slice());
            r
        }))
        .unwrap_or(2);
        if r1 != r2 {
            return 70;
        }
        r1
    }

    pub fn project(&self, r: i64) -> Value {
        let h = self.sec.as_slice().to_vec();
        let mut o = Vec::new();
        let _ = self.opt.compose(&mut o);
        // the two representations must agree, the guard octets must be intact
        let agree = h[..] == self.buf[..12]
            && o[..] == self.obuf[..9]
            && self.buf[12..] == [0xEE; 4]
            && self.obuf[9..] == [0xEE; 4]
            && HeaderSection::for_message_slice(&self.buf).as_slice() == &h[..];
        let mut x = Vec::new();
        let hd = *self.sec.header();
        header_getters(hd, &mut x);
        count_getters(*self.sec.counts(), &mut x);
        x.push(1);
        x.push(self.opt.udp_payload_size() as i64);
        x.push(self.opt.rcode(hd).to_int() as i64);
        x.push(self.opt.version() as i64);
        x.push(self.opt.dnssec_ok() as i64);
        let msg = Message::from_octets(&self.buf[..12]).unwrap();
        let ne = msg.no_error();
        x.push(if msg.is_error() == ne { 99 } else { ne as i64 });
        json!({"h": jb(&h), "o": [jb(&o)], "g": -1, "r": if agree { r } else { 71 }, "c": [], "x": x})
    }
}

//---------------------------------------------------------------- builder

pub enum Stage {
    None,
    B(MessageBuilder<Tgt>),
    Q(QuestionBuilder<Tgt>),
    An(AnswerBuilder<Tgt>),
    Au(AuthorityBuilder<Tgt>),
    Ad(AdditionalBuilder<Tgt>),
}

pub struct Builder {
    pub stage: Stage,
    /// offsets (in the message) of the OPT records pushed so far
    pub opts: Vec<usize>,
    /// the first question is the one request_axfr pushed
    pub axfr_first: bool,
}

fn fresh() -> MessageBuilder<Tgt> {
    MessageBuilder::from_target(StreamTarget::new_vec()).unwrap()
}

/// A request with the given flag word, id and the first k questions, built
/// with name compression, followed by an answer record and an OPT record
/// (which a response scaffold must not copy).
pub fn request(word: u16, id: u16, k: usize) -> Message<Vec<u8>> {
    let mut b = MessageBuilder::from_target(TreeCompressor::new(Vec::new())).unwrap().question();
    for i in 0..k {
        b.push(question(i)).unwrap();
    }
    let mut b = b.answer();
    b.push((Name::<Vec<u8>>::from_str("q0.example.com.").unwrap(), 60, A::from_octets(192, 0, 2, 7)))
        .unwrap();
    let mut b = b.additional();
    b.opt(|o| {
        o.set_udp_payload_size(1232);
        o.set_dnssec_ok(true);
        Ok(())
    })
    .unwrap();
    let mut octs = b.finish().into_target();
    octs[0] = (id >> 8) as u8;
    octs[1] = id as u8;
    octs[2] = (word >> 8) as u8;
    octs[3] = word as u8;
    Message::from_octets(octs).unwrap()
}

impl Builder {
    pub fn new() -> Self {
        Builder { stage: Stage::B(fresh()), opts: vec![], axfr_first: false }
    }

    pub fn stage_no(&self) -> i64 {
        match &self.stage {
            Stage::None => 9,
            Stage::B(_) => 0,
            Stage::Q(_) => 1,
            Stage::An(_) => 2,
            Stage::Au(_) => 3,
            Stage::Ad(_) => 4,
        }
    }

    fn mb(&mut self) -> &mut MessageBuilder<Tgt> {
        match &mut self.stage {
            Stage::B(b) => b,
            Stage::Q(b) => b.as_builder_mut(),
            Stage::An(b) => b.as_builder_mut(),
            Stage::Au(b) => b.as_builder_mut(),
            Stage::Ad(b) => b.as_builder_mut(),
            Stage::None => panic!("no builder"),
        }
    }

    fn mbr(&self) -> &MessageBuilder<Tgt> {
        match &self.stage {
            Stage::B(b) => b,
            Stage::Q(b) => b.as_builder(),
            Stage::An(b) => b.as_builder(),
            Stage::Au(b) => b.as_builder(),
            Stage::Ad(b) => b.as_builder(),
            Stage::None => panic!("no builder"),
        }
    }

    /// header_mut() as reachable from the current stage (Deref of the stage
    /// type, not of the inner message builder).
    fn header_mut(&mut self) -> &mut Header {
        match &mut self.stage {
            Stage::B(b) => b.header_mut(),
            Stage::Q(b) => b.header_mut(),
            Stage::An(b) => b.header_mut(),
            Stage::Au(b) => b.header_mut(),
            Stage::Ad(b) => b.header_mut(),
            Stage::None => panic!("no builder"),
        }
    }

    pub fn len(&self) -> usize {
        self.mbr().as_slice().len()
    }

    fn goto(&mut self, t: i64) {
        let cur = std::mem::replace(&mut self.stage, Stage::None);
        self.stage = match (cur, t) {
            (Stage::B(b), 0) => Stage::B(b.builder()),
            (Stage::B(b), 1) => Stage::Q(b.question()),
            (Stage::B(b), 2) => Stage::An(b.answer()),
            (Stage::B(b), 3) => Stage::Au(b.authority()),
            (Stage::B(b), _) => Stage::Ad(b.additional()),
            (Stage::Q(b), 0) => Stage::B(b.builder()),
            (Stage::Q(b), 1) => Stage::Q(b.question()),
            (Stage::Q(b), 2) => Stage::An(b.answer()),
            (Stage::Q(b), 3) => Stage::Au(b.authority()),
            (Stage::Q(b), _) => Stage::Ad(b.additional()),
            (Stage::An(b), 0) => Stage::B(b.builder()),
            (Stage::An(b), 1) => Stage::Q(b.question()),
            (Stage::An(b), 2) => Stage::An(b.answer()),
            (Stage::An(b), 3) => Stage::Au(b.authority()),
            (Stage::An(b), _) => Stage::Ad(b.additional()),
            (Stage::Au(b), 0) => Stage::B(b.builder()),
            (Stage::Au(b), 1) => Stage::Q(b.question()),
            (Stage::Au(b), 2) => Stage::An(b.answer()),
            (Stage::Au(b), 3) => Stage::Au(b.authority()),
            (Stage::Au(b), _) => Stage::Ad(b.additional()),
            (Stage::Ad(b), 0) => Stage::B(b.builder()),
            (Stage::Ad(b), 1) => Stage::Q(b.question()),
            (Stage::Ad(b), 2) => Stage::An(b.answer()),
            (Stage::Ad(b), 3) => Stage::Au(b.authority()),
            (Stage::Ad(b), _) => Stage::Ad(b.additional()),
            (Stage::None, _) => Stage::B(fresh()),
        };
        if t < 4 {
            self.opts.clear();
        }
        if t == 0 {
            self.axfr_first = false;
        }
    }

    /// Applies one operation; returns (result code, what the getters of the
    /// OptBuilder reported inside the closure).
    pub fn apply(&mut self, k: &str, a: &[i64]) -> (i64, Vec<i64>) {
        let r = catch_unwind(AssertUnwindSafe(|| self.apply_inner(k, a)));
        match r {
            Ok(v) => v,
            Err(_) => {
                if matches!(self.stage, Stage::None) {
                    self.stage = Stage::B(fresh());
                    self.opts.clear();
                    self.axfr_first = false;
                }
                (2, vec![])
            }
        }
    }

    fn apply_inner(&mut self, k: &str, a: &[i64]) -> (i64, Vec<i64>) {
        if apply_header_op(self.header_mut(), k, a) {
            return (0, vec![]);
        }
        match k {
            "goto" => {
                self.goto(a[0]);
                (0, vec![])
            }
            "push" => {
                let len = self.len();
                if a[0] == 0 {
                    self.mb().set_push_limit(len);
                }
                let qd = self.mbr().counts().qdcount() as usize;
                let rec = (Name::<Vec<u8>>::root_vec(), 3600u32, A::from_octets(192, 0, 2, 1));
                let r = match &mut self.stage {
                    Stage::Q(b) => b.push(question(qd)),
                    Stage::An(b) => b.push(rec),
                    Stage::Au(b) => b.push(rec),
                    Stage::Ad(b) => b.push(rec),
                    _ => panic!("push in stage 0"),
                };
                self.mb().clear_push_limit();
                (if r.is_ok() { 0 } else { 1 }, vec![])
            }
            "opt" => {
                let len = self.len();
                if a[1] == 0 {
                    self.mb().set_push_limit(len);
                }
                let mut seen = vec![];
                let r = match &mut self.stage {
                    Stage::Ad(b) => b.opt(|o| {
                        let mut i = 2;
                        while i + 1 < a.len() {
                            let v = a[i + 1];
                            match a[i] {
                                1 => o.set_udp_payload_size(v as u16),
                                2 => o.set_rcode(OptRcode::masked_from_int(v as u16)),
                                3 => o.set_version(v as u8),
                                _ => o.set_dnssec_ok(v != 0),
                            }
                            i += 2;
                        }
                        seen = vec![
                            o.udp_payload_size() as i64,
                            o.rcode().to_int() as i64,
                            o.version() as i64,
                            o.dnssec_ok() as i64,
                        ];
                        if a[0] != 0 {
                            Err(ShortBuf)
                        } else {
                            Ok(())
                        }
                    }),
                    _ => panic!("opt outside the additional section"),
                };
                self.mb().clear_push_limit();
                if r.is_ok() {
                    self.opts.push(len);
                }
                (if r.is_ok() { 0 } else { 1 }, seen)
            }
            "start_answer" | "start_error" => {
                let (word, id, nq, rc, fit) = (a[0] as u16, a[1] as u16, a[2] as usize, a[3] as u8, a[4] as usize);
                let req = request(word, id, nq);
                let cur = std::mem::replace(&mut self.stage, Stage::None);
                let mut b = match cur {
                    Stage::B(b) => b,
                    _ => panic!("start_* needs the message builder"),
                };
                if fit < nq {
                    let lim: usize = 12 + (0..fit).map(question_len).sum::<usize>() + 1;
                    b.set_push_limit(lim);
                }
                let rcode = Rcode::checked_from_int(rc).unwrap();
                self.opts.clear();
                self.axfr_first = false;
                if k == "start_answer" {
                    match b.start_answer(&req, rcode) {
                        Ok(mut ab) => {
                            ab.clear_push_limit();
                            self.stage = Stage::An(ab);
                            (self.check_questions_against(&req), vec![])
                        }
                        Err(_) => {
                            self.stage = Stage::B(fresh());
                            (1, vec![])
                        }
                    }
                } else {
                    let mut ab = b.start_error(&req, rcode);
                    ab.clear_push_limit();
                    self.stage = Stage::An(ab);
                    (self.check_questions_against(&req), vec![])
                }
            }
            "request_axfr" => {
                let cur = std::mem::replace(&mut self.stage, Stage::None);
                let mut b = match cur {
                    Stage::B(b) => b,
                    _ => panic!("request_axfr needs the message builder"),
                };
                if a[0] == 0 {
                    b.set_push_limit(12);
                }
                self.opts.clear();
                match b.request_axfr(Name::<Vec<u8>>::from_str("example.com.").unwrap()) {
                    Ok(mut ab) => {
                        ab.clear_push_limit();
                        // the id is random: report it, then normalise it to
                        // the value the case names
                        let drawn = ab.header().id();
                        ab.header_mut().set_id(a[1] as u16);
                        let ok = {
                            let m = ab.as_message();
                            match m.sole_question() {
                                Ok(q) => {
                                    q.qtype() == Rtype::AXFR
                                        && q.qclass() == Class::IN
                                        && q.qname().to_name::<Vec<u8>>().as_slice()
                                            == Name::<Vec<u8>>::from_str("example.com.").unwrap().as_slice()
                                }
                                Err(_) => false,
                            }
                        };
                        self.stage = Stage::An(ab);
                        self.axfr_first = true;
                        (if ok { 0 } else { 72 }, vec![drawn as i64])
                    }
                    Err(_) => {
                        self.stage = Stage::B(fresh());
                        (1, vec![])
                    }
                }
            }
            _ => (9, vec![]),
        }
    }

    /// The response's questions must be the request's first `qdcount`
    /// questions, in order, spelled octet for octet the same (the request
    /// is compressed, the response is not).
    fn check_questions_against(&self, req: &Message<Vec<u8>>) -> i64 {
        let m = self.mbr().as_message();
        let mine: Vec<_> = m.question().map(|q| q.ok()).collect();
        let theirs: Vec<_> = req.question().map(|q| q.ok()).collect();
        if mine.len() != m.header_counts().qdcount() as usize || mine.len() > theirs.len() {
            return 73;
        }
        for (a, b) in mine.iter().zip(theirs.iter()) {
            match (a, b) {
                (Some(a), Some(b)) => {
                    let an: Name<Vec<u8>> = a.qname().to_name();
                    let bn: Name<Vec<u8>> = b.qname().to_name();
                    if an.as_slice() != bn.as_slice() || a.qtype() != b.qtype() || a.qclass() != b.qclass() {
                        return 73;
                    }
                }
                _ => return 73,
            }
        }
        0
    }

    /// The questions in the builder are always question(0..qdcount).
    fn questions_ok(&self) -> bool {
        let m = self.mbr().as_message();
        let qd = m.header_counts().qdcount() as usize;
        let mut n = 0;
        for (i, q) in m.question().enumerate() {
            let q = match q {
                Ok(q) => q,
                Err(_) => return false,
            };
            let want = question(i);
            let name: Name<Vec<u8>> = q.qname().to_name();
            // request_axfr pushes its own question first
            let axfr = self.axfr_first
                && i == 0
                && q.qtype() == Rtype::AXFR
                && q.qclass() == Class::IN
                && name.as_slice() == b"\x07example\x03com\x00";
            if !axfr
                && (name.as_slice() != want.qname().as_slice()
                    || q.qtype() != want.qtype()
                    || q.qclass() != want.qclass())
            {
                return false;
            }
            n += 1;
        }
        n == qd
    }

    pub fn rebase(&mut self, h: &[u8]) {
        let hd = *Header::for_message_slice(h);
        *self.header_mut() = hd;
    }

    pub fn project(&self, r: i64, c: &[i64]) -> Value {
        let b = self.mbr();
        let buf = b.as_slice();
        let h = buf[..12].to_vec();
        let mut o = vec![];
        let mut sound = true;
        for s in &self.opts {
            if s + 9 <= buf.len() {
                o.push(jb(&buf[*s..*s + 9]));
            } else {
                sound = false;
            }
        }
        let m = b.as_message();
        let hd = m.header();
        let counts = m.header_counts();
        // every way of reading the header must agree with the octets
        sound &= hd.as_slice() == &h[..4]
            && counts.as_slice() == &h[4..12]
            && b.header().as_slice() == &h[..4]
            && b.counts().as_slice() == &h[4..12]
            && m.header_section().as_slice() == &h[..]
            && self.questions_ok();
        let mut x = Vec::new();
        header_getters(hd, &mut x);
        count_getters(counts, &mut x);
        match m.opt() {
            Some(opt) => {
                x.push(1);
                x.push(opt.udp_payload_size() as i64);
                let r12 = opt.rcode(hd).to_int() as i64;
                x.push(if m.opt_rcode().to_int() as i64 == r12 { r12 } else { -1 });
                x.push(opt.version() as i64);
                x.push(opt.dnssec_ok() as i64);
            }
            None => {
                x.push(0);
                x.push(0);
                x.push(m.opt_rcode().to_int() as i64);
                x.push(0);
                x.push(0);
            }
        }
        let ne = m.no_error();
        x.push(if m.is_error() == ne { 99 } else { ne as i64 });
        json!({"h": jb(&h), "o": o, "g": self.stage_no(), "r": if sound { r } else { 74 }, "c": c, "x": x})
    }
}

/// An A record the copy / dig cases use: id i <-> r<i>.example. 10.0.0.i ttl 100+i
pub fn id_record(i: i64) -> (Name<Vec<u8>>, u32, A) {
    (
        Name::<Vec<u8>>::from_str(&format!("r{}.example.", i)).unwrap(),
        100 + i as u32,
        A::from_octets(10, 0, 0, i as u8),
    )
}

pub fn set_word<T: Composer>(b: &mut MessageBuilder<T>, word: u16, id: u16) {
    let h = b.header_mut();
    h.set_id(id);
    h.set_flags(flags_of_mask(
        (((word >> 15) & 1) as i64) * 64
            + (((word >> 10) & 1) as i64) * 32
            + (((word >> 9) & 1) as i64) * 16
            + (((word >> 8) & 1) as i64) * 8
            + (((word >> 7) & 1) as i64) * 4
            + (((word >> 5) & 1) as i64) * 2
            + (((word >> 4) & 1) as i64),
    ));
    h.set_z((word >> 6) & 1 != 0);
    h.set_opcode(Opcode::from_int(((word >> 11) & 15) as u8));
    h.set_rcode(Rcode::masked_from_int(word as u8));
}
