//! Observation of the wire-format readers (C01, C19): the read battery on
//! the established `Message` API, the same content read through the new
//! API (`domain::new`), and the component-wise comparison of observations
//! with the specification's projection (spec/Wire.tla `Projection`).
#![allow(dead_code)]

use bytes::Bytes;
use domain::base::name::{Label, ParsedName, ToLabelIter, ToName};
use domain::base::opt::{AllOptData, UnknownOptData};
use domain::base::zonefile_fmt::{DisplayKind, ZonefileFmt};
use domain::base::message::RecordSection;
use domain::base::rdata::{ParseAnyRecordData, ParseRecordData, RecordData, UnknownRecordData};
use domain::base::{Message, ParsedRecord, Question};
use domain::net::xfr::protocol::XfrResponseInterpreter;
use domain::rdata::{Aaaa, AllRecordData, Cname, Dnskey, Ds, Mx, Ns, Nsec, Ptr, Soa, Txt, ZoneRecordData, A};
use octseq::octets::Octets;
use serde_json::{json, Map, Value};
use std::collections::hash_map::DefaultHasher;
use std::collections::BTreeMap;
use std::hash::{Hash, Hasher};
use std::io::{BufRead, Write};
use std::panic::{catch_unwind, AssertUnwindSafe};
use std::sync::mpsc::{channel, Receiver, Sender};
use std::sync::Arc;
use std::time::Duration;
use verif_harness::common::*;

pub const SL_HANG: i64 = -1;
pub const SL_UNBOUNDED: i64 = -2;
pub const SL_FINITE: i64 = -3;

//------------ names -----------------------------------------------------------

pub fn labels_json<'a, I: Iterator<Item = &'a Label>>(it: I) -> Value {
    Value::Array(
        it.filter(|l| !l.is_root())
            .map(|l| json_bytes(l.as_slice()))
            .collect(),
    )
}

/// Exercise a returned name: iterate both ways, flatten, compare with
/// itself, hash, display, walk the suffixes.  Returns the labels.
pub fn use_name(n: &ParsedName<&[u8]>) -> Value {
    use domain::base::cmp::CanonicalOrd;
    let labels = labels_json(n.iter());
    let lv: Vec<Vec<u8>> = n.iter().filter(|l| !l.is_root()).map(|l| l.as_slice().to_vec()).collect();
    let fwd = n.iter().count();
    let back = n.iter().rev().count();
    assert_eq!(fwd, back, "label count differs by direction");
    assert_eq!(n.label_count(), fwd);
    let rev: Vec<Vec<u8>> = n.iter().rev().filter(|l| !l.is_root()).map(|l| l.as_slice().to_vec()).collect();
    assert!(rev.iter().rev().eq(lv.iter()), "reverse iteration yields other labels");
    let flat: domain::base::Name<Vec<u8>> = n.to_name();
    assert!(n == &flat, "flattened name differs");
    assert_eq!(usize::from(n.compose_len()), flat.as_slice().len());
    assert_eq!(n.cmp(n), std::cmp::Ordering::Equal);
    assert_eq!(n.canonical_cmp(n), std::cmp::Ordering::Equal);
    assert_eq!(n.name_cmp(&flat), std::cmp::Ordering::Equal);
    assert_eq!(n.composed_cmp(&flat), std::cmp::Ordering::Equal);
    assert_eq!(n.lowercase_composed_cmp(&flat), flat.lowercase_composed_cmp(n).reverse());
    assert!(n.name_eq(&flat) && n.starts_with(&flat) && n.ends_with(&flat));
    assert!(n.ends_with(&domain::base::Name::root_slice()));
    assert_eq!(n.is_root(), lv.is_empty());
    assert!(n.last().is_root());
    assert_eq!(n.first().as_slice(), lv.first().map(|x| x.as_slice()).unwrap_or(&[]));
    assert_eq!(n.rrsig_label_count() as usize, lv.len() - usize::from(lv.first().map(|l| l == b"*").unwrap_or(false)));
    let mut h = DefaultHasher::new();
    n.hash(&mut h);
    let _ = h.finish();
    let s = format!("{}", n);
    let _ = format!("{:?} {}", n, n.fmt_with_dot());
    let _ = s.len();
    let _ = n.is_compressed();
    if let Some(f) = n.as_flat_slice() {
        assert_eq!(f, flat.as_slice(), "flat slice differs from the flattened name");
    }
    let mut composed: Vec<u8> = vec![];
    n.compose(&mut composed).unwrap();
    assert_eq!(composed, flat.as_slice());
    let mut canon: Vec<u8> = vec![];
    n.compose_canonical(&mut canon).unwrap();
    assert_eq!(canon, flat.as_slice().to_ascii_lowercase());
    let _ = (n.to_vec(), n.to_cow(), n.to_canonical_name::<Vec<u8>>());
    // the stepping API: every suffix is the tail of the label list
    let wire_of = |ls: &[Vec<u8>]| {
        let mut w = vec![];
        for l in ls {
            w.push(l.len() as u8);
            w.extend(l);
        }
        w.push(0);
        w
    };
    let mut k = 0;
    for sfx in n.iter_suffixes() {
        let got: domain::base::Name<Vec<u8>> = sfx.to_name();
        assert_eq!(got.as_slice(), wire_of(&lv[k.min(lv.len())..]), "iter_suffixes: wrong suffix");
        k += 1;
    }
    assert_eq!(k, fwd, "iter_suffixes: wrong number of suffixes");
    let mut p = *n;
    let mut depth = 0;
    loop {
        let cur: domain::base::Name<Vec<u8>> = p.to_name();
        assert_eq!(cur.as_slice(), wire_of(&lv[depth..]), "parent(): wrong name");
        assert_eq!(usize::from(p.compose_len()), cur.as_slice().len());
        if !p.parent() {
            break;
        }
        depth += 1;
        assert!(depth <= lv.len(), "parent() does not end");
    }
    assert_eq!(depth, lv.len());
    let mut q = *n;
    let mut i = 0;
    while let Some(first) = q.split_first() {
        let mut w = vec![lv[i].len() as u8];
        w.extend(&lv[i]);
        assert_eq!(first.as_slice(), &w[..], "split_first(): wrong label");
        i += 1;
        assert!(i <= lv.len());
    }
    assert_eq!(i, lv.len());
    assert!(q.is_root());
    let r = n.ref_octets();
    assert_eq!(r.label_count(), fwd);
    // further routes to the same name: `for l in &name`, a ParsedName made
    // from the flattened name, the labels as owned labels, the serde rendering
    let mut via_into: Vec<Vec<u8>> = vec![];
    for l in n {
        if !l.is_root() {
            via_into.push(l.as_slice().to_vec());
        }
        let owned = l.to_owned();
        assert!(owned.as_label() == l, "owned label differs");
        let ob: &[u8] = owned.as_ref();
        assert_eq!(ob, l.as_slice(), "owned label: other octets");
        assert_eq!(format!("{}", owned), format!("{}", l), "owned label displays differently");
        assert_eq!(l.is_wildcard(), l.as_slice() == b"*");
        let mut lower = l.to_owned();
        lower.make_canonical();
        assert!(lower.as_label() == l, "canonical label is another label");
        assert_eq!(lower.as_slice(), &l.as_slice().to_ascii_lowercase()[..]);
    }
    assert_eq!(via_into, lv, "IntoIterator yields other labels");
    let back: ParsedName<Vec<u8>> = ParsedName::from(flat.clone());
    assert!(&back == n && back.iter().count() == fwd && !back.is_compressed(), "ParsedName::from(Name) differs");
    assert_eq!(format!("{}", back), s);
    assert_eq!(serde_json::to_string(n).expect("serialize name"), serde_json::to_string(&s).unwrap());
    labels
}

//------------ typed views of a record section ---------------------------------

/// What the specification shows of a record's data (Wire.tla `RdSum`): the
/// embedded names, the options, the octets of fixed-length data, the length
/// of raw data; `None` where the layout is opaque to the specification.
pub trait Summ {
    fn summ(&self) -> Option<Value>;
}

fn nm<O: AsRef<[u8]>>(n: &ParsedName<O>) -> Value {
    labels_json(n.iter())
}

impl Summ for A {
    fn summ(&self) -> Option<Value> {
        Some(json_bytes(&self.addr().octets()))
    }
}
impl Summ for Aaaa {
    fn summ(&self) -> Option<Value> {
        Some(json_bytes(&self.addr().octets()))
    }
}
impl<O: AsRef<[u8]>> Summ for Ns<ParsedName<O>> {
    fn summ(&self) -> Option<Value> {
        Some(json!([nm(self.nsdname())]))
    }
}
impl<O: AsRef<[u8]>> Summ for Cname<ParsedName<O>> {
    fn summ(&self) -> Option<Value> {
        Some(json!([nm(self.cname())]))
    }
}
impl<O: AsRef<[u8]>> Summ for Ptr<ParsedName<O>> {
    fn summ(&self) -> Option<Value> {
        Some(json!([nm(self.ptrdname())]))
    }
}
impl<O: AsRef<[u8]>> Summ for Mx<ParsedName<O>> {
    fn summ(&self) -> Option<Value> {
        Some(json!([nm(self.exchange())]))
    }
}
impl<O: AsRef<[u8]>> Summ for Soa<ParsedName<O>> {
    fn summ(&self) -> Option<Value> {
        Some(json!([nm(self.mname()), nm(self.rname())]))
    }
}
fn opts_of<O: Octets>(o: &domain::base::opt::Opt<O>) -> Value {
    let mut opts = vec![];
    for x in o.iter::<UnknownOptData<_>>() {
        let x = x.expect("raw option of a checked OPT record");
        opts.push(json!([x.code().to_int(), x.as_slice().len()]));
    }
    Value::Array(opts)
}
impl<O: Octets> Summ for domain::base::opt::Opt<O> {
    fn summ(&self) -> Option<Value> {
        Some(opts_of(self))
    }
}
impl<O: AsRef<[u8]>> Summ for Txt<O> {
    fn summ(&self) -> Option<Value> {
        None
    }
}
impl<O: AsRef<[u8]>> Summ for Dnskey<O> {
    fn summ(&self) -> Option<Value> {
        None
    }
}
impl<O: AsRef<[u8]>> Summ for Ds<O> {
    fn summ(&self) -> Option<Value> {
        None
    }
}
impl<O: AsRef<[u8]>, N> Summ for Nsec<O, N> {
    fn summ(&self) -> Option<Value> {
        None
    }
}
impl<O: AsRef<[u8]>> Summ for UnknownRecordData<O> {
    fn summ(&self) -> Option<Value> {
        Some(json!([self.data().as_ref().len()]))
    }
}
impl<O: Octets> Summ for AllRecordData<O, ParsedName<O>> {
    fn summ(&self) -> Option<Value> {
        match self {
            AllRecordData::A(d) => d.summ(),
            AllRecordData::Aaaa(d) => d.summ(),
            AllRecordData::Ns(d) => d.summ(),
            AllRecordData::Cname(d) => d.summ(),
            AllRecordData::Ptr(d) => d.summ(),
            AllRecordData::Mx(d) => d.summ(),
            AllRecordData::Soa(d) => d.summ(),
            AllRecordData::Opt(d) => d.summ(),
            AllRecordData::Unknown(d) if rd_kind(d.rtype().to_int()) == "raw" => d.summ(),
            _ => None,
        }
    }
}
impl<O: Octets> Summ for ZoneRecordData<O, ParsedName<O>> {
    fn summ(&self) -> Option<Value> {
        match self {
            ZoneRecordData::A(d) => d.summ(),
            ZoneRecordData::Aaaa(d) => d.summ(),
            ZoneRecordData::Ns(d) => d.summ(),
            ZoneRecordData::Cname(d) => d.summ(),
            ZoneRecordData::Ptr(d) => d.summ(),
            ZoneRecordData::Mx(d) => d.summ(),
            ZoneRecordData::Soa(d) => d.summ(),
            ZoneRecordData::Unknown(d) if d.rtype().to_int() == 41 || rd_kind(d.rtype().to_int()) == "raw" => d.summ(),
            _ => None,
        }
    }
}

/// One element of a typed walk (Wire.tla `TElem`): `["r", owner, type, class,
/// ttlhi, ttllo, summary]`, `["e"]` for an error, `["o"]` for a value whose
/// layout the specification does not know.
pub fn telem<O: AsRef<[u8]>, D: Summ + RecordData>(
    item: Result<domain::base::Record<ParsedName<O>, D>, domain::base::wire::ParseError>,
) -> Value {
    match item {
        Err(_) => json!(["e"]),
        Ok(rec) => match rec.data().summ() {
            None => json!(["o"]),
            Some(sum) => {
                let ttl = rec.ttl().as_secs();
                json!(["r", nm(rec.owner()), rec.rtype().to_int(), rec.class().to_int(),
                       (ttl >> 16) as u16, (ttl & 0xFFFF) as u16, sum])
            }
        },
    }
}

const WALK_CAP: usize = 70_000;

/// The same walk by three routes: the iterator itself, a clone taken before
/// the first step, and an iterator that is replaced by its own clone before
/// every step and that passes through unwrap() + the same limit again half
/// way.  The specification expects one and the same walk from all of them.
fn same_walk(direct: Vec<Value>, others: [Vec<Value>; 2]) -> Value {
    for (i, o) in others.iter().enumerate() {
        if *o != direct {
            // the deviating route's walk is the observation (it is compared
            // with the specification like any other); the note says which
            route_note(json!({"typed_walk_route": i + 1, "direct": direct, "other": o}));
            return Value::Array(o.clone());
        }
    }
    Value::Array(direct)
}

thread_local! {
    static ROUTE_NOTES: std::cell::RefCell<Vec<Value>> = const { std::cell::RefCell::new(Vec::new()) };
}
/// Two routes to the same thing disagreed: kept for the report; the
/// deviating value itself goes into the projection.
pub fn route_note(v: Value) {
    ROUTE_NOTES.with(|n| n.borrow_mut().push(v));
}
pub fn take_route_notes() -> Vec<Value> {
    ROUTE_NOTES.with(|n| std::mem::take(&mut *n.borrow_mut()))
}

pub fn walk_lim<'a, O, D>(sec: RecordSection<'a, O>, in_only: bool) -> Value
where
    O: Octets + ?Sized,
    D: ParseRecordData<'a, O> + Summ,
{
    let mk = |s: RecordSection<'a, O>| if in_only { s.limit_to_in::<D>() } else { s.limit_to::<D>() };
    let it = mk(sec);
    let early = it.clone();
    let mut hop = it.clone();
    let direct: Vec<Value> = it.take(WALK_CAP).map(telem).collect();
    let by_clone: Vec<Value> = early.take(WALK_CAP).map(telem).collect();
    let mut hopped = vec![];
    loop {
        hop = hop.clone();
        if hopped.len() == 1 {
            hop = mk(hop.unwrap());
        }
        match hop.next() {
            Some(x) if hopped.len() < WALK_CAP => hopped.push(telem(x)),
            _ => break,
        }
    }
    same_walk(direct, [by_clone, hopped])
}

pub fn walk_any<'a, O, D>(sec: RecordSection<'a, O>) -> Value
where
    O: Octets + ?Sized,
    D: ParseAnyRecordData<'a, O> + Summ,
{
    let it = sec.into_records::<D>();
    let early = it.clone();
    let mut hop = it.clone();
    let direct: Vec<Value> = it.take(WALK_CAP).map(telem).collect();
    let by_clone: Vec<Value> = early.take(WALK_CAP).map(telem).collect();
    let mut hopped = vec![];
    loop {
        hop = hop.clone();
        if hopped.len() == 1 {
            hop = hop.unwrap().into_records::<D>();
        }
        match hop.next() {
            Some(x) if hopped.len() < WALK_CAP => hopped.push(telem(x)),
            _ => break,
        }
    }
    same_walk(direct, [by_clone, hopped])
}

pub type PN<'a> = ParsedName<&'a [u8]>;

/// Wire.tla `TViews`, in that order, on one record section
pub fn typed_walks<'a>(sec: RecordSection<'a, &'a [u8]>) -> Value {
    type All<'a> = AllRecordData<&'a [u8], PN<'a>>;
    json!([
        walk_lim::<_, All>(sec, false),
        walk_lim::<_, All>(sec, true),
        walk_any::<_, All>(sec),
        walk_lim::<_, A>(sec, false),
        walk_lim::<_, A>(sec, true),
        walk_lim::<_, Cname<PN>>(sec, false),
        walk_lim::<_, Cname<PN>>(sec, true),
        walk_lim::<_, Aaaa>(sec, false),
        walk_lim::<_, Ns<PN>>(sec, true),
        walk_lim::<_, Ptr<PN>>(sec, false),
        walk_lim::<_, Mx<PN>>(sec, false),
        walk_lim::<_, Soa<PN>>(sec, true),
        walk_lim::<_, domain::base::opt::Opt<&[u8]>>(sec, false),
        walk_lim::<_, Txt<&[u8]>>(sec, false),
        walk_lim::<_, Dnskey<&[u8]>>(sec, true),
        walk_lim::<_, Ds<&[u8]>>(sec, false),
        walk_lim::<_, Nsec<&[u8], PN>>(sec, false),
        walk_lim::<_, ZoneRecordData<&[u8], PN>>(sec, false),
        walk_lim::<_, UnknownRecordData<&[u8]>>(sec, false),
        walk_lim::<_, UnknownRecordData<&[u8]>>(sec, true),
    ])
}

/// Wire.tla `RecAt(m, pos)`: the record at an offset by every public route
/// that reads one from a parser
pub fn rec_at(m: &[u8], pos: usize) -> Value {
    use domain::base::record::RecordHeader;
    use octseq::parse::Parser;
    let mref: &&[u8] = &m;
    let at = |pos: usize| {
        let mut p: Parser<'_, &[u8]> = Parser::from_ref(mref);
        p.advance(pos).ok().map(|_| p)
    };
    let hdr_json = |next: usize, t: u16, c: u16, ttl: u32, rdlen: u16| json!([1, next, t, c, (ttl >> 16) as u16, (ttl & 0xFFFF) as u16, rdlen]);
    let fail = json!([0]);
    // ParsedRecord::parse
    let r1 = match at(pos) {
        None => fail.clone(),
        Some(mut p) => match ParsedRecord::parse(&mut p) {
            Ok(r) => hdr_json(p.pos(), r.rtype().to_int(), r.class().to_int(), r.ttl().as_secs(), r.rdlen()),
            Err(_) => fail.clone(),
        },
    };
    // RecordHeader::parse, then the data is skipped by hand
    let r2 = match at(pos) {
        None => fail.clone(),
        Some(mut p) => match RecordHeader::<ParsedName<&[u8]>>::parse(&mut p) {
            Ok(h) => match p.advance(usize::from(h.rdlen())) {
                Ok(()) => {
                    let _ = format!("{:?} {}", h, h.owner());
                    let fixed = &m[p.pos() - usize::from(h.rdlen()) - 10..p.pos() - usize::from(h.rdlen())];
                    let flat: domain::base::Name<Vec<u8>> = h.owner().to_name();
                    let mut plain: Vec<u8> = vec![];
                    h.compose(&mut plain).unwrap();
                    assert!(plain[..plain.len() - 10] == *flat.as_slice() && plain[plain.len() - 10..] == *fixed, "record header composed again differs");
                    let mut canon: Vec<u8> = vec![];
                    h.compose_canonical(&mut canon).unwrap();
                    assert!(canon[..canon.len() - 10] == flat.as_slice().to_ascii_lowercase()[..] && canon[canon.len() - 10..] == *fixed);
                    let rec = h.clone().into_record(());
                    assert!(rec.owner() == h.owner() && rec.class() == h.class() && rec.ttl() == h.ttl());
                    hdr_json(p.pos(), h.rtype().to_int(), h.class().to_int(), h.ttl().as_secs(), h.rdlen())
                }
                Err(_) => fail.clone(),
            },
            Err(_) => fail.clone(),
        },
    };
    // (RecordHeader::parse_and_skip cannot be called: no RecordHeader type implements Parse)
    // Record::parse with the data type that takes every type as it is
    let r4 = match at(pos) {
        None => fail.clone(),
        Some(mut p) => match domain::base::Record::<ParsedName<&[u8]>, UnknownRecordData<&[u8]>>::parse(&mut p) {
            Ok(Some(r)) => {
                let (owner, data) = r.clone().into_owner_and_data();
                assert!(&owner == r.owner() && &data == r.data());
                hdr_json(p.pos(), r.rtype().to_int(), r.class().to_int(), r.ttl().as_secs(), data.data().len() as u16)
            }
            Ok(None) => json!(["declined"]),
            Err(_) => fail.clone(),
        },
    };
    let parse = if r1 == r2 && r1 == r4 {
        r1
    } else {
        route_note(json!({"rec_at": pos, "routes": [r1, r2, r4]}));
        if r1 != r2 { r2 } else { r4 }
    };
    let skip = match at(pos) {
        None => fail.clone(),
        Some(mut p) => match ParsedRecord::skip(&mut p) {
            Ok(()) => json!([1, p.pos()]),
            Err(_) => fail.clone(),
        },
    };
    json!([parse, skip])
}

//------------ old API: the read battery -----------------------------------------

fn rd_json(k: &str, ok: bool, names: Vec<Value>, opts: Vec<Value>) -> Value {
    json!({"k": k, "ok": ok, "names": names, "opts": opts})
}

fn rd_kind(t: u16) -> &'static str {
    match t {
        2 | 5 | 12 | 15 | 6 => "names",
        41 => "opt",
        1 | 28 => "fixed",
        65280..=65534 => "raw",
        _ => "opaque",
    }
}

/// RDATA of one record as the spec sees it; always parses through
/// `AllRecordData` (totality for every type), twice.
pub fn old_rd(rec: &ParsedRecord<'_, &[u8]>) -> Value {
    let t = rec.rtype().to_int();
    let kind = rd_kind(t);
    let r1 = rec.to_any_record::<AllRecordData<_, ParsedName<_>>>();
    let r2 = rec.to_any_record::<AllRecordData<_, ParsedName<_>>>();
    assert_eq!(r1.is_ok(), r2.is_ok(), "typed parse not repeatable");
    let r = match r1 {
        Ok(r) => r,
        Err(_) => {
            return rd_json(kind, kind == "opaque", vec![], vec![]);
        }
    };
    // whatever parsed can be displayed, iterated, compared, hashed, measured
    // and composed again (a panic surfaces as the panic of the component)
    exercise_record(&r);
    // (not compared with ==: the derived data types are compared by their
    // renderings, which must also be repeatable)
    assert_eq!(format!("{:?}", r.data()), format!("{:?}", r2.as_ref().unwrap().data()),
               "typed data differs between parses");
    let mut names = vec![];
    let mut opts = vec![];
    match r.data() {
        AllRecordData::Ns(d) => names.push(use_name(d.nsdname())),
        AllRecordData::Cname(d) => names.push(use_name(d.cname())),
        AllRecordData::Ptr(d) => names.push(use_name(d.ptrdname())),
        AllRecordData::Mx(d) => names.push(use_name(d.exchange())),
        AllRecordData::Soa(d) => {
            names.push(use_name(d.mname()));
            names.push(use_name(d.rname()));
        }
        AllRecordData::Opt(o) => {
            for x in o.iter::<UnknownOptData<_>>() {
                let x = x.expect("raw option of a checked OPT record");
                opts.push(json!([x.code().to_int(), x.data().len()]));
            }
            // typed options: value or error, never a panic
            let n1: Vec<bool> = o.iter::<AllOptData<_, domain::base::Name<&[u8]>>>().map(|x| x.is_ok()).collect();
            let n2: Vec<bool> = o.iter::<AllOptData<_, domain::base::Name<&[u8]>>>().map(|x| x.is_ok()).collect();
            assert_eq!(n1, n2);
            exercise_options(o);
        }
        _ => {}
    }
    rd_json(kind, true, names, opts)
}

type AnyRecord<'a> = domain::base::Record<ParsedName<&'a [u8]>, AllRecordData<&'a [u8], ParsedName<&'a [u8]>>>;

/// Everything a caller can do with a parsed record, for every type: the three
/// zone-style renderings, Debug, comparison with itself (==, partial_cmp,
/// canonical order), hash, rdlen, re-composition (plain and canonical), and
/// iteration of the sub-structures of the types that have internal framing.
pub fn exercise_record(r: &AnyRecord<'_>) {
    use domain::base::cmp::CanonicalOrd;
    use domain::base::rdata::ComposeRecordData;
    let d = r.data();
    let _ = format!("{}", r.display_zonefile(DisplayKind::Simple));
    let _ = format!("{}", r.display_zonefile(DisplayKind::Tabbed));
    let _ = format!("{}", r.display_zonefile(DisplayKind::Multiline));
    let _ = format!("{}", d.display_zonefile(DisplayKind::Simple));
    let _ = format!("{}", d.display_zonefile(DisplayKind::Multiline));
    let _ = format!("{:?}", r);
    let _ = format!("{:?}", d);
    let _ = d == d;
    let _ = d.partial_cmp(d);
    let _ = d.canonical_cmp(d);
    let mut h = DefaultHasher::new();
    d.hash(&mut h);
    let _ = h.finish();
    let _ = d.rdlen(false);
    let _ = d.rdlen(true);
    let mut out: Vec<u8> = vec![];
    let _ = d.compose_rdata(&mut out);
    let mut out2: Vec<u8> = vec![];
    let _ = d.compose_canonical_rdata(&mut out2);
    let mut out3: Vec<u8> = vec![];
    if d.compose_canonical_len_rdata(&mut out3).is_ok() && out3.len() >= 2 {
        assert_eq!(usize::from(u16::from_be_bytes([out3[0], out3[1]])), out3.len() - 2, "length prefix of the canonical RDATA");
        assert_eq!(&out3[2..], &out2[..], "canonical RDATA differs with and without length prefix");
    }
    let _ = format!("{} {}", r, d);
    convert_record(r);
    match d {
        AllRecordData::Nsec(x) => {
            let t = x.types();
            let _ = (t.is_empty(), t.iter().count(), t.contains(domain::base::iana::Rtype::A));
            let _ = format!("{} {:?}", t, t);
            let _ = format!("{}", x.next_name());
        }
        AllRecordData::Nsec3(x) => {
            let t = x.types();
            let _ = (t.is_empty(), t.iter().count(), t.contains(domain::base::iana::Rtype::NS));
            let _ = format!("{} {:?} {} {}", t, t, x.salt(), x.next_owner());
            let _ = (x.iterations(), x.opt_out(), x.hash_algorithm());
        }
        AllRecordData::Nsec3param(x) => {
            let _ = format!("{} {:?}", x.salt(), x);
        }
        AllRecordData::Txt(x) => {
            let _ = (x.iter().count(), x.iter_charstrs().count(), x.len());
            for c in x.iter_charstrs() {
                let _ = format!("{} {:?}", c, c);
            }
            let _: Vec<u8> = x.text();
        }
        AllRecordData::Hinfo(x) => {
            let _ = format!("{} {}", x.cpu(), x.os());
        }
        AllRecordData::Svcb(x) => {
            let _ = (x.priority(), x.is_alias(), x.is_service());
            exercise_svc_params(x.params());
            let _ = format!("{}", x.target());
        }
        AllRecordData::Https(x) => {
            let _ = (x.priority(), x.is_alias(), x.is_service());
            exercise_svc_params(x.params());
            let _ = format!("{}", x.target());
        }
        AllRecordData::Ipseckey(x) => {
            let _ = format!("{:?} {:?} {:?}", x.gateway_type(), x.gateway(), x.algorithm());
            let _ = (x.key().len(), x.precedence(), x.gateway().rdlen(), x.gateway().is_correct_gateway_type(x.gateway_type()));
        }
        AllRecordData::Tsig(x) => {
            let _ = (x.mac_slice().len(), x.other().len(), x.other_time(), x.fudge(), x.original_id());
            let _ = format!("{} {:?}", x.algorithm(), x.error());
        }
        AllRecordData::Rrsig(x) => {
            let _ = format!("{} {:?}", x.signer_name(), x.type_covered());
            let _ = (x.algorithm(), x.labels(), x.original_ttl(), x.expiration(), x.inception(), x.key_tag(), x.signature().len());
        }
        AllRecordData::Naptr(x) => {
            let _ = format!("{} {} {} {}", x.flags(), x.services(), x.regexp(), x.replacement());
            let _ = (x.order(), x.preference());
        }
        AllRecordData::Caa(x) => {
            let _ = format!("{:?} {:?} {:?}", x.flags(), x.tag(), x.value());
        }
        AllRecordData::Dnskey(x) => {
            let _ = (x.flags(), x.protocol(), x.algorithm(), x.public_key().len());
            let _ = (x.is_revoked(), x.is_secure_entry_point(), x.is_zone_key(), x.key_tag());
        }
        AllRecordData::Cdnskey(x) => {
            let _ = (x.flags(), x.protocol(), x.algorithm(), x.public_key().len());
        }
        AllRecordData::Ds(x) => {
            let _ = (x.key_tag(), x.algorithm(), x.digest_type(), x.digest().len());
        }
        AllRecordData::Cds(x) => {
            let _ = (x.key_tag(), x.algorithm(), x.digest_type(), x.digest().len());
        }
        AllRecordData::Tlsa(x) => {
            let _ = (x.usage(), x.selector(), x.matching_type(), x.data().len());
        }
        AllRecordData::Sshfp(x) => {
            let _ = (x.algorithm(), x.fingerprint_type(), x.fingerprint().len());
        }
        AllRecordData::Zonemd(x) => {
            let _ = (x.serial(), x.scheme(), x.algorithm(), x.digest().len());
        }
        AllRecordData::Srv(x) => {
            let _ = (x.priority(), x.weight(), x.port());
            let _ = format!("{}", x.target());
        }
        AllRecordData::Openpgpkey(x) => {
            let _ = x.key().len();
        }
        AllRecordData::Soa(x) => {
            let _ = (x.serial(), x.refresh(), x.retry(), x.expire(), x.minimum());
        }
        _ => {}
    }
}

/// Conversions of a parsed record keep it the same record: flattened into
/// owned names and octets, moved to another octets type, narrowed to
/// `ZoneRecordData` and widened back, rebuilt from the variant's own type,
/// serialized.  "The same" is the zone-file rendering and `==` (where the
/// data compares equal to itself at all).
pub fn convert_record(r: &AnyRecord<'_>) {
    use bytes::Bytes;
    use domain::base::name::FlattenInto;
    use domain::base::{Name, Record};
    use octseq::octets::OctetsFrom;
    let d = r.data();
    let show = format!("{}", r.display_zonefile(DisplayKind::Simple));
    let selfeq = d == d;
    type FlatRec = Record<Name<Vec<u8>>, AllRecordData<Vec<u8>, Name<Vec<u8>>>>;
    let flat: FlatRec = r.clone().try_flatten_into().expect("flatten a parsed record");
    assert_eq!(format!("{}", flat.display_zonefile(DisplayKind::Simple)), show, "flattened record renders differently");
    if selfeq {
        assert!(flat.data() == d, "flattened data differs");
    }
    assert!(flat.owner() == r.owner() && flat.class() == r.class() && flat.ttl() == r.ttl());
    let fd: AllRecordData<Vec<u8>, Name<Vec<u8>>> = d.clone().try_flatten_into().expect("flatten parsed data");
    if selfeq {
        assert!(fd == *flat.data());
    }
    type BytesRec = Record<Name<Bytes>, AllRecordData<Bytes, Name<Bytes>>>;
    let moved: BytesRec = Record::try_octets_from(flat.clone()).expect("record into Bytes");
    assert_eq!(format!("{}", moved.display_zonefile(DisplayKind::Simple)), show, "converted record renders differently");
    if selfeq {
        assert!(moved.data() == d, "converted data differs");
    }
    // narrowed to the zone-file types and widened back
    let narrowed: Result<ZoneRecordData<_, _>, AllRecordData<_, _>> = d.clone().into();
    match narrowed {
        Ok(z) => {
            assert_eq!(z.rtype(), d.rtype());
            assert_eq!(format!("{}", z.display_zonefile(DisplayKind::Simple)), format!("{}", d.display_zonefile(DisplayKind::Simple)));
            let direct: Option<ZoneRecordData<&[u8], ParsedName<&[u8]>>> = match d.clone() {
                AllRecordData::A(x) => Some(x.into()),
                AllRecordData::Cname(x) => Some(x.into()),
                AllRecordData::Mx(x) => Some(x.into()),
                AllRecordData::Txt(x) => Some(x.into()),
                AllRecordData::Unknown(x) => Some(x.into()),
                _ => None,
            };
            if let (Some(dz), true) = (direct, selfeq) {
                assert!(dz == z, "zone data made from the variant differs");
            }
        }
        Err(same) => {
            if selfeq {
                assert!(same == *d);
            }
        }
    }
    // rebuilt from the variant's own type
    let rebuilt: Option<AllRecordData<&[u8], ParsedName<&[u8]>>> = match d.clone() {
        AllRecordData::A(x) => Some(x.into()),
        AllRecordData::Cname(x) => {
            assert!(Cname::from(*x.cname()) == x, "Cname::from(name) differs");
            Some(x.into())
        }
        AllRecordData::Ns(x) => Some(x.into()),
        AllRecordData::Mx(x) => Some(x.into()),
        AllRecordData::Soa(x) => Some(x.into()),
        AllRecordData::Txt(x) => Some(x.into()),
        AllRecordData::Opt(x) => Some(x.into()),
        AllRecordData::Unknown(x) => Some(x.into()),
        AllRecordData::Dnskey(x) => {
            let again: Dnskey<Vec<u8>> = x.clone().convert();
            assert!(again == x, "Dnskey::convert differs");
            assert_eq!(x.clone().into_public_key(), *x.public_key());
            Some(x.into())
        }
        AllRecordData::Ds(x) => {
            assert_eq!(x.clone().into_digest(), *x.digest());
            Some(x.into())
        }
        AllRecordData::Nsec(x) => {
            assert_eq!(x.types().as_octets(), &x.types().as_slice());
            Some(x.into())
        }
        _ => None,
    };
    if let Some(b) = rebuilt {
        if selfeq {
            assert!(b == *d, "rebuilt data differs");
        }
    }
    // the serde rendering exists for whatever parsed
    let _ = serde_json::to_string(r).map(|s| s.len());
}

/// every typed view of the service parameters: the raw and the typed
/// iteration, each typed value's Display / Debug and its own iterator, and
/// the per-type accessors
pub fn exercise_svc_params(p: &domain::rdata::svcb::SvcParams<&[u8]>) {
    use domain::rdata::svcb::value::*;
    let _ = (p.len(), p.is_empty(), p.iter_raw().count());
    let _ = format!("{} {:?}", p, p);
    for v in p.iter_all() {
        let v = match v {
            Ok(v) => v,
            Err(_) => break,
        };
        let _ = format!("{} {:?}", v, v);
        match &v {
            AllValues::Mandatory(x) => {
                let _ = x.iter().count();
            }
            AllValues::Alpn(x) => {
                for a in x.iter() {
                    let _ = a.len();
                }
            }
            AllValues::Ipv4Hint(x) => {
                for a in x.iter() {
                    let _ = format!("{}", a);
                }
            }
            AllValues::Ipv6Hint(x) => {
                for a in x.iter() {
                    let _ = format!("{}", a);
                }
            }
            _ => {}
        }
    }
    for x in p.iter::<Mandatory<_>>().flatten() {
        let _ = x.iter().count();
    }
    for x in p.iter::<Alpn<_>>().flatten() {
        let _ = x.iter().count();
    }
    for x in p.iter::<Ipv4Hint<_>>().flatten() {
        let _ = x.iter().count();
    }
    for x in p.iter::<Ipv6Hint<_>>().flatten() {
        let _ = x.iter().count();
    }
    for x in p.iter::<Port>().flatten() {
        let _ = format!("{:?}", x);
    }
    for x in p.iter::<Ech<_>>().flatten() {
        let _ = format!("{:?}", x);
    }
    for x in p.iter::<DohPath<_>>().flatten() {
        let _ = format!("{:?}", x);
    }
    let _ = p.iter::<NoDefaultAlpn>().count();
    let _ = p.iter::<Ohttp>().count();
    // the same parameters through the other constructors and the raw view
    use domain::rdata::svcb::{SvcParams, SvcParamsBuilder, UnknownSvcParam};
    let again = match SvcParams::from_slice(p.as_slice()) {
        Ok(x) => x,
        Err(_) => panic!("parameters of a parsed record are rejected by from_slice"),
    };
    assert!(again == p.for_slice() && again.as_slice() == p.as_slice());
    let mut raw_len = 0;
    let mut h = DefaultHasher::new();
    for x in p.iter::<UnknownSvcParam<_>>() {
        let x = x.expect("raw parameter of a parsed record");
        let sl: &[u8] = x.as_ref();
        assert!(sl == x.as_slice() && sl == *x.value() && x == x);
        x.hash(&mut h);
        raw_len += 4 + sl.len();
    }
    assert_eq!(raw_len, p.len());
    let _ = (p.first::<Port>(), p.first::<Alpn<_>>().map(|a| a.iter().count()), p.first::<UnknownSvcParam<_>>().map(|x| x.key()));
    let rebuilt: SvcParams<Vec<u8>> = SvcParamsBuilder::<Vec<u8>>::from_params(p).expect("builder from parameters").freeze().expect("freeze");
    assert!(rebuilt.as_slice() == p.as_slice(), "parameters rebuilt through the builder differ");
}

/// every typed view of the options of an OPT record
pub fn exercise_options(o: &domain::base::opt::Opt<&[u8]>) {
    use domain::base::opt::*;
    type N<'a> = domain::base::Name<&'a [u8]>;
    for x in o.iter::<AllOptData<_, N<'_>>>().flatten() {
        let _ = format!("{:?}", x);
        match &x {
            AllOptData::Dau(a) => {
                let _ = a.iter().count();
            }
            AllOptData::Dhu(a) => {
                let _ = a.iter().count();
            }
            AllOptData::N3u(a) => {
                let _ = a.iter().count();
            }
            AllOptData::KeyTag(k) => {
                let _ = k.iter().count();
            }
            AllOptData::ClientSubnet(c) => {
                let _ = format!("{} {:?} {} {}", c, c.addr(), c.source_prefix_len(), c.scope_prefix_len());
            }
            AllOptData::Cookie(c) => {
                let _ = format!("{} {:?}", c, c.server());
            }
            AllOptData::ExtendedError(e) => {
                let _ = format!("{:?} {:?}", e.code(), e.text());
            }
            _ => {}
        }
    }
    for x in o.iter::<UnknownOptData<_>>().flatten() {
        use octseq::octets::OctetsFrom;
        let owned: UnknownOptData<Vec<u8>> = UnknownOptData::try_octets_from(x.clone()).expect("owned option");
        let a: &[u8] = x.as_ref();
        let b: &&[u8] = x.as_ref();
        assert!(owned.as_slice() == x.as_slice() && a == x.as_slice() && *b == a && owned.code() == x.code());
    }
    let _ = o.iter::<ClientSubnet>().map(|x| x.is_ok()).count();
    let _ = o.iter::<Cookie>().map(|x| x.is_ok()).count();
    let _ = o.iter::<TcpKeepalive>().map(|x| x.is_ok()).count();
    let _ = o.iter::<Expire>().map(|x| x.is_ok()).count();
    let _ = o.iter::<Padding<_>>().map(|x| x.is_ok()).count();
    let _ = o.iter::<Nsid<_>>().map(|x| x.is_ok()).count();
    let _ = o.iter::<ExtendedError<_>>().map(|x| x.is_ok()).count();
    let _ = o.iter::<Chain<N<'_>>>().map(|x| x.is_ok()).count();
    let _ = o.iter::<KeyTag<_>>().map(|x| x.is_ok()).count();
    let _ = o.iter::<Dau<_>>().map(|x| x.is_ok()).count();
    let _ = o.first::<ClientSubnet>();
}

fn q_item(q: &Question<ParsedName<&[u8]>>) -> Value {
    // the same question made by hand and converted compares equal
    {
        use domain::base::iana::Class;
        use domain::base::name::FlattenInto;
        use octseq::octets::OctetsFrom;
        type NV = domain::base::Name<Vec<u8>>;
        let flat: NV = q.qname().to_name();
        let by_new: Question<NV> = Question::new(flat.clone(), q.qtype(), q.qclass());
        let by_tuple: Question<NV> = (flat.clone(), q.qtype(), q.qclass()).into();
        assert!(by_new == *q && by_tuple == *q, "hand-made question differs");
        let in1: Question<NV> = Question::new_in(flat.clone(), q.qtype());
        let in2: Question<NV> = (flat.clone(), q.qtype()).into();
        assert!(in1 == in2 && in1.qclass() == Class::IN);
        assert_eq!(in1 == *q, q.qclass() == Class::IN, "new_in: class IN expected");
        let conv: Question<domain::base::Name<bytes::Bytes>> = Question::try_octets_from(by_new.clone()).expect("question into Bytes");
        assert!(conv == *q, "converted question differs");
        let fl: NV = (*q.qname()).try_flatten_into().expect("flatten");
        assert!(fl == flat);
        assert_eq!(format!("{}", conv), format!("{}", q));
    }
    json!([use_name(q.qname()), q.qtype().to_int(), q.qclass().to_int()])
}

fn r_item(rec: &ParsedRecord<'_, &[u8]>) -> Value {
    let owner = rec.owner();
    let ttl = rec.ttl().as_secs();
    // ParsedName<&&[u8]> -> exercise through the generic path
    let labels = labels_json(owner.iter());
    let _ = format!("{}", owner);
    let flat: domain::base::Name<Vec<u8>> = owner.to_name();
    assert!(owner == flat);
    json!([
        labels,
        rec.rtype().to_int(),
        rec.class().to_int(),
        (ttl >> 16) as u16,
        (ttl & 0xFFFF) as u16,
        rec.rdlen(),
        old_rd(rec)
    ])
}

fn rsection(sec: Result<domain::base::message::RecordSection<'_, &[u8]>, domain::base::wire::ParseError>, last: bool) -> Value {
    let sec = match sec {
        Ok(s) => s,
        Err(_) => return json!({"reach": false, "items": [], "err": false}),
    };
    let mut items = vec![];
    let mut err = false;
    let mut it = sec;
    let total = it.pos();
    let _ = total;
    let mut after_err = 0;
    loop {
        match it.next() {
            Some(Ok(rec)) => {
                assert!(!err, "item after an error");
                items.push(r_item(&rec));
            }
            Some(Err(_)) => {
                assert!(!err, "second error from a fused iterator");
                err = true;
            }
            None => {
                // fused: stays at None
                after_err += 1;
                if after_err >= 2 {
                    break;
                }
            }
        }
    }
    if err && !last {
        assert!(it.next_section().is_err(), "next_section after an error must fail");
    }
    if last {
        // the additional section has no successor, with or without error
        assert!(matches!(it.next_section(), Ok(None)));
    }
    json!({"reach": true, "items": items, "err": err})
}

/// Wire.tla `HBits(m)`: <<QR, Opcode, AA, TC, RD, RA, Z, AD, CD, RCODE>> by
/// every route to the header: the accessors, the `Flags` struct (also through
/// its text form), a `HeaderSection` parsed from a parser, and the views of
/// `Message::header_section()`; the counts through their UPDATE aliases and
/// both octet views.
fn header_routes(m: &[u8], msg: &Message<&[u8]>) -> Value {
    use domain::base::header::{Flags, Header, HeaderCounts, HeaderSection};
    use std::str::FromStr;
    let b = |x: bool| x as u8;
    let bits = |h: Header| {
        json!([b(h.qr()), h.opcode().to_int(), b(h.aa()), b(h.tc()), b(h.rd()), b(h.ra()), b(h.z()), b(h.ad()), b(h.cd()), h.rcode().to_int()])
    };
    let cnt = |c: HeaderCounts| json!([c.qdcount(), c.ancount(), c.nscount(), c.arcount()]);
    let h = msg.header();
    let c = msg.header_counts();
    let direct = bits(h);
    let mut routes: Vec<(Value, Value)> = vec![];
    // the Flags struct, also rendered and read back
    let f = h.flags();
    let via_flags = |f: Flags| json!([b(f.qr), h.opcode().to_int(), b(f.aa), b(f.tc), b(f.rd), b(f.ra), b(h.z()), b(f.ad), b(f.cd), h.rcode().to_int()]);
    routes.push((via_flags(f), cnt(c)));
    routes.push((via_flags(Flags::from_str(&format!("{}", f)).expect("flags text")), cnt(c)));
    assert_eq!(Flags::new(), Flags::default());
    // a header section parsed from a parser
    let mref: &&[u8] = &m;
    let mut p: octseq::parse::Parser<'_, &[u8]> = octseq::parse::Parser::from_ref(mref);
    let hs = HeaderSection::parse(&mut p).expect("header of a message of 12 octets or more");
    assert_eq!(p.pos(), 12);
    routes.push((bits(*hs.header()), cnt(*hs.counts())));
    let ah: &Header = hs.as_ref();
    let ac: &HeaderCounts = hs.as_ref();
    routes.push((bits(*ah), cnt(*ac)));
    let mut back: Vec<u8> = vec![];
    hs.compose(&mut back).unwrap();
    assert_eq!(&back[..], &m[..12], "composed header section differs");
    // the message's own header section and the slice views
    let ms = msg.header_section();
    routes.push((bits(*ms.header()), cnt(*ms.counts())));
    assert_eq!(ms.as_slice(), &m[..12]);
    assert_eq!(h.as_slice(), &m[..4]);
    assert_eq!(c.as_slice(), &m[4..12]);
    assert_eq!(HeaderCounts::new(), HeaderCounts::default());
    // the counts under their RFC 2136 names
    routes.push((direct.clone(), json!([c.zocount(), c.prcount(), c.upcount(), c.adcount()])));
    let cd = cnt(c);
    for (i, (rb, rc)) in routes.iter().enumerate() {
        if *rb != direct || *rc != cd {
            route_note(json!({"header_route": i + 1, "direct": [direct, cd], "other": [rb, rc]}));
            if *rb != direct {
                return rb.clone();
            }
            return json!(["counts differ", rc]);
        }
    }
    assert_eq!(cd, json!([u16::from_be_bytes([m[4], m[5]]), u16::from_be_bytes([m[6], m[7]]),
                          u16::from_be_bytes([m[8], m[9]]), u16::from_be_bytes([m[10], m[11]])]));
    direct
}

/// The OPT record's fixed fields and options by the other routes: converted
/// to owned octets, through `AsRef<Opt>` and a walk over the option headers,
/// and through `OptHeader` laid over the record's octets in the message.
fn opt_routes(m: &[u8], msg: &Message<&[u8]>, opt: &domain::base::opt::OptRecord<&[u8]>) -> Vec<Value> {
    use domain::base::opt::{Opt, OptHeader, OptRecord, OptionHeader};
    use octseq::octets::OctetsFrom;
    let mut res = vec![];
    let tuple = |payload: u16, ext: u8, version: u8, flags: u16, opts: Value| json!([payload, (u16::from(ext) << 8) | u16::from(version), flags, opts]);
    // owned copy
    let owned: OptRecord<Vec<u8>> = OptRecord::try_octets_from(opt.clone()).expect("owned OPT record");
    let orec = owned.as_record();
    res.push(tuple(owned.udp_payload_size(), owned.rcode(msg.header()).ext(), owned.version(),
                   orec.ttl().as_secs() as u16, opts_of(owned.opt())));
    assert_eq!(owned.dnssec_ok(), opt.dnssec_ok());
    // AsRef<Opt> and the option headers read one by one
    let o: &Opt<&[u8]> = opt.as_ref();
    let mut octs: Vec<u8> = vec![];
    {
        use domain::base::rdata::ComposeRecordData;
        o.compose_rdata(&mut octs).unwrap();
    }
    // the same option octets through the checking constructors
    assert!(Opt::from_slice(&octs).is_ok() && Opt::from_octets(octs.clone()).is_ok(), "options of a parsed OPT record rejected");
    let mut p = octseq::parse::Parser::from_ref(&octs[..]);
    let mut heads = vec![];
    while p.remaining() > 0 {
        let h = OptionHeader::parse(&mut p).expect("option header of a checked OPT record");
        p.advance(usize::from(h.len())).expect("option data of a checked OPT record");
        heads.push(json!([h.code(), h.len()]));
        let _ = OptionHeader::new(h.code(), h.len());
    }
    assert_eq!(o.len(), octs.len());
    assert_eq!(o.is_empty(), heads.is_empty());
    let rec = opt.as_record();
    res.push(tuple(rec.class().to_int(), (rec.ttl().as_secs() >> 24) as u8, (rec.ttl().as_secs() >> 16) as u8,
                   rec.ttl().as_secs() as u16, Value::Array(heads)));
    // OptHeader over the record in the message (root owner only: the header
    // view assumes a one-octet name)
    if let Ok(mut sec) = msg.additional() {
        loop {
            let pos = sec.pos();
            match sec.next() {
                Some(Ok(r)) => {
                    if r.rtype() == domain::base::iana::Rtype::OPT {
                        if m[pos] == 0 {
                            let oh = OptHeader::for_record_slice(&m[pos..]);
                            let flags = (u16::from(oh.dnssec_ok()) << 15) | (opt.as_record().ttl().as_secs() as u16 & 0x7FFF);
                            res.push(tuple(oh.udp_payload_size(), oh.rcode(msg.header()).ext(), oh.version(), flags, opts_of(opt.opt())));
                        }
                        break;
                    }
                }
                _ => break,
            }
        }
    }
    res
}

/// the spec's Projection(m, starts), observed on the established API
pub fn old_projection(m: &[u8], starts: &[usize], slw: &mut SliceProbe, predicted_hang: &[bool]) -> Value {
    let msg = match Message::from_octets(m) {
        Ok(msg) => msg,
        Err(_) => return json!({"short": true}),
    };
    let _ = take_route_notes();
    let mut o = Map::new();
    o.insert("short".into(), json!(false));
    o.insert(
        "hdr".into(),
        observe(|| {
            let h = msg.header();
            let c = msg.header_counts();
            let _ = format!("{:?}", msg);
            let _ = (h.qr(), h.opcode(), h.rcode(), h.tc(), h.aa(), h.rd(), h.ra(), h.ad(), h.cd(), h.z());
            json!([h.id(), u16::from_be_bytes([m[2], m[3]]), c.qdcount(), c.ancount(), c.nscount(), c.arcount()])
        }),
    );
    o.insert("hdrx".into(), observe(|| header_routes(m, &msg)));
    o.insert(
        "q".into(),
        observe(|| {
            let mut items = vec![];
            let mut err = false;
            let mut it = msg.question();
            let mut nones = 0;
            loop {
                match it.next() {
                    Some(Ok(q)) => {
                        assert!(!err);
                        items.push(q_item(&q));
                    }
                    Some(Err(_)) => {
                        assert!(!err);
                        err = true;
                    }
                    None => {
                        nones += 1;
                        if nones >= 2 {
                            break;
                        }
                    }
                }
            }
            assert_eq!(it.next_section().is_err(), err, "next_section must report the question error");
            json!({"items": items, "err": err})
        }),
    );
    o.insert("an".into(), observe(|| rsection(msg.answer(), false)));
    o.insert("ns".into(), observe(|| rsection(msg.authority(), false)));
    o.insert("ar".into(), observe(|| rsection(msg.additional(), true)));
    o.insert(
        "typed".into(),
        observe(|| {
            let walks = |sec: Result<RecordSection<'_, &[u8]>, domain::base::wire::ParseError>| match sec {
                Ok(s) => typed_walks(s),
                Err(_) => json!([]),
            };
            json!([walks(msg.answer()), walks(msg.authority()), walks(msg.additional())])
        }),
    );
    o.insert("recat".into(), observe(|| Value::Array(starts.iter().map(|s| rec_at(m, *s)).collect())));
    o.insert(
        "iter".into(),
        observe(|| {
            let mut nok = 0u64;
            let mut nerr = 0u64;
            for x in msg.iter().take(200_000) {
                match x {
                    Ok((rec, _sec)) => {
                        let _ = rec.rtype();
                        nok += 1
                    }
                    Err(_) => nerr += 1,
                }
            }
            // sections() agrees with the individual accessors
            let s = msg.sections().is_ok();
            assert_eq!(s, msg.additional().is_ok());
            json!([nok, nerr])
        }),
    );
    o.insert(
        "cname".into(),
        observe(|| match msg.canonical_name() {
            Some(n) => json!({"k": "name", "name": use_name(&n)}),
            None => json!({"k": "none", "name": []}),
        }),
    );
    if o["cname"].get("panic").is_some() {
        o.insert("cname".into(), json!({"k": "panic", "name": []}));
    }
    o.insert(
        "opt".into(),
        observe(|| match msg.opt() {
            Some(opt) => {
                let mut opts = vec![];
                for x in opt.opt().iter::<UnknownOptData<_>>() {
                    let x = x.expect("raw option");
                    opts.push(json!([x.code().to_int(), x.data().len()]));
                }
                let _ = opt.dnssec_ok();
                let _ = msg.opt_rcode();
                exercise_options(opt.opt());
                let ttlhi = (u16::from(opt.rcode(msg.header()).ext()) << 8) | u16::from(opt.version());
                let rec = opt.as_record();
                let ttl = rec.ttl().as_secs();
                assert_eq!((ttl >> 16) as u16, ttlhi);
                let v = json!([opt.udp_payload_size(), ttlhi, (ttl & 0xFFFF) as u16, opts]);
                let others = opt_routes(m, &msg, &opt);
                for (i, ov) in others.iter().enumerate() {
                    if *ov != v {
                        route_note(json!({"opt_route": i + 1, "direct": v, "other": ov}));
                        return json!({"k": "opt", "v": ov});
                    }
                }
                json!({"k": "opt", "v": v})
            }
            None => {
                let _ = msg.opt_rcode();
                json!({"k": "none", "v": []})
            }
        }),
    );
    o.insert("selfans".into(), observe(|| json!(msg.is_answer(&msg))));
    o.insert(
        "sole".into(),
        observe(|| {
            let fq = msg.first_question().is_some();
            let _ = msg.qtype();
            let _ = msg.is_xfr();
            match msg.sole_question() {
                Ok(q) => {
                    assert!(fq);
                    json!({"ok": true, "q": q_item(&q)})
                }
                Err(_) => json!({"ok": false, "q": []}),
            }
        }),
    );
    o.insert(
        "xfr".into(),
        match catch_unwind(AssertUnwindSafe(|| {
            let mut it = XfrResponseInterpreter::new();
            let resp = Message::from_octets(Bytes::copy_from_slice(m)).unwrap();
            if let Ok(iter) = it.interpret_response(resp) {
                for x in iter.take(100_000) {
                    let _ = x;
                }
            }
        })) {
            Ok(()) => json!("nopanic"),
            Err(_) => json!("panic"),
        },
    );
    let mut sl = vec![];
    for (i, s) in starts.iter().enumerate() {
        sl.push(json!(slw.count(m, *s, predicted_hang.get(i).copied().unwrap_or(false))));
    }
    o.insert("sl".into(), Value::Array(sl));
    // totality-only part of the battery: displays and typed views
    let tot = observe(|| {
        let mut h = DefaultHasher::new();
        format!("{}", msg.display_dig_style()).hash(&mut h);
        let _ = msg.get_last_additional::<AllRecordData<_, ParsedName<_>>>().is_some();
        let _ = msg.get_last_additional::<domain::rdata::A>().is_some();
        let _ = msg.get_last_additional::<domain::base::opt::Opt<_>>().is_some();
        // every other public read-side method of Message
        let _ = (msg.is_error(), msg.no_error(), msg.header_section(), msg.as_slice().len(), msg.as_octets().len());
        let _ = (msg.for_slice().header_counts(), msg.for_slice_ref().is_xfr());
        let _ = (msg.zone().count(), msg.prerequisite().is_ok(), msg.update().is_ok());
        let _ = (msg.first_question().is_some(), msg.qtype(), msg.sole_question().is_ok(), msg.opt_rcode());
        let _ = msg.contains_answer::<AllRecordData<_, ParsedName<_>>>();
        for sec in [msg.answer(), msg.authority(), msg.additional()].into_iter().flatten() {
            let _ = sec.into_records::<AllRecordData<_, ParsedName<_>>>().take(100_000).map(|r| r.is_ok()).count();
            let _ = sec.limit_to_in::<domain::rdata::A>().take(100_000).count();
            let _ = sec.limit_to::<AllRecordData<_, ParsedName<_>>>().unwrap().pos();
        }
        // copy_records into a fresh builder (value or error)
        {
            use domain::base::message_builder::MessageBuilder;
            let target = MessageBuilder::new_vec().answer();
            let _ = msg
                .copy_records(target, |rr| rr.into_record::<AllRecordData<_, ParsedName<_>>>().ok().flatten())
                .is_ok();
        }
        // remove_last_additional on a copy (documented to panic without one)
        if msg.header_counts().arcount() > 0 {
            let mut copy = Message::from_octets(m.to_vec()).unwrap();
            copy.remove_last_additional();
            let _ = copy.additional().map(|s| s.count());
            let _ = copy.get_last_additional::<domain::rdata::A>().is_some();
        }
        if let Ok(an) = msg.answer() {
            for r in an.limit_to::<AllRecordData<_, ParsedName<_>>>() {
                if let Ok(r) = r {
                    format!("{}", r.display_zonefile(DisplayKind::Multiline)).hash(&mut h);
                }
            }
            let _ = msg.contains_answer::<domain::rdata::A>();
            for r in an.limit_to_in::<domain::rdata::Cname<ParsedName<_>>>() {
                let _ = r.is_ok();
            }
        }
        json!(h.finish())
    });
    o.insert("tot".into(), tot);
    let notes = take_route_notes();
    if !notes.is_empty() {
        o.insert("route_notes".into(), Value::Array(notes));
    }
    Value::Object(o)
}

/// Performs the battery twice; a difference is reported under "nonidempotent",
/// a panic in the totality-only part under "tot_panic".
pub fn old_projection_twice(m: &[u8], starts: &[usize], slw: &mut SliceProbe, predicted_hang: &[bool]) -> Value {
    let mut a = old_projection(m, starts, slw, predicted_hang);
    let b = old_projection(m, starts, slw, predicted_hang);
    let mut diff = None;
    if let (Some(ao), Some(bo)) = (a.as_object(), b.as_object()) {
        for (k, v) in ao.iter() {
            if bo.get(k) != Some(v) {
                diff = Some(k.clone());
            }
        }
    }
    if let Some(o) = a.as_object_mut() {
        if let Some(t) = o.remove("tot") {
            if t.get("panic").is_some() {
                o.insert("tot_panic".into(), json!(true));
            }
        }
        if let Some(k) = diff {
            o.insert("nonidempotent".into(), json!(k));
        }
    }
    a
}

//------------ Label::iter_slice with a watchdog -----------------------------------

/// `Label::iter_slice(m, start)` may never return; it runs on a worker
/// thread with a deadline.  A worker that did not answer is abandoned (it
/// cannot be killed) and replaced; after `max_hangs` abandoned workers,
/// inputs for which the specification predicts a hang under an open
/// deviation are not executed any more (counted in `skipped`).
pub struct SliceProbe {
    tx: Option<Sender<(Arc<Vec<u8>>, usize)>>,
    rx: Option<Receiver<i64>>,
    pub hangs: u32,
    pub skipped: u64,
    pub max_hangs: u32,
}

impl SliceProbe {
    pub fn new() -> Self {
        SliceProbe { tx: None, rx: None, hangs: 0, skipped: 0, max_hangs: 2 }
    }
    fn spawn(&mut self) {
        let (tx, wrx) = channel::<(Arc<Vec<u8>>, usize)>();
        let (wtx, rx) = channel::<i64>();
        std::thread::spawn(move || {
            while let Ok((m, start)) = wrx.recv() {
                // the unrepaired walk is a function of the offset alone: more
                // labels than octets means it never ends; a repaired iterator
                // may legitimately yield up to a name's worth of labels more
                let cap = m.len() + 300;
                let r = catch_unwind(AssertUnwindSafe(|| {
                    let mut n = 0usize;
                    for l in Label::iter_slice(&m, start) {
                        let _ = l.len();
                        n += 1;
                        if n >= cap {
                            return SL_UNBOUNDED;
                        }
                    }
                    n as i64
                }));
                if wtx.send(r.unwrap_or(-9)).is_err() {
                    break;
                }
            }
        });
        self.tx = Some(tx);
        self.rx = Some(rx);
    }
    pub fn count(&mut self, m: &[u8], start: usize, predicted_hang: bool) -> i64 {
        if start >= m.len() {
            // documented to panic; not part of the property
            return 0;
        }
        if predicted_hang && self.hangs >= self.max_hangs {
            self.skipped += 1;
            return SL_HANG;
        }
        if self.tx.is_none() {
            self.spawn();
        }
        let arc = Arc::new(m.to_vec());
        self.tx.as_ref().unwrap().send((arc, start)).expect("slice worker");
        let wait = if predicted_hang { 2 } else { 5 };
        match self.rx.as_ref().unwrap().recv_timeout(Duration::from_secs(wait)) {
            Ok(v) => v,
            Err(_) => {
                self.hangs += 1;
                self.tx = None;
                self.rx = None;
                SL_HANG
            }
        }
    }
}

//------------ watchdog around whole battery calls ------------------------------------

pub static SLICE_HANGS: std::sync::atomic::AtomicU64 = std::sync::atomic::AtomicU64::new(0);
pub static SLICE_SKIPPED: std::sync::atomic::AtomicU64 = std::sync::atomic::AtomicU64::new(0);

pub type CaseFn = Box<dyn FnMut(&Value, &Value) -> Value + Send>;

/// Runs every case on a worker thread with a deadline: code under test that
/// never returns is an observation (`{"hang": true}`), not a stuck harness.
/// A worker that missed its deadline is abandoned (it cannot be killed) and
/// replaced; after `max_hangs` such workers the remaining cases are not
/// executed any more (`{"not_executed_after_hangs": true}`).
pub struct Watchdog {
    make: fn() -> CaseFn,
    tx: Option<Sender<(Value, Value)>>,
    rx: Option<Receiver<Value>>,
    pub hangs: u32,
    pub max_hangs: u32,
    pub deadline: Duration,
}

impl Watchdog {
    pub fn new(make: fn() -> CaseFn, secs: u64) -> Self {
        Watchdog { make, tx: None, rx: None, hangs: 0, max_hangs: 2, deadline: Duration::from_secs(secs) }
    }
    fn spawn(&mut self) {
        let (tx, wrx) = channel::<(Value, Value)>();
        let (wtx, rx) = channel::<Value>();
        let make = self.make;
        std::thread::Builder::new()
            .stack_size(64 << 20)
            .spawn(move || {
                let mut f = make();
                while let Ok((input, dev)) = wrx.recv() {
                    let r = catch_unwind(AssertUnwindSafe(|| f(&input, &dev))).unwrap_or(json!({"panic": true}));
                    if wtx.send(r).is_err() {
                        break;
                    }
                }
            })
            .expect("spawn worker");
        self.tx = Some(tx);
        self.rx = Some(rx);
    }
    pub fn call(&mut self, input: &Value, dev: &Value) -> Value {
        if self.hangs >= self.max_hangs {
            return json!({"not_executed_after_hangs": true});
        }
        if self.tx.is_none() {
            self.spawn();
        }
        if self.tx.as_ref().unwrap().send((input.clone(), dev.clone())).is_err() {
            self.tx = None;
            return json!({"panic": true});
        }
        match self.rx.as_ref().unwrap().recv_timeout(self.deadline) {
            Ok(v) => v,
            Err(_) => {
                self.hangs += 1;
                self.tx = None;
                self.rx = None;
                json!({"hang": true})
            }
        }
    }
}

/// the C01 battery as a watchdog case: {"m": octets, "starts": offsets}
pub fn make_proj_case() -> CaseFn {
    let mut slw = SliceProbe::new();
    Box::new(move |input: &Value, dev: &Value| {
        let m = bytes_of(&input["m"]);
        let starts = usizes_of(&input["starts"]);
        let ph = predicted_hangs(dev, starts.len());
        let v = old_projection_twice(&m, &starts, &mut slw, &ph);
        SLICE_HANGS.store(slw.hangs as u64, std::sync::atomic::Ordering::Relaxed);
        SLICE_SKIPPED.store(slw.skipped, std::sync::atomic::Ordering::Relaxed);
        v
    })
}

//------------ component-wise classification ---------------------------------------

pub struct Tally {
    pub n: u64,
    pub pass: u64,
    pub fail: u64,
    pub panics: u64,
    pub known: BTreeMap<String, u64>,
    pub samples: Vec<Value>,
}

impl Tally {
    pub fn new() -> Self {
        Tally { n: 0, pass: 0, fail: 0, panics: 0, known: BTreeMap::new(), samples: vec![] }
    }
}

fn sl_dev_name(v: i64) -> Option<&'static str> {
    match v {
        SL_HANG => Some("D_slice_iter_selfptr"),
        SL_UNBOUNDED => Some("D_slice_iter_loop"),
        _ => None,
    }
}

/// The typed walks: element by element; where the specification does not
/// know the layout (`["o"]`) a value and an error are both what it expects.
fn typed_matches(exp: &Value, obs: &Value) -> bool {
    match (exp, obs) {
        (Value::Array(e), Value::Array(o)) => {
            if e.len() == 1 && e[0] == "o" {
                return o.len() == 1 && (o[0] == "o" || o[0] == "e");
            }
            if e.first().map(|x| x.is_string()).unwrap_or(false) {
                return e == o;
            }
            e.len() == o.len() && e.iter().zip(o.iter()).all(|(a, b)| typed_matches(a, b))
        }
        _ => exp == obs,
    }
}

/// Compares an observation with the expectation component by component.
/// Returns (known deviations witnessed, mismatching components).
pub fn classify(exp: &Value, dev: &Value, obs: &Value) -> (Vec<String>, Vec<String>) {
    let mut known = vec![];
    let mut bad = vec![];
    let (eo, oo) = match (exp.as_object(), obs.as_object()) {
        (Some(e), Some(o)) => (e, o),
        _ => {
            if exp != obs {
                bad.push("<whole>".to_string());
            }
            return (known, bad);
        }
    };
    // deviations the executor itself attributes (RDATA the spec does not
    // know): they count as witnessed deviations, which must be open
    let hdevs: Vec<String> = oo
        .get("harness_devs")
        .and_then(|v| v.as_array())
        .map(|a| a.iter().filter_map(|x| x.as_str().map(|s| s.to_string())).collect())
        .unwrap_or_default();
    known.extend(hdevs.iter().cloned());
    for k in oo.keys() {
        if !eo.contains_key(k) && k != "harness_devs" {
            bad.push(k.clone());
        }
    }
    for (k, ev) in eo.iter() {
        let ov = match oo.get(k) {
            Some(v) => v,
            None => {
                bad.push(k.clone());
                continue;
            }
        };
        if ov == ev {
            continue;
        }
        if k == "agree" && !hdevs.is_empty() {
            continue;
        }
        if k == "typed" {
            if !typed_matches(ev, ov) {
                bad.push(k.clone());
            }
            continue;
        }
        if k == "sl" {
            let dv = dev.get("D_slice_iter").and_then(|d| d.get("sl"));
            let (ea, oa) = (ev.as_array().cloned().unwrap_or_default(), ov.as_array().cloned().unwrap_or_default());
            if ea.len() != oa.len() {
                bad.push(k.clone());
                continue;
            }
            for i in 0..ea.len() {
                let (e, o) = (ea[i].as_i64().unwrap_or(-100), oa[i].as_i64().unwrap_or(-101));
                if e == o || (e == SL_FINITE && o >= 0) {
                    continue;
                }
                let d = dv.and_then(|d| d.get(i)).and_then(|x| x.as_i64());
                match (d, sl_dev_name(o)) {
                    (Some(d), Some(name)) if d == o => known.push(name.to_string()),
                    _ => bad.push(format!("sl[{}]", i)),
                }
            }
            continue;
        }
        let mut matched = None;
        if let Some(dm) = dev.as_object() {
            for (dname, comps) in dm.iter() {
                if comps.get(k) == Some(ov) {
                    matched = Some(dname.clone());
                }
            }
        }
        match matched {
            Some(d) => known.push(d),
            None => bad.push(k.clone()),
        }
    }
    known.sort();
    known.dedup();
    (known, bad)
}

/// The S->I loop with component-wise classification; output format of
/// `verif_harness::common::run_cases` (FAIL / KNOWN / SUMMARY lines).
pub fn run_component_cases<F: FnMut(&Value, &Value) -> Value>(mut f: F) -> Tally {
    if std::env::var("VERIF_LOUD_PANICS").is_err() {
        quiet_panics();
    }
    let devs = open_devs();
    let stdin = std::io::stdin();
    let stdout = std::io::stdout();
    let mut out = stdout.lock();
    let mut t = Tally::new();
    let perturb = has_flag("--selftest-perturb");
    for line in stdin.lock().lines() {
        let line = match line {
            Ok(l) => l,
            Err(_) => break,
        };
        if line.trim().is_empty() {
            continue;
        }
        let case: Value = match serde_json::from_str(&line) {
            Ok(v) => v,
            Err(e) => {
                let _ = writeln!(out, "BADCASE {} {}", e, &line[..line.len().min(200)]);
                continue;
            }
        };
        t.n += 1;
        let input = &case["in"];
        let dev = case.get("dev").cloned().unwrap_or(json!({}));
        let obs = match catch_unwind(AssertUnwindSafe(|| f(input, &dev))) {
            Ok(v) => v,
            Err(_) => {
                t.panics += 1;
                json!({"panic": true})
            }
        };
        let mut exp = case["exp"].clone();
        if perturb && t.n == 1 {
            if let Some(o) = exp.as_object_mut() {
                let k = if o.contains_key("hdr") { "hdr" } else { "short" };
                o.insert(k.to_string(), json!("perturbed"));
            }
        }
        let (known, bad) = classify(&exp, &dev, &obs);
        let unlisted: Vec<&String> = known.iter().filter(|d| !devs.contains(d)).collect();
        if bad.is_empty() && unlisted.is_empty() {
            if known.is_empty() {
                t.pass += 1;
                if t.samples.len() < 3 && t.n % 97 == 1 {
                    t.samples.push(json!({"in": input, "exp": exp, "obs": obs}));
                }
            } else {
                for d in known {
                    let c = t.known.entry(d.clone()).or_insert(0);
                    *c += 1;
                    if *c <= 1 {
                        let _ = writeln!(out, "KNOWN {}", json!({"dev": d, "case": {"in": input, "exp": exp, "obs": obs}}));
                    }
                }
            }
        } else {
            t.fail += 1;
            if t.fail <= 5 {
                let _ = writeln!(
                    out,
                    "FAIL {}",
                    json!({"in": input, "exp": exp, "obs": obs, "components": bad, "matches_unlisted_dev": unlisted})
                );
            }
        }
    }
    t
}

pub fn print_summary(t: &Tally, extra: Value) {
    let known: Map<String, Value> = t.known.iter().map(|(k, v)| (k.clone(), json!(*v))).collect();
    let mut s = json!({"n": t.n, "pass": t.pass, "fail": t.fail, "panics": t.panics,
                       "known": known, "samples": t.samples});
    if let (Some(o), Some(e)) = (s.as_object_mut(), extra.as_object()) {
        for (k, v) in e {
            o.insert(k.clone(), v.clone());
        }
    }
    println!("SUMMARY {}", s);
}

pub fn usizes_of(v: &Value) -> Vec<usize> {
    v.as_array()
        .map(|a| a.iter().map(|x| x.as_u64().unwrap_or(0) as usize).collect())
        .unwrap_or_default()
}

/// which sl entries the specification predicts to hang under the deviation
pub fn predicted_hangs(dev: &Value, n: usize) -> Vec<bool> {
    let mut v = vec![false; n];
    if let Some(a) = dev.get("D_slice_iter").and_then(|d| d.get("sl")).and_then(|x| x.as_array()) {
        for (i, x) in a.iter().enumerate() {
            if i < n && x.as_i64() == Some(SL_HANG) {
                v[i] = true;
            }
        }
    }
    v
}
