//! Observation of the wire-format readers (C01, C19): the read battery on
//! the established `Message` API, the same content read through the new
//! API (`domain::new`), and the component-wise comparison of observations
//! with the specification's projection (spec/Wire.tla `Projection`).
#![allow(dead_code)]

use bytes::Bytes;
use domain::base::name::{Label, ParsedName, ToLabelIter, ToName};
use domain::base::opt::{AllOptData, UnknownOptData};
use domain::base::zonefile_fmt::{DisplayKind, ZonefileFmt};
use domain::base::{Message, ParsedRecord, Question};
use domain::net::xfr::protocol::XfrResponseInterpreter;
use domain::rdata::AllRecordData;
use serde_json::{json, Map, Value};
use std::collections::hash_map::DefaultHasher;
use std::collections::BTreeMap;
use std::hash::{Hash, Hasher};
use std::io::{BufRead, Write};
use std::panic::{catch_unwind, AssertUnwindSafe};
use std::sync::mpsc::{channel, Receiver, Sender};
use std::sync::Arc;
use std::time::Duration;
use verif_harness::common::*;

pub const SL_HANG: i64 = -1;
pub const SL_UNBOUNDED: i64 = -2;
pub const SL_FINITE: i64 = -3;

//------------ names -----------------------------------------------------------

pub fn labels_json<'a, I: Iterator<Item = &'a Label>>(it: I) -> Value {
    Value::Array(
        it.filter(|l| !l.is_root())
            .map(|l| json_bytes(l.as_slice()))
            .collect(),
    )
}

/// Exercise a returned name: iterate both ways, flatten, compare with
/// itself, hash, display, walk the suffixes.  Returns the labels.
pub fn use_name(n: &ParsedName<&[u8]>) -> Value {
    use domain::base::cmp::CanonicalOrd;
    let labels = labels_json(n.iter());
    let lv: Vec<Vec<u8>> = n.iter().filter(|l| !l.is_root()).map(|l| l.as_slice().to_vec()).collect();
    let fwd = n.iter().count();
    let back = n.iter().rev().count();
    assert_eq!(fwd, back, "label count differs by direction");
    assert_eq!(n.label_count(), fwd);
    let rev: Vec<Vec<u8>> = n.iter().rev().filter(|l| !l.is_root()).map(|l| l.as_slice().to_vec()).collect();
    assert!(rev.iter().rev().eq(lv.iter()), "reverse iteration yields other labels");
    let flat: domain::base::Name<Vec<u8>> = n.to_name();
    assert!(n == &flat, "flattened name differs");
    assert_eq!(usize::from(n.compose_len()), flat.as_slice().len());
    assert_eq!(n.cmp(n), std::cmp::Ordering::Equal);
    assert_eq!(n.canonical_cmp(n), std::cmp::Ordering::Equal);
    assert_eq!(n.name_cmp(&flat), std::cmp::Ordering::Equal);
    assert_eq!(n.composed_cmp(&flat), std::cmp::Ordering::Equal);
    assert_eq!(n.lowercase_composed_cmp(&flat), flat.lowercase_composed_cmp(n).reverse());
    assert!(n.name_eq(&flat) && n.starts_with(&flat) && n.ends_with(&flat));
    assert!(n.ends_with(&domain::base::Name::root_slice()));
    assert_eq!(n.is_root(), lv.is_empty());
    assert!(n.last().is_root());
    assert_eq!(n.first().as_slice(), lv.first().map(|x| x.as_slice()).unwrap_or(&[]));
    assert_eq!(n.rrsig_label_count() as usize, lv.len() - usize::from(lv.first().map(|l| l == b"*").unwrap_or(false)));
    let mut h = DefaultHasher::new();
    n.hash(&mut h);
    let _ = h.finish();
    let s = format!("{}", n);
    let _ = format!("{:?} {}", n, n.fmt_with_dot());
    let _ = s.len();
    let _ = n.is_compressed();
    if let Some(f) = n.as_flat_slice() {
        assert_eq!(f, flat.as_slice(), "flat slice differs from the flattened name");
    }
    let mut composed: Vec<u8> = vec![];
    n.compose(&mut composed).unwrap();
    assert_eq!(composed, flat.as_slice());
    let mut canon: Vec<u8> = vec![];
    n.compose_canonical(&mut canon).unwrap();
    assert_eq!(canon, flat.as_slice().to_ascii_lowercase());
    let _ = (n.to_vec(), n.to_cow(), n.to_canonical_name::<Vec<u8>>());
    // the stepping API: every suffix is the tail of the label list
    let wire_of = |ls: &[Vec<u8>]| {
        let mut w = vec![];
        for l in ls {
            w.push(l.len() as u8);
            w.extend(l);
        }
        w.push(0);
        w
    };
    let mut k = 0;
    for sfx in n.iter_suffixes() {
        let got: domain::base::Name<Vec<u8>> = sfx.to_name();
        assert_eq!(got.as_slice(), wire_of(&lv[k.min(lv.len())..]), "iter_suffixes: wrong suffix");
        k += 1;
    }
    assert_eq!(k, fwd, "iter_suffixes: wrong number of suffixes");
    let mut p = *n;
    let mut depth = 0;
    loop {
        let cur: domain::base::Name<Vec<u8>> = p.to_name();
        assert_eq!(cur.as_slice(), wire_of(&lv[depth..]), "parent(): wrong name");
        assert_eq!(usize::from(p.compose_len()), cur.as_slice().len());
        if !p.parent() {
            break;
        }
        depth += 1;
        assert!(depth <= lv.len(), "parent() does not end");
    }
    assert_eq!(depth, lv.len());
    let mut q = *n;
    let mut i = 0;
    while let Some(first) = q.split_first() {
        let mut w = vec![lv[i].len() as u8];
        w.extend(&lv[i]);
        assert_eq!(first.as_slice(), &w[..], "split_first(): wrong label");
        i += 1;
        assert!(i <= lv.len());
    }
    assert_eq!(i, lv.len());
    assert!(q.is_root());
    let r = n.ref_octets();
    assert_eq!(r.label_count(), fwd);
    labels
}

//------------ old API: the read battery -----------------------------------------

fn rd_json(k: &str, ok: bool, names: Vec<Value>, opts: Vec<Value>) -> Value {
    json!({"k": k, "ok": ok, "names": names, "opts": opts})
}

fn rd_kind(t: u16) -> &'static str {
    match t {
        2 | 5 | 12 | 15 | 6 => "names",
        41 => "opt",
        1 | 28 => "fixed",
        65280..=65534 => "raw",
        _ => "opaque",
    }
}

/// RDATA of one record as the spec sees it; always parses through
/// `AllRecordData` (totality for every type), twice.
pub fn old_rd(rec: &ParsedRecord<'_, &[u8]>) -> Value {
    let t = rec.rtype().to_int();
    let kind = rd_kind(t);
    let r1 = rec.to_any_record::<AllRecordData<_, ParsedName<_>>>();
    let r2 = rec.to_any_record::<AllRecordData<_, ParsedName<_>>>();
    assert_eq!(r1.is_ok(), r2.is_ok(), "typed parse not repeatable");
    let r = match r1 {
        Ok(r) => r,
        Err(_) => {
            return rd_json(kind, kind == "opaque", vec![], vec![]);
        }
    };
    // whatever parsed can be displayed, iterated, compared, hashed, measured
    // and composed again (a panic surfaces as the panic of the component)
    exercise_record(&r);
    // (not compared with ==: the derived data types are compared by their
    // renderings, which must also be repeatable)
    assert_eq!(format!("{:?}", r.data()), format!("{:?}", r2.as_ref().unwrap().data()),
               "typed data differs between parses");
    let mut names = vec![];
    let mut opts = vec![];
    match r.data() {
        AllRecordData::Ns(d) => names.push(use_name(d.nsdname())),
        AllRecordData::Cname(d) => names.push(use_name(d.cname())),
        AllRecordData::Ptr(d) => names.push(use_name(d.ptrdname())),
        AllRecordData::Mx(d) => names.push(use_name(d.exchange())),
        AllRecordData::Soa(d) => {
            names.push(use_name(d.mname()));
            names.push(use_name(d.rname()));
        }
        AllRecordData::Opt(o) => {
            for x in o.iter::<UnknownOptData<_>>() {
                let x = x.expect("raw option of a checked OPT record");
                opts.push(json!([x.code().to_int(), x.data().len()]));
            }
            // typed options: value or error, never a panic
            let n1: Vec<bool> = o.iter::<AllOptData<_, domain::base::Name<&[u8]>>>().map(|x| x.is_ok()).collect();
            let n2: Vec<bool> = o.iter::<AllOptData<_, domain::base::Name<&[u8]>>>().map(|x| x.is_ok()).collect();
            assert_eq!(n1, n2);
            exercise_options(o);
        }
        _ => {}
    }
    rd_json(kind, true, names, opts)
}

type AnyRecord<'a> = domain::base::Record<ParsedName<&'a [u8]>, AllRecordData<&'a [u8], ParsedName<&'a [u8]>>>;

/// Everything a caller can do with a parsed record, for every type: the three
/// zone-style renderings, Debug, comparison with itself (==, partial_cmp,
/// canonical order), hash, rdlen, re-composition (plain and canonical), and
/// iteration of the sub-structures of the types that have internal framing.
pub fn exercise_record(r: &AnyRecord<'_>) {
    use domain::base::cmp::CanonicalOrd;
    use domain::base::rdata::ComposeRecordData;
    let d = r.data();
    let _ = format!("{}", r.display_zonefile(DisplayKind::Simple));
    let _ = format!("{}", r.display_zonefile(DisplayKind::Tabbed));
    let _ = format!("{}", r.display_zonefile(DisplayKind::Multiline));
    let _ = format!("{}", d.display_zonefile(DisplayKind::Simple));
    let _ = format!("{}", d.display_zonefile(DisplayKind::Multiline));
    let _ = format!("{:?}", r);
    let _ = format!("{:?}", d);
    let _ = d == d;
    let _ = d.partial_cmp(d);
    let _ = d.canonical_cmp(d);
    let mut h = DefaultHasher::new();
    d.hash(&mut h);
    let _ = h.finish();
    let _ = d.rdlen(false);
    let _ = d.rdlen(true);
    let mut out: Vec<u8> = vec![];
    let _ = d.compose_rdata(&mut out);
    let mut out2: Vec<u8> = vec![];
    let _ = d.compose_canonical_rdata(&mut out2);
    match d {
        AllRecordData::Nsec(x) => {
            let t = x.types();
            let _ = (t.is_empty(), t.iter().count(), t.contains(domain::base::iana::Rtype::A));
            let _ = format!("{} {:?}", t, t);
            let _ = format!("{}", x.next_name());
        }
        AllRecordData::Nsec3(x) => {
            let t = x.types();
            let _ = (t.is_empty(), t.iter().count(), t.contains(domain::base::iana::Rtype::NS));
            let _ = format!("{} {:?} {} {}", t, t, x.salt(), x.next_owner());
            let _ = (x.iterations(), x.opt_out(), x.hash_algorithm());
        }
        AllRecordData::Nsec3param(x) => {
            let _ = format!("{} {:?}", x.salt(), x);
        }
        AllRecordData::Txt(x) => {
            let _ = (x.iter().count(), x.iter_charstrs().count(), x.len());
            for c in x.iter_charstrs() {
                let _ = format!("{} {:?}", c, c);
            }
            let _: Vec<u8> = x.text();
        }
        AllRecordData::Hinfo(x) => {
            let _ = format!("{} {}", x.cpu(), x.os());
        }
        AllRecordData::Svcb(x) => {
            let _ = (x.priority(), x.is_alias(), x.is_service());
            exercise_svc_params(x.params());
            let _ = format!("{}", x.target());
        }
        AllRecordData::Https(x) => {
            let _ = (x.priority(), x.is_alias(), x.is_service());
            exercise_svc_params(x.params());
            let _ = format!("{}", x.target());
        }
        AllRecordData::Ipseckey(x) => {
            let _ = format!("{:?} {:?} {:?}", x.gateway_type(), x.gateway(), x.algorithm());
            let _ = (x.key().len(), x.precedence(), x.gateway().rdlen(), x.gateway().is_correct_gateway_type(x.gateway_type()));
        }
        AllRecordData::Tsig(x) => {
            let _ = (x.mac_slice().len(), x.other().len(), x.other_time(), x.fudge(), x.original_id());
            let _ = format!("{} {:?}", x.algorithm(), x.error());
        }
        AllRecordData::Rrsig(x) => {
            let _ = format!("{} {:?}", x.signer_name(), x.type_covered());
            let _ = (x.algorithm(), x.labels(), x.original_ttl(), x.expiration(), x.inception(), x.key_tag(), x.signature().len());
        }
        AllRecordData::Naptr(x) => {
            let _ = format!("{} {} {} {}", x.flags(), x.services(), x.regexp(), x.replacement());
            let _ = (x.order(), x.preference());
        }
        AllRecordData::Caa(x) => {
            let _ = format!("{:?} {:?} {:?}", x.flags(), x.tag(), x.value());
        }
        AllRecordData::Dnskey(x) => {
            let _ = (x.flags(), x.protocol(), x.algorithm(), x.public_key().len());
            let _ = (x.is_revoked(), x.is_secure_entry_point(), x.is_zone_key(), x.key_tag());
        }
        AllRecordData::Cdnskey(x) => {
            let _ = (x.flags(), x.protocol(), x.algorithm(), x.public_key().len());
        }
        AllRecordData::Ds(x) => {
            let _ = (x.key_tag(), x.algorithm(), x.digest_type(), x.digest().len());
        }
        AllRecordData::Cds(x) => {
            let _ = (x.key_tag(), x.algorithm(), x.digest_type(), x.digest().len());
        }
        AllRecordData::Tlsa(x) => {
            let _ = (x.usage(), x.selector(), x.matching_type(), x.data().len());
        }
        AllRecordData::Sshfp(x) => {
            let _ = (x.algorithm(), x.fingerprint_type(), x.fingerprint().len());
        }
        AllRecordData::Zonemd(x) => {
            let _ = (x.serial(), x.scheme(), x.algorithm(), x.digest().len());
        }
        AllRecordData::Srv(x) => {
            let _ = (x.priority(), x.weight(), x.port());
            let _ = format!("{}", x.target());
        }
        AllRecordData::Openpgpkey(x) => {
            let _ = x.key().len();
        }
        AllRecordData::Soa(x) => {
            let _ = (x.serial(), x.refresh(), x.retry(), x.expire(), x.minimum());
        }
        _ => {}
    }
}

/// every typed view of the service parameters: the raw and the typed
/// iteration, each typed value's Display / Debug and its own iterator, and
/// the per-type accessors
pub fn exercise_svc_params(p: &domain::rdata::svcb::SvcParams<&[u8]>) {
    use domain::rdata::svcb::value::*;
    let _ = (p.len(), p.is_empty(), p.iter_raw().count());
    let _ = format!("{} {:?}", p, p);
    for v in p.iter_all() {
        let v = match v {
            Ok(v) => v,
            Err(_) => break,
        };
        let _ = format!("{} {:?}", v, v);
        match &v {
            AllValues::Mandatory(x) => {
                let _ = x.iter().count();
            }
            AllValues::Alpn(x) => {
                for a in x.iter() {
                    let _ = a.len();
                }
            }
            AllValues::Ipv4Hint(x) => {
                for a in x.iter() {
                    let _ = format!("{}", a);
                }
            }
            AllValues::Ipv6Hint(x) => {
                for a in x.iter() {
                    let _ = format!("{}", a);
                }
            }
            _ => {}
        }
    }
    for x in p.iter::<Mandatory<_>>().flatten() {
        let _ = x.iter().count();
    }
    for x in p.iter::<Alpn<_>>().flatten() {
        let _ = x.iter().count();
    }
    for x in p.iter::<Ipv4Hint<_>>().flatten() {
        let _ = x.iter().count();
    }
    for x in p.iter::<Ipv6Hint<_>>().flatten() {
        let _ = x.iter().count();
    }
    for x in p.iter::<Port>().flatten() {
        let _ = format!("{:?}", x);
    }
    for x in p.iter::<Ech<_>>().flatten() {
        let _ = format!("{:?}", x);
    }
    for x in p.iter::<DohPath<_>>().flatten() {
        let _ = format!("{:?}", x);
    }
    let _ = p.iter::<NoDefaultAlpn>().count();
    let _ = p.iter::<Ohttp>().count();
}

/// every typed view of the options of an OPT record
pub fn exercise_options(o: &domain::base::opt::Opt<&[u8]>) {
    use domain::base::opt::*;
    type N<'a> = domain::base::Name<&'a [u8]>;
    for x in o.iter::<AllOptData<_, N<'_>>>().flatten() {
        let _ = format!("{:?}", x);
        match &x {
            AllOptData::Dau(a) => {
                let _ = a.iter().count();
            }
            AllOptData::Dhu(a) => {
                let _ = a.iter().count();
            }
            AllOptData::N3u(a) => {
                let _ = a.iter().count();
            }
            AllOptData::KeyTag(k) => {
                let _ = k.iter().count();
            }
            AllOptData::ClientSubnet(c) => {
                let _ = format!("{} {:?} {} {}", c, c.addr(), c.source_prefix_len(), c.scope_prefix_len());
            }
            AllOptData::Cookie(c) => {
                let _ = format!("{} {:?}", c, c.server());
            }
            AllOptData::ExtendedError(e) => {
                let _ = format!("{:?} {:?}", e.code(), e.text());
            }
            _ => {}
        }
    }
    let _ = o.iter::<ClientSubnet>().map(|x| x.is_ok()).count();
    let _ = o.iter::<Cookie>().map(|x| x.is_ok()).count();
    let _ = o.iter::<TcpKeepalive>().map(|x| x.is_ok()).count();
    let _ = o.iter::<Expire>().map(|x| x.is_ok()).count();
    let _ = o.iter::<Padding<_>>().map(|x| x.is_ok()).count();
    let _ = o.iter::<Nsid<_>>().map(|x| x.is_ok()).count();
    let _ = o.iter::<ExtendedError<_>>().map(|x| x.is_ok()).count();
    let _ = o.iter::<Chain<N<'_>>>().map(|x| x.is_ok()).count();
    let _ = o.iter::<KeyTag<_>>().map(|x| x.is_ok()).count();
    let _ = o.iter::<Dau<_>>().map(|x| x.is_ok()).count();
    let _ = o.first::<ClientSubnet>();
}

fn q_item(q: &Question<ParsedName<&[u8]>>) -> Value {
    json!([use_name(q.qname()), q.qtype().to_int(), q.qclass().to_int()])
}

fn r_item(rec: &ParsedRecord<'_, &[u8]>) -> Value {
    let owner = rec.owner();
    let ttl = rec.ttl().as_secs();
    // ParsedName<&&[u8]> -> exercise through the generic path
    let labels = labels_json(owner.iter());
    let _ = format!("{}", owner);
    let flat: domain::base::Name<Vec<u8>> = owner.to_name();
    assert!(owner == flat);
    json!([
        labels,
        rec.rtype().to_int(),
        rec.class().to_int(),
        (ttl >> 16) as u16,
        (ttl & 0xFFFF) as u16,
        rec.rdlen(),
        old_rd(rec)
    ])
}

fn rsection(sec: Result<domain::base::message::RecordSection<'_, &[u8]>, domain::base::wire::ParseError>, last: bool) -> Value {
    let sec = match sec {
        Ok(s) => s,
        Err(_) => return json!({"reach": false, "items": [], "err": false}),
    };
    let mut items = vec![];
    let mut err = false;
    let mut it = sec;
    let total = it.pos();
    let _ = total;
    let mut after_err = 0;
    loop {
        match it.next() {
            Some(Ok(rec)) => {
                assert!(!err, "item after an error");
                items.push(r_item(&rec));
            }
            Some(Err(_)) => {
                assert!(!err, "second error from a fused iterator");
                err = true;
            }
            None => {
                // fused: stays at None
                after_err += 1;
                if after_err >= 2 {
                    break;
                }
            }
        }
    }
    if err && !last {
        assert!(it.next_section().is_err(), "next_section after an error must fail");
    }
    if last {
        // the additional section has no successor, with or without error
        assert!(matches!(it.next_section(), Ok(None)));
    }
    json!({"reach": true, "items": items, "err": err})
}

/// the spec's Projection(m, starts), observed on the established API
pub fn old_projection(m: &[u8], starts: &[usize], slw: &mut SliceProbe, predicted_hang: &[bool]) -> Value {
    let msg = match Message::from_octets(m) {
        Ok(msg) => msg,
        Err(_) => return json!({"short": true}),
    };
    let mut o = Map::new();
    o.insert("short".into(), json!(false));
    o.insert(
        "hdr".into(),
        observe(|| {
            let h = msg.header();
            let c = msg.header_counts();
            let _ = format!("{:?}", msg);
            let _ = (h.qr(), h.opcode(), h.rcode(), h.tc(), h.aa(), h.rd(), h.ra(), h.ad(), h.cd(), h.z());
            json!([h.id(), u16::from_be_bytes([m[2], m[3]]), c.qdcount(), c.ancount(), c.nscount(), c.arcount()])
        }),
    );
    o.insert(
        "q".into(),
        observe(|| {
            let mut items = vec![];
            let mut err = false;
            let mut it = msg.question();
            let mut nones = 0;
            loop {
                match it.next() {
                    Some(Ok(q)) => {
                        assert!(!err);
                        items.push(q_item(&q));
                    }
                    Some(Err(_)) => {
                        assert!(!err);
                        err = true;
                    }
                    None => {
                        nones += 1;
                        if nones >= 2 {
                            break;
                        }
                    }
                }
            }
            assert_eq!(it.next_section().is_err(), err, "next_section must report the question error");
            json!({"items": items, "err": err})
        }),
    );
    o.insert("an".into(), observe(|| rsection(msg.answer(), false)));
    o.insert("ns".into(), observe(|| rsection(msg.authority(), false)));
    o.insert("ar".into(), observe(|| rsection(msg.additional(), true)));
    o.insert(
        "iter".into(),
        observe(|| {
            let mut nok = 0u64;
            let mut nerr = 0u64;
            for x in msg.iter().take(200_000) {
                match x {
                    Ok((rec, _sec)) => {
                        let _ = rec.rtype();
                        nok += 1
                    }
                    Err(_) => nerr += 1,
                }
            }
            // sections() agrees with the individual accessors
            let s = msg.sections().is_ok();
            assert_eq!(s, msg.additional().is_ok());
            json!([nok, nerr])
        }),
    );
    o.insert(
        "cname".into(),
        observe(|| match msg.canonical_name() {
            Some(n) => json!({"k": "name", "name": use_name(&n)}),
            None => json!({"k": "none", "name": []}),
        }),
    );
    if o["cname"].get("panic").is_some() {
        o.insert("cname".into(), json!({"k": "panic", "name": []}));
    }
    o.insert(
        "opt".into(),
        observe(|| match msg.opt() {
            Some(opt) => {
                let mut opts = vec![];
                for x in opt.opt().iter::<UnknownOptData<_>>() {
                    let x = x.expect("raw option");
                    opts.push(json!([x.code().to_int(), x.data().len()]));
                }
                let _ = opt.dnssec_ok();
                let _ = msg.opt_rcode();
                exercise_options(opt.opt());
                let ttlhi = (u16::from(opt.rcode(msg.header()).ext()) << 8) | u16::from(opt.version());
                let rec = opt.as_record();
                let ttl = rec.ttl().as_secs();
                assert_eq!((ttl >> 16) as u16, ttlhi);
                json!({"k": "opt", "v": [opt.udp_payload_size(), ttlhi, (ttl & 0xFFFF) as u16, opts]})
            }
            None => {
                let _ = msg.opt_rcode();
                json!({"k": "none", "v": []})
            }
        }),
    );
    o.insert("selfans".into(), observe(|| json!(msg.is_answer(&msg))));
    o.insert(
        "sole".into(),
        observe(|| {
            let fq = msg.first_question().is_some();
            let _ = msg.qtype();
            let _ = msg.is_xfr();
            match msg.sole_question() {
                Ok(q) => {
                    assert!(fq);
                    json!({"ok": true, "q": q_item(&q)})
                }
                Err(_) => json!({"ok": false, "q": []}),
            }
        }),
    );
    o.insert(
        "xfr".into(),
        match catch_unwind(AssertUnwindSafe(|| {
            let mut it = XfrResponseInterpreter::new();
            let resp = Message::from_octets(Bytes::copy_from_slice(m)).unwrap();
            if let Ok(iter) = it.interpret_response(resp) {
                for x in iter.take(100_000) {
                    let _ = x;
                }
            }
        })) {
            Ok(()) => json!("nopanic"),
            Err(_) => json!("panic"),
        },
    );
    let mut sl = vec![];
    for (i, s) in starts.iter().enumerate() {
        sl.push(json!(slw.count(m, *s, predicted_hang.get(i).copied().unwrap_or(false))));
    }
    o.insert("sl".into(), Value::Array(sl));
    // totality-only part of the battery: displays and typed views
    let tot = observe(|| {
        let mut h = DefaultHasher::new();
        format!("{}", msg.display_dig_style()).hash(&mut h);
        let _ = msg.get_last_additional::<AllRecordData<_, ParsedName<_>>>().is_some();
        let _ = msg.get_last_additional::<domain::rdata::A>().is_some();
        let _ = msg.get_last_additional::<domain::base::opt::Opt<_>>().is_some();
        // every other public read-side method of Message
        let _ = (msg.is_error(), msg.no_error(), msg.header_section(), msg.as_slice().len(), msg.as_octets().len());
        let _ = (msg.for_slice().header_counts(), msg.for_slice_ref().is_xfr());
        let _ = (msg.zone().count(), msg.prerequisite().is_ok(), msg.update().is_ok());
        let _ = (msg.first_question().is_some(), msg.qtype(), msg.sole_question().is_ok(), msg.opt_rcode());
        let _ = msg.contains_answer::<AllRecordData<_, ParsedName<_>>>();
        for sec in [msg.answer(), msg.authority(), msg.additional()].into_iter().flatten() {
            let _ = sec.into_records::<AllRecordData<_, ParsedName<_>>>().take(100_000).map(|r| r.is_ok()).count();
            let _ = sec.limit_to_in::<domain::rdata::A>().take(100_000).count();
            let _ = sec.limit_to::<AllRecordData<_, ParsedName<_>>>().unwrap().pos();
        }
        // copy_records into a fresh builder (value or error)
        {
            use domain::base::message_builder::MessageBuilder;
            let target = MessageBuilder::new_vec().answer();
            let _ = msg
                .copy_records(target, |rr| rr.into_record::<AllRecordData<_, ParsedName<_>>>().ok().flatten())
                .is_ok();
        }
        // remove_last_additional on a copy (documented to panic without one)
        if msg.header_counts().arcount() > 0 {
            let mut copy = Message::from_octets(m.to_vec()).unwrap();
            copy.remove_last_additional();
            let _ = copy.additional().map(|s| s.count());
            let _ = copy.get_last_additional::<domain::rdata::A>().is_some();
        }
        if let Ok(an) = msg.answer() {
            for r in an.limit_to::<AllRecordData<_, ParsedName<_>>>() {
                if let Ok(r) = r {
                    format!("{}", r.display_zonefile(DisplayKind::Multiline)).hash(&mut h);
                }
            }
            let _ = msg.contains_answer::<domain::rdata::A>();
            for r in an.limit_to_in::<domain::rdata::Cname<ParsedName<_>>>() {
                let _ = r.is_ok();
            }
        }
        json!(h.finish())
    });
    o.insert("tot".into(), tot);
    Value::Object(o)
}

/// Performs the battery twice; a difference is reported under "nonidempotent",
/// a panic in the totality-only part under "tot_panic".
pub fn old_projection_twice(m: &[u8], starts: &[usize], slw: &mut SliceProbe, predicted_hang: &[bool]) -> Value {
    let mut a = old_projection(m, starts, slw, predicted_hang);
    let b = old_projection(m, starts, slw, predicted_hang);
    let mut diff = None;
    if let (Some(ao), Some(bo)) = (a.as_object(), b.as_object()) {
        for (k, v) in ao.iter() {
            if bo.get(k) != Some(v) {
                diff = Some(k.clone());
            }
        }
    }
    if let Some(o) = a.as_object_mut() {
        if let Some(t) = o.remove("tot") {
            if t.get("panic").is_some() {
                o.insert("tot_panic".into(), json!(true));
            }
        }
        if let Some(k) = diff {
            o.insert("nonidempotent".into(), json!(k));
        }
    }
    a
}

//------------ Label::iter_slice with a watchdog -----------------------------------

/// `Label::iter_slice(m, start)` may never return; it runs on a worker
/// thread with a deadline.  A worker that did not answer is abandoned (it
/// cannot be killed) and replaced; after `max_hangs` abandoned workers,
/// inputs for which the specification predicts a hang under an open
/// deviation are not executed any more (counted in `skipped`).
pub struct SliceProbe {
    tx: Option<Sender<(Arc<Vec<u8>>, usize)>>,
    rx: Option<Receiver<i64>>,
    pub hangs: u32,
    pub skipped: u64,
    pub max_hangs: u32,
}

impl SliceProbe {
    pub fn new() -> Self {
        SliceProbe { tx: None, rx: None, hangs: 0, skipped: 0, max_hangs: 2 }
    }
    fn spawn(&mut self) {
        let (tx, wrx) = channel::<(Arc<Vec<u8>>, usize)>();
        let (wtx, rx) = channel::<i64>();
        std::thread::spawn(move || {
            while let Ok((m, start)) = wrx.recv() {
                // the unrepaired walk is a function of the offset alone: more
                // labels than octets means it never ends; a repaired iterator
                // may legitimately yield up to a name's worth of labels more
                let cap = m.len() + 300;
                let r = catch_unwind(AssertUnwindSafe(|| {
                    let mut n = 0usize;
                    for l in Label::iter_slice(&m, start) {
                        let _ = l.len();
                        n += 1;
                        if n >= cap {
                            return SL_UNBOUNDED;
                        }
                    }
                    n as i64
                }));
                if wtx.send(r.unwrap_or(-9)).is_err() {
                    break;
                }
            }
        });
        self.tx = Some(tx);
        self.rx = Some(rx);
    }
    pub fn count(&mut self, m: &[u8], start: usize, predicted_hang: bool) -> i64 {
        if start >= m.len() {
            // documented to panic; not part of the property
            return 0;
        }
        if predicted_hang && self.hangs >= self.max_hangs {
            self.skipped += 1;
            return SL_HANG;
        }
        if self.tx.is_none() {
            self.spawn();
        }
        let arc = Arc::new(m.to_vec());
        self.tx.as_ref().unwrap().send((arc, start)).expect("slice worker");
        let wait = if predicted_hang { 2 } else { 5 };
        match self.rx.as_ref().unwrap().recv_timeout(Duration::from_secs(wait)) {
            Ok(v) => v,
            Err(_) => {
                self.hangs += 1;
                self.tx = None;
                self.rx = None;
                SL_HANG
            }
        }
    }
}

//------------ watchdog around whole battery calls ------------------------------------

pub static SLICE_HANGS: std::sync::atomic::AtomicU64 = std::sync::atomic::AtomicU64::new(0);
pub static SLICE_SKIPPED: std::sync::atomic::AtomicU64 = std::sync::atomic::AtomicU64::new(0);

pub type CaseFn = Box<dyn FnMut(&Value, &Value) -> Value + Send>;

/// Runs every case on a worker thread with a deadline: code under test that
/// never returns is an observation (`{"hang": true}`), not a stuck harness.
/// A worker that missed its deadline is abandoned (it cannot be killed) and
/// replaced; after `max_hangs` such workers the remaining cases are not
/// executed any more (`{"not_executed_after_hangs": true}`).
pub struct Watchdog {
    make: fn() -> CaseFn,
    tx: Option<Sender<(Value, Value)>>,
    rx: Option<Receiver<Value>>,
    pub hangs: u32,
    pub max_hangs: u32,
    pub deadline: Duration,
}

impl Watchdog {
    pub fn new(make: fn() -> CaseFn, secs: u64) -> Self {
        Watchdog { make, tx: None, rx: None, hangs: 0, max_hangs: 2, deadline: Duration::from_secs(secs) }
    }
    fn spawn(&mut self) {
        let (tx, wrx) = channel::<(Value, Value)>();
        let (wtx, rx) = channel::<Value>();
        let make = self.make;
        std::thread::Builder::new()
            .stack_size(64 << 20)
            .spawn(move || {
                let mut f = make();
                while let Ok((input, dev)) = wrx.recv() {
                    let r = catch_unwind(AssertUnwindSafe(|| f(&input, &dev))).unwrap_or(json!({"panic": true}));
                    if wtx.send(r).is_err() {
                        break;
                    }
                }
            })
            .expect("spawn worker");
        self.tx = Some(tx);
        self.rx = Some(rx);
    }
    pub fn call(&mut self, input: &Value, dev: &Value) -> Value {
        if self.hangs >= self.max_hangs {
            return json!({"not_executed_after_hangs": true});
        }
        if self.tx.is_none() {
            self.spawn();
        }
        if self.tx.as_ref().unwrap().send((input.clone(), dev.clone())).is_err() {
            self.tx = None;
            return json!({"panic": true});
        }
        match self.rx.as_ref().unwrap().recv_timeout(self.deadline) {
            Ok(v) => v,
            Err(_) => {
                self.hangs += 1;
                self.tx = None;
                self.rx = None;
                json!({"hang": true})
            }
        }
    }
}

/// the C01 battery as a watchdog case: {"m": octets, "starts": offsets}
pub fn make_proj_case() -> CaseFn {
    let mut slw = SliceProbe::new();
    Box::new(move |input: &Value, dev: &Value| {
        let m = bytes_of(&input["m"]);
        let starts = usizes_of(&input["starts"]);
        let ph = predicted_hangs(dev, starts.len());
        let v = old_projection_twice(&m, &starts, &mut slw, &ph);
        SLICE_HANGS.store(slw.hangs as u64, std::sync::atomic::Ordering::Relaxed);
        SLICE_SKIPPED.store(slw.skipped, std::sync::atomic::Ordering::Relaxed);
        v
    })
}

//------------ component-wise classification ---------------------------------------

pub struct Tally {
    pub n: u64,
    pub pass: u64,
    pub fail: u64,
    pub panics: u64,
    pub known: BTreeMap<String, u64>,
    pub samples: Vec<Value>,
}

impl Tally {
    pub fn new() -> Self {
        Tally { n: 0, pass: 0, fail: 0, panics: 0, known: BTreeMap::new(), samples: vec![] }
    }
}

fn sl_dev_name(v: i64) -> Option<&'static str> {
    match v {
        SL_HANG => Some("D_slice_iter_selfptr"),
        SL_UNBOUNDED => Some("D_slice_iter_loop"),
        _ => None,
    }
}

/// Compares an observation with the expectation component by component.
/// Returns (known deviations witnessed, mismatching components).
pub fn classify(exp: &Value, dev: &Value, obs: &Value) -> (Vec<String>, Vec<String>) {
    let mut known = vec![];
    let mut bad = vec![];
    let (eo, oo) = match (exp.as_object(), obs.as_object()) {
        (Some(e), Some(o)) => (e, o),
        _ => {
            if exp != obs {
                bad.push("<whole>".to_string());
            }
            return (known, bad);
        }
    };
    // deviations the executor itself attributes (RDATA the spec does not
    // know): they count as witnessed deviations, which must be open
    let hdevs: Vec<String> = oo
        .get("harness_devs")
        .and_then(|v| v.as_array())
        .map(|a| a.iter().filter_map(|x| x.as_str().map(|s| s.to_string())).collect())
        .unwrap_or_default();
    known.extend(hdevs.iter().cloned());
    for k in oo.keys() {
        if !eo.contains_key(k) && k != "harness_devs" {
            bad.push(k.clone());
        }
    }
    for (k, ev) in eo.iter() {
        let ov = match oo.get(k) {
            Some(v) => v,
            None => {
                bad.push(k.clone());
                continue;
            }
        };
        if ov == ev {
            continue;
        }
        if k == "agree" && !hdevs.is_empty() {
            continue;
        }
        if k == "sl" {
            let dv = dev.get("D_slice_iter").and_then(|d| d.get("sl"));
            let (ea, oa) = (ev.as_array().cloned().unwrap_or_default(), ov.as_array().cloned().unwrap_or_default());
            if ea.len() != oa.len() {
                bad.push(k.clone());
                continue;
            }
            for i in 0..ea.len() {
                let (e, o) = (ea[i].as_i64().unwrap_or(-100), oa[i].as_i64().unwrap_or(-101));
                if e == o || (e == SL_FINITE && o >= 0) {
                    continue;
                }
                let d = dv.and_then(|d| d.get(i)).and_then(|x| x.as_i64());
                match (d, sl_dev_name(o)) {
                    (Some(d), Some(name)) if d == o => known.push(name.to_string()),
                    _ => bad.push(format!("sl[{}]", i)),
                }
            }
            continue;
        }
        let mut matched = None;
        if let Some(dm) = dev.as_object() {
            for (dname, comps) in dm.iter() {
                if comps.get(k) == Some(ov) {
                    matched = Some(dname.clone());
                }
            }
        }
        match matched {
            Some(d) => known.push(d),
            None => bad.push(k.clone()),
        }
    }
    known.sort();
    known.dedup();
    (known, bad)
}

/// The S->I loop with component-wise classification; output format of
/// `verif_harness::common::run_cases` (FAIL / KNOWN / SUMMARY lines).
pub fn run_component_cases<F: FnMut(&Value, &Value) -> Value>(mut f: F) -> Tally {
    quiet_panics();
    let devs = open_devs();
    let stdin = std::io::stdin();
    let stdout = std::io::stdout();
    let mut out = stdout.lock();
    let mut t = Tally::new();
    let perturb = has_flag("--selftest-perturb");
    for line in stdin.lock().lines() {
        let line = match line {
            Ok(l) => l,
            Err(_) => break,
        };
        if line.trim().is_empty() {
            continue;
        }
        let case: Value = match serde_json::from_str(&line) {
            Ok(v) => v,
            Err(e) => {
                let _ = writeln!(out, "BADCASE {} {}", e, &line[..line.len().min(200)]);
                continue;
            }
        };
        t.n += 1;
        let input = &case["in"];
        let dev = case.get("dev").cloned().unwrap_or(json!({}));
        let obs = match catch_unwind(AssertUnwindSafe(|| f(input, &dev))) {
            Ok(v) => v,
            Err(_) => {
                t.panics += 1;
                json!({"panic": true})
            }
        };
        let mut exp = case["exp"].clone();
        if perturb && t.n == 1 {
            if let Some(o) = exp.as_object_mut() {
                let k = if o.contains_key("hdr") { "hdr" } else { "short" };
                o.insert(k.to_string(), json!("perturbed"));
            }
        }
        let (known, bad) = classify(&exp, &dev, &obs);
        let unlisted: Vec<&String> = known.iter().filter(|d| !devs.contains(d)).collect();
        if bad.is_empty() && unlisted.is_empty() {
            if known.is_empty() {
                t.pass += 1;
                if t.samples.len() < 3 && t.n % 97 == 1 {
                    t.samples.push(json!({"in": input, "exp": exp, "obs": obs}));
                }
            } else {
                for d in known {
                    let c = t.known.entry(d.clone()).or_insert(0);
                    *c += 1;
                    if *c <= 1 {
                        let _ = writeln!(out, "KNOWN {}", json!({"dev": d, "case": {"in": input, "exp": exp, "obs": obs}}));
                    }
                }
            }
        } else {
            t.fail += 1;
            if t.fail <= 5 {
                let _ = writeln!(
                    out,
                    "FAIL {}",
                    json!({"in": input, "exp": exp, "obs": obs, "components": bad, "matches_unlisted_dev": unlisted})
                );
            }
        }
    }
    t
}

pub fn print_summary(t: &Tally, extra: Value) {
    let known: Map<String, Value> = t.known.iter().map(|(k, v)| (k.clone(), json!(*v))).collect();
    let mut s = json!({"n": t.n, "pass": t.pass, "fail": t.fail, "panics": t.panics,
                       "known": known, "samples": t.samples});
    if let (Some(o), Some(e)) = (s.as_object_mut(), extra.as_object()) {
        for (k, v) in e {
            o.insert(k.clone(), v.clone());
        }
    }
    println!("SUMMARY {}", s);
}

pub fn usizes_of(v: &Value) -> Vec<usize> {
    v.as_array()
        .map(|a| a.iter().map(|x| x.as_u64().unwrap_or(0) as usize).collect())
        .unwrap_or_default()
}

/// which sl entries the specification predicts to hang under the deviation
pub fn predicted_hangs(dev: &Value, n: usize) -> Vec<bool> {
    let mut v = vec![false; n];
    if let Some(a) = dev.get("D_slice_iter").and_then(|d| d.get("sl")).and_then(|x| x.as_array()) {
        for (i, x) in a.iter().enumerate() {
            if i < n && x.as_i64() == Some(SL_HANG) {
                v[i] = true;
            }
        }
    }
    v
}
