//! C15 harness support: deterministic drivers for the client transports.
//!
//! Included by `replay_client` / `record_client` with `#[path]` (it defines
//! the process-wide `clock_gettime` symbol, so it must be linked exactly
//! once per executable and must NOT become part of the library crate).
//!
//! Determinism:
//! * current-thread tokio runtime, clock paused from the start;
//! * `net::client::stream` measures elapsed time with `std::time::Instant`
//!   while it sleeps on tokio's clock.  To drive both from the harness the
//!   executable interposes `clock_gettime`: CLOCK_MONOTONIC is frozen and
//!   only moves when the harness says so, in lock step with
//!   `tokio::time::advance`.  No change to the library is needed;
//! * after every harness step all tasks are run until nothing is runnable
//!   (`settle`): every poll of the transport touches the mock socket and
//!   every poll of a request task is counted, so "no poll during a full
//!   scheduler round" is observable.

#![allow(dead_code)]

use bytes::Bytes;
use domain::base::iana::{Class, Rcode};
use domain::base::message_builder::MessageBuilder;
use domain::base::opt::keepalive::IdleTimeout;
use domain::base::opt::AllOptData;
use domain::base::{Message, Name, Question, Rtype, ToName, Ttl};
use domain::net::client::protocol::{AsyncConnect, AsyncDgramRecv, AsyncDgramSend};
use domain::net::client::request::{
    Error, GetResponse, GetResponseMulti, RequestMessage, RequestMessageMulti, SendRequest, SendRequestMulti,
};
use domain::net::client::{dgram, stream};
use domain::base::Serial;
use domain::rdata::{Soa, Txt, A};
use serde_json::{json, Value};
use std::collections::VecDeque;
use std::future::Future;
use std::io;
use std::pin::Pin;
use std::str::FromStr;
use std::sync::atomic::{AtomicBool, AtomicI64, AtomicU64, Ordering};
use std::sync::{Arc, Mutex};
use std::task::{Context, Poll, Waker};
use std::time::Duration;
use tokio::io::{AsyncRead, AsyncWrite, ReadBuf};

//------------ the clock ------------------------------------------------------

static FROZEN: AtomicBool = AtomicBool::new(false);
static MONO_NS: AtomicI64 = AtomicI64::new(0);

#[repr(C)]
pub struct Timespec {
    tv_sec: i64,
    tv_nsec: i64,
}

extern "C" {
    fn syscall(num: i64, ...) -> i64;
}

const SYS_CLOCK_GETTIME: i64 = 228; // x86_64
const CLOCK_MONOTONIC: i32 = 1;

/// Interposed libc symbol: std's `Instant::now()` ends up here.
#[no_mangle]
pub unsafe extern "C" fn clock_gettime(clk: i32, ts: *mut Timespec) -> i32 {
    if clk == CLOCK_MONOTONIC && FROZEN.load(Ordering::SeqCst) {
        let t = MONO_NS.load(Ordering::SeqCst);
        (*ts).tv_sec = t / 1_000_000_000;
        (*ts).tv_nsec = t % 1_000_000_000;
        return 0;
    }
    syscall(SYS_CLOCK_GETTIME, clk as i64, ts) as i32
}

/// Freeze CLOCK_MONOTONIC at its current value.  Returns false if the
/// interposition does not work on this platform (then nothing that depends
/// on it may be judged).
pub fn freeze_clock() -> bool {
    if !FROZEN.load(Ordering::SeqCst) {
        let mut ts = Timespec { tv_sec: 0, tv_nsec: 0 };
        unsafe { syscall(SYS_CLOCK_GETTIME, CLOCK_MONOTONIC as i64, &mut ts as *mut Timespec) };
        MONO_NS.store(ts.tv_sec * 1_000_000_000 + ts.tv_nsec, Ordering::SeqCst);
        FROZEN.store(true, Ordering::SeqCst);
    }
    let a = std::time::Instant::now();
    std::thread::sleep(Duration::from_millis(2));
    let b = std::time::Instant::now();
    MONO_NS.fetch_add(1_000_000_000, Ordering::SeqCst);
    let c = std::time::Instant::now();
    b.duration_since(a) == Duration::ZERO && c.duration_since(b) == Duration::from_secs(1)
}

fn bump_std_clock(d: Duration) {
    MONO_NS.fetch_add(d.as_nanos() as i64, Ordering::SeqCst);
}

/// One tick of model time.  10 s, so that the library's built-in default
/// response timeout (19 s) is a small number of ticks as well (it fires at
/// the second tick after the timer was armed) and is never hit exactly.
pub const TICK: Duration = Duration::from_millis(10_000);
/// edns-tcp-keepalive units (100 ms) per tick.
const KA_UNITS_PER_TICK: i64 = 100;

pub struct Clock {
    t0: tokio::time::Instant,
    s0: std::time::Instant,
    pub elapsed: Duration,
}

impl Clock {
    pub fn new() -> Self {
        Clock { t0: tokio::time::Instant::now(), s0: std::time::Instant::now(), elapsed: Duration::ZERO }
    }
    /// Advance both clocks by `d`.
    pub async fn advance(&mut self, d: Duration) {
        bump_std_clock(d);
        tokio::time::advance(d).await;
        self.elapsed += d;
    }
    /// Whole ticks (of `TICK`) elapsed.
    pub fn ticks(&self) -> u64 {
        (self.elapsed.as_millis() / TICK.as_millis()) as u64
    }
    /// Neither clock moved on its own (no auto-advance, no wall clock leak).
    pub fn in_step(&self) -> bool {
        self.t0.elapsed() == self.elapsed && self.s0.elapsed() == self.elapsed
    }
}

//------------ activity / settling -------------------------------------------

#[derive(Clone, Default)]
pub struct Activity(pub Arc<AtomicU64>);

impl Activity {
    pub fn hit(&self) {
        self.0.fetch_add(1, Ordering::SeqCst);
    }
    pub fn get(&self) -> u64 {
        self.0.load(Ordering::SeqCst)
    }
}

/// Run all other tasks until none of them is polled during three
/// consecutive scheduler rounds.  false = still busy after the budget
/// (reported as a hang).
pub async fn settle(act: &Activity) -> bool {
    let mut quiet = 0;
    for _ in 0..5_000 {
        let a = act.get();
        tokio::task::yield_now().await;
        if act.get() == a {
            quiet += 1;
            if quiet >= 3 {
                return true;
            }
        } else {
            quiet = 0;
        }
    }
    false
}

/// Counts polls of a future.
pub struct Counted<F> {
    pub fut: Pin<Box<F>>,
    pub act: Activity,
}

impl<F: Future> Future for Counted<F> {
    type Output = F::Output;
    fn poll(mut self: Pin<&mut Self>, cx: &mut Context<'_>) -> Poll<F::Output> {
        self.act.hit();
        self.fut.as_mut().poll(cx)
    }
}

pub fn counted<F: Future>(fut: F, act: &Activity) -> Counted<F> {
    Counted { fut: Box::pin(fut), act: act.clone() }
}

//------------ messages -------------------------------------------------------

/// Question numbers (see ClientMsg.tla): n = (name n, A, IN); 100+n type
/// AAAA; 200+n class CH; 300+n the name in upper case; 400+n two questions;
/// 500+n type AXFR; 600+n type IXFR.
pub fn qname(q: u64) -> Name<Vec<u8>> {
    Name::<Vec<u8>>::from_str(&format!("q{}.example.", q % 100)).unwrap()
}

fn qname_upper(q: u64) -> Name<Vec<u8>> {
    Name::<Vec<u8>>::from_str(&format!("Q{}.EXAMPLE.", q % 100)).unwrap()
}

pub fn questions_of(q: u64) -> Vec<Question<Name<Vec<u8>>>> {
    let base = qname(q);
    match q / 100 {
        1 => vec![Question::new(base, Rtype::AAAA, Class::IN)],
        2 => vec![Question::new(base, Rtype::A, Class::CH)],
        3 => vec![Question::new(qname_upper(q), Rtype::A, Class::IN)],
        4 => vec![Question::new(base.clone(), Rtype::A, Class::IN), Question::new(base, Rtype::AAAA, Class::IN)],
        5 => vec![Question::new(base, Rtype::AXFR, Class::IN)],
        6 => vec![Question::new(base, Rtype::IXFR, Class::IN)],
        _ => vec![Question::new(base, Rtype::A, Class::IN)],
    }
}

fn request_msg(q: u64) -> Message<Vec<u8>> {
    let mut mb = MessageBuilder::new_vec();
    mb.header_mut().set_rd(q < 500);
    let mut qb = mb.question();
    for qu in questions_of(q) {
        qb.push(qu).unwrap();
    }
    qb.into_message()
}

pub fn build_request(q: u64) -> RequestMessage<Vec<u8>> {
    RequestMessage::new(request_msg(q)).unwrap()
}

pub fn build_request_multi(q: u64) -> RequestMessageMulti<Vec<u8>> {
    RequestMessageMulti::new(request_msg(q)).unwrap()
}

fn num(v: &Value, k: &str) -> i64 {
    v.get(k).and_then(|x| x.as_i64()).unwrap_or(0)
}
fn flag(v: &Value, k: &str) -> bool {
    v.get(k).and_then(|x| x.as_bool()).unwrap_or(false)
}

/// Abstract message `[id, qr, q, rcode, body, tc, ka]` -> wire format.
pub fn build_peer_msg(f: &Value) -> Vec<u8> {
    let q = num(f, "q") as u64;
    let ka = num(f, "ka");
    let mut mb = MessageBuilder::new_vec();
    {
        let h = mb.header_mut();
        h.set_id(num(f, "id") as u16);
        h.set_qr(flag(f, "qr"));
        h.set_tc(flag(f, "tc"));
        h.set_rcode(match num(f, "rcode") {
            0 => Rcode::NOERROR,
            3 => Rcode::NXDOMAIN,
            5 => Rcode::REFUSED,
            _ => Rcode::SERVFAIL,
        });
    }
    let recs: Vec<i64> = f
        .get("recs")
        .and_then(|v| v.as_array())
        .map(|a| a.iter().map(|x| x.as_i64().unwrap_or(0)).collect())
        .unwrap_or_default();
    let mut qb = mb.question();
    if q > 0 {
        for qu in questions_of(q) {
            qb.push(qu).unwrap();
        }
    }
    let mut ab = qb.answer();
    // zone-transfer view: SOA records (serial > 0) and other records (TXT)
    for r in recs.iter() {
        if *r > 0 {
            let soa = Soa::new(qname(q), qname(q), Serial::from(*r as u32), Ttl::from_secs(1),
                               Ttl::from_secs(1), Ttl::from_secs(1), Ttl::from_secs(1));
            ab.push((qname(q), Class::IN, Ttl::from_secs(60), soa)).unwrap();
        } else {
            let txt: Txt<Vec<u8>> = Txt::build_from_slice(b"x").unwrap();
            ab.push((qname(q), Class::IN, Ttl::from_secs(60), txt)).unwrap();
        }
    }
    if flag(f, "body") && ka < 0 && recs.is_empty() {
        ab.push((qname(q), Class::IN, Ttl::from_secs(60), A::new([192, 0, 2, (q % 250) as u8].into())))
            .unwrap();
    }
    let mut ad = ab.additional();
    if ka >= 0 {
        ad.opt(|o| o.tcp_keepalive(Some(IdleTimeout::from((ka * KA_UNITS_PER_TICK) as u16)))).unwrap();
    }
    ad.finish()
}

fn q_of(msg: &Message<[u8]>) -> i64 {
    let qd = msg.header_counts().qdcount();
    if qd == 0 {
        return 0;
    }
    match msg.first_question() {
        Some(qu) => {
            let s = format!("{}", qu.qname());
            let upper = s.starts_with('Q');
            let n = s[1..].split('.').next().and_then(|n| n.parse::<i64>().ok()).unwrap_or(99);
            let lower_ok = s.to_ascii_lowercase().starts_with(&format!("q{}.example", n));
            if !lower_ok {
                return 99;
            }
            let variant = if qd >= 2 {
                4
            } else if qu.qclass() != Class::IN {
                2
            } else if qu.qtype() == Rtype::AAAA {
                1
            } else if qu.qtype() == Rtype::AXFR {
                5
            } else if qu.qtype() == Rtype::IXFR {
                6
            } else if qu.qtype() != Rtype::A {
                9
            } else if upper {
                3
            } else {
                0
            };
            variant * 100 + n
        }
        None => 98,
    }
}

/// zone-transfer view of the answer section: SOA -> serial, TXT -> 0
fn recs_of(msg: &Message<[u8]>) -> Vec<i64> {
    let mut v = vec![];
    if let Ok(ans) = msg.answer() {
        for rr in ans.flatten() {
            if rr.rtype() == Rtype::SOA {
                let serial = rr
                    .into_record::<Soa<domain::base::ParsedName<&[u8]>>>()
                    .ok()
                    .flatten()
                    .map(|r| r.data().serial().into_int() as i64)
                    .unwrap_or(-1);
                v.push(serial);
            } else if rr.rtype() == Rtype::TXT {
                v.push(0);
            }
        }
    }
    v
}

fn ka_of(msg: &Message<[u8]>) -> Option<i64> {
    let opt = msg.opt()?;
    for o in opt.opt().iter::<AllOptData<_, _>>().flatten() {
        if let AllOptData::TcpKeepalive(k) = o {
            return Some(match k.timeout() {
                Some(t) => u16::from(t) as i64 / KA_UNITS_PER_TICK,
                None => -2, // option present, no value (what a client sends)
            });
        }
    }
    None
}

/// Wire format -> abstract message (what the spec's outcome carries).
pub fn abstract_msg(bytes: &[u8]) -> Value {
    match Message::from_slice(bytes) {
        Ok(m) => {
            let c = m.header_counts();
            json!({
                "id": m.header().id(),
                "qr": m.header().qr(),
                "q": q_of(m),
                "rcode": m.header().rcode().to_int(),
                "body": c.ancount() + c.nscount() + c.arcount() > 0,
                "tc": m.header().tc(),
                "ka": match ka_of(m) { Some(v) if v >= 0 => v, _ => -1 },
                "recs": recs_of(m),
            })
        }
        Err(_) => json!({"unparsable": true}),
    }
}

/// A request as the client wrote it: `[id, q, ka]`.
pub fn abstract_request(bytes: &[u8]) -> Value {
    match Message::from_slice(bytes) {
        Ok(m) => json!({"id": m.header().id(), "q": q_of(m), "ka": ka_of(m).is_some()}),
        Err(_) => json!({"unparsable": true}),
    }
}

pub fn outcome(res: &Result<Message<Bytes>, Error>) -> Value {
    match res {
        Ok(m) => json!({"ok": abstract_msg(m.as_slice())}),
        Err(_) => json!({"err": true}),
    }
}

pub fn error_name(res: &Result<Message<Bytes>, Error>) -> String {
    match res {
        Ok(_) => "ok".into(),
        Err(e) => format!("{:?}", e).chars().take(40).collect(),
    }
}

//------------ mock stream ----------------------------------------------------

#[derive(Default)]
pub struct StreamInner {
    inbuf: VecDeque<u8>,
    in_eof: bool,
    out: Vec<u8>,
    wfail: bool,
    /// write credit in octets; None = unlimited.  With no credit left
    /// poll_write is pending, with some it is short.
    wcredit: Option<usize>,
    wwaker: Option<Waker>,
    shutdown: bool,
    dropped: bool,
    rwaker: Option<Waker>,
}

/// The client's end of an in-memory stream; the harness keeps `StreamPeer`.
pub struct MockStream {
    inner: Arc<Mutex<StreamInner>>,
    act: Activity,
    wchunk: usize,
}

#[derive(Clone)]
pub struct StreamPeer {
    inner: Arc<Mutex<StreamInner>>,
}

pub fn mock_stream(act: &Activity, wchunk: usize) -> (MockStream, StreamPeer) {
    let inner = Arc::new(Mutex::new(StreamInner::default()));
    (MockStream { inner: inner.clone(), act: act.clone(), wchunk }, StreamPeer { inner })
}

impl AsyncRead for MockStream {
    fn poll_read(self: Pin<&mut Self>, cx: &mut Context<'_>, buf: &mut ReadBuf<'_>) -> Poll<io::Result<()>> {
        self.act.hit();
        let mut g = self.inner.lock().unwrap();
        if !g.inbuf.is_empty() {
            let n = buf.remaining().min(g.inbuf.len());
            let chunk: Vec<u8> = g.inbuf.drain(..n).collect();
            buf.put_slice(&chunk);
            return Poll::Ready(Ok(()));
        }
        if g.in_eof {
            return Poll::Ready(Ok(()));
        }
        g.rwaker = Some(cx.waker().clone());
        Poll::Pending
    }
}

impl AsyncWrite for MockStream {
    fn poll_write(self: Pin<&mut Self>, cx: &mut Context<'_>, buf: &[u8]) -> Poll<io::Result<usize>> {
        self.act.hit();
        let mut g = self.inner.lock().unwrap();
        if g.wfail {
            return Poll::Ready(Err(io::Error::new(io::ErrorKind::BrokenPipe, "peer stopped reading")));
        }
        let mut n = buf.len().min(self.wchunk);
        if let Some(c) = g.wcredit {
            if c == 0 {
                g.wwaker = Some(cx.waker().clone());
                return Poll::Pending;
            }
            n = n.min(c);
            g.wcredit = Some(c - n);
        }
        g.out.extend_from_slice(&buf[..n]);
        Poll::Ready(Ok(n))
    }
    fn poll_flush(self: Pin<&mut Self>, _cx: &mut Context<'_>) -> Poll<io::Result<()>> {
        Poll::Ready(Ok(()))
    }
    fn poll_shutdown(self: Pin<&mut Self>, _cx: &mut Context<'_>) -> Poll<io::Result<()>> {
        self.act.hit();
        self.inner.lock().unwrap().shutdown = true;
        Poll::Ready(Ok(()))
    }
}

impl Drop for MockStream {
    fn drop(&mut self) {
        self.inner.lock().unwrap().dropped = true;
    }
}

impl StreamPeer {
    pub fn push(&self, bytes: &[u8]) {
        let w = {
            let mut g = self.inner.lock().unwrap();
            g.inbuf.extend(bytes.iter().copied());
            g.rwaker.take()
        };
        if let Some(w) = w {
            w.wake();
        }
    }
    pub fn push_frame(&self, msg: &[u8]) {
        let mut v = (msg.len() as u16).to_be_bytes().to_vec();
        v.extend_from_slice(msg);
        self.push(&v);
    }
    pub fn close(&self) {
        let w = {
            let mut g = self.inner.lock().unwrap();
            g.in_eof = true;
            g.rwaker.take()
        };
        if let Some(w) = w {
            w.wake();
        }
    }
    pub fn stop_reading(&self) {
        let w = {
            let mut g = self.inner.lock().unwrap();
            g.wfail = true;
            g.wwaker.take()
        };
        if let Some(w) = w {
            w.wake();
        }
    }
    /// The peer takes `n` more octets and then nothing (None: everything).
    pub fn write_credit(&self, n: Option<usize>) {
        let w = {
            let mut g = self.inner.lock().unwrap();
            g.wcredit = n;
            g.wwaker.take()
        };
        if let Some(w) = w {
            w.wake();
        }
    }
    pub fn client_closed(&self) -> bool {
        let g = self.inner.lock().unwrap();
        g.shutdown || g.dropped
    }
    /// Complete frames the client has written so far (cumulative), and the
    /// number of trailing octets that do not form a complete frame.
    pub fn frames(&self) -> (Vec<Vec<u8>>, usize) {
        let g = self.inner.lock().unwrap();
        let mut v = vec![];
        let mut p = 0;
        while p + 2 <= g.out.len() {
            let l = u16::from_be_bytes([g.out[p], g.out[p + 1]]) as usize;
            if p + 2 + l > g.out.len() {
                break;
            }
            v.push(g.out[p + 2..p + 2 + l].to_vec());
            p += 2 + l;
        }
        (v, g.out.len() - p)
    }
}

//------------ stream session -------------------------------------------------

pub type StreamConn = stream::Connection<RequestMessage<Vec<u8>>, RequestMessageMulti<Vec<u8>>>;

pub type Completions = Arc<Mutex<Vec<(u64, Value, String)>>>;

/// Spawn a task that waits for the response of request `r`.
pub fn spawn_waiter(
    mut req: Box<dyn GetResponse + Send + Sync>,
    r: u64,
    comp: &Completions,
    act: &Activity,
) {
    let comp = comp.clone();
    let fut = async move {
        let res = req.get_response().await;
        comp.lock().unwrap().push((r, outcome(&res), error_name(&res)));
    };
    tokio::spawn(counted(fut, act));
}

/// Spawn a task that takes everything a zone-transfer request hands out:
/// messages, WrongReplyForQuery (the stream stays open), the end mark or a
/// final error.
pub fn spawn_waiter_multi(
    mut req: Box<dyn GetResponseMulti + Send + Sync>,
    r: u64,
    comp: &Completions,
    act: &Activity,
) {
    let comp = comp.clone();
    let fut = async move {
        loop {
            let res = req.get_response().await;
            let (o, stop) = match &res {
                Ok(Some(m)) => (json!({"ok": abstract_msg(m.as_slice())}), false),
                Ok(None) => (json!({"eof": true}), true),
                Err(Error::WrongReplyForQuery) => (json!({"err": true}), false),
                Err(_) => (json!({"err": true}), true),
            };
            comp.lock().unwrap().push((r, o, String::new()));
            if stop {
                break;
            }
        }
    };
    tokio::spawn(counted(fut, act));
}

pub struct StreamSession {
    pub act: Activity,
    pub clock: Clock,
    pub conn: Option<StreamConn>,
    pub peer: StreamPeer,
    pub comp: Completions,
    pub nreq: usize,
    pub hang: bool,
    /// one tick of model time (TICK unless a case says otherwise; the
    /// keepalive unit KA_UNITS_PER_TICK assumes TICK)
    pub tick: Duration,
}

impl StreamSession {
    /// rt / idle in ticks; the response timeout is set half a tick short so
    /// that the code's `elapsed > timeout` is decided by whole ticks.
    pub fn new(rt: u64, idle: u64, wchunk: usize) -> Self {
        Self::with_conf(&Self::conf_of(rt, rt, idle), wchunk).expect("conf").0
    }

    /// The script ClientStream.tla calls StS(rt, srt, idle).
    pub fn conf_of(rt: u64, srt: u64, idle: u64) -> Value {
        let t = TICK.as_millis() as u64;
        let mut calls = vec![json!({"f": "set_response_timeout", "v": rt * t - t / 2})];
        if srt != rt {
            calls.push(json!({"f": "set_streaming_response_timeout", "v": srt * t - t / 2}));
        }
        calls.push(json!({"f": "set_idle_timeout", "v": idle * t}));
        json!({"route": "new", "calls": calls})
    }

    /// A connection made from a configuration script (routes "new",
    /// "default": with_config; "conn_new": Connection::new); also what the
    /// getters of the configuration object say.
    pub fn with_conf(sc: &Value, wchunk: usize) -> Option<(Self, Value)> {
        let act = Activity::default();
        let (ms, peer) = mock_stream(&act, wchunk);
        let cfg = st_config(sc)?;
        let eff = st_eff(&cfg);
        let (conn, transport) = if route_of(sc) == "conn_new" {
            StreamConn::new(ms)
        } else {
            StreamConn::with_config(ms, cfg)
        };
        tokio::spawn(counted(transport.run(), &act));
        Some((
            StreamSession {
                act,
                clock: Clock::new(),
                conn: Some(conn),
                peer,
                comp: Arc::new(Mutex::new(vec![])),
                nreq: 0,
                hang: false,
                tick: TICK,
            },
            eff,
        ))
    }

    pub async fn settle(&mut self) {
        // once the transport has been seen spinning there is no point in
        // waiting for it again: the projection carries "hang"
        if !self.hang && !settle(&self.act).await {
            self.hang = true;
        }
    }

    pub fn submit(&mut self, r: u64, q: u64) {
        self.nreq = self.nreq.max(r as usize);
        if let Some(conn) = &self.conn {
            if q >= 500 {
                let req = SendRequestMulti::send_request(conn, build_request_multi(q));
                spawn_waiter_multi(req, r, &self.comp, &self.act);
            } else {
                let req = SendRequest::send_request(conn, build_request(q));
                spawn_waiter(req, r, &self.comp, &self.act);
            }
        }
    }

    /// Peer writes one message, optionally in two pieces with the transport
    /// run to quiescence in between.
    pub async fn peer_msg(&mut self, f: &Value, split: bool) {
        let msg = build_peer_msg(f);
        if split {
            let mut v = (msg.len() as u16).to_be_bytes().to_vec();
            v.extend_from_slice(&msg);
            let cut = 1 + (msg.len() / 2);
            self.peer.push(&v[..cut]);
            self.settle().await;
            self.peer.push(&v[cut..]);
        } else {
            self.peer.push_frame(&msg);
        }
    }

    pub fn peer_end(&mut self, how: &str) {
        match how {
            "short" => self.peer.push_frame(&[0u8, 1, 2, 3, 4]),
            "trunc" => {
                self.peer.push(&[0u8, 40, 1, 2, 3]);
                self.peer.close();
            }
            _ => self.peer.close(),
        }
    }

    pub async fn tick(&mut self) {
        self.clock.advance(self.tick).await;
    }

    pub fn drop_handles(&mut self) {
        self.conn = None;
    }

    /// Cumulative projection: requests written, outcomes per request, closed.
    pub fn projection(&self, nreq: usize) -> Value {
        let (frames, partial) = self.peer.frames();
        let out: Vec<Value> = frames.iter().map(|f| abstract_request(f)).collect();
        let mut done: Vec<Vec<Value>> = vec![vec![]; nreq];
        for (r, o, _) in self.comp.lock().unwrap().iter() {
            if (*r as usize) >= 1 && (*r as usize) <= nreq {
                done[*r as usize - 1].push(o.clone());
            }
        }
        // partial: octets of a request that is not complete yet are on the
        // wire (a stalled write); whatever is complete must parse as whole,
        // unspliced requests (`out`)
        let closed = self.peer.client_closed();
        let mut p = json!({"out": out, "done": done, "closed": closed,
                           "partial": partial != 0 && !closed});
        if self.hang {
            p["hang"] = json!(true);
        }
        if !self.clock.in_step() {
            p["clock_drift"] = json!(true);
        }
        p
    }
}

//------------ mock datagram sockets -----------------------------------------

pub enum SendMode {
    Ok,
    Fail,
    Short,
}

pub struct SockState {
    pub sent: Vec<Vec<u8>>,
    pub inq: VecDeque<Result<Vec<u8>, ()>>,
    pub waker: Option<Waker>,
    pub dropped: bool,
}

#[derive(Default)]
pub struct DgramInner {
    pub socks: Vec<SockState>,
    /// connect number (0-based) that fails, if any
    pub connect_fail: Option<usize>,
    /// socket number whose send fails / is short, if any
    pub send_fail: Option<(usize, bool)>,
    pub connects: usize,
    /// octets of receive buffer the transport offered in its last receive
    /// call (the configured recv_size)
    pub rbuf: Option<usize>,
}

#[derive(Clone)]
pub struct DgramNet {
    pub inner: Arc<Mutex<DgramInner>>,
    pub act: Activity,
}

pub struct DgramSock {
    net: DgramNet,
    idx: usize,
}

impl std::fmt::Debug for DgramNet {
    fn fmt(&self, f: &mut std::fmt::Formatter<'_>) -> std::fmt::Result {
        f.write_str("DgramNet")
    }
}

impl DgramNet {
    pub fn new(act: &Activity) -> Self {
        DgramNet { inner: Arc::new(Mutex::new(DgramInner::default())), act: act.clone() }
    }
    pub fn deliver(&self, sock: usize, dgram: Result<Vec<u8>, ()>) -> bool {
        let w = {
            let mut g = self.inner.lock().unwrap();
            match g.socks.get_mut(sock) {
                Some(s) if !s.dropped => {
                    s.inq.push_back(dgram);
                    s.waker.take()
                }
                _ => return false,
            }
        };
        if let Some(w) = w {
            w.wake();
        }
        true
    }
    pub fn nsocks(&self) -> usize {
        self.inner.lock().unwrap().socks.len()
    }
    pub fn sent(&self, sock: usize) -> Vec<Vec<u8>> {
        self.inner.lock().unwrap().socks.get(sock).map(|s| s.sent.clone()).unwrap_or_default()
    }
    pub fn open(&self, sock: usize) -> bool {
        self.inner.lock().unwrap().socks.get(sock).map(|s| !s.dropped).unwrap_or(false)
    }
    /// Sockets that are open now.
    pub fn nopen(&self) -> usize {
        self.inner.lock().unwrap().socks.iter().filter(|s| !s.dropped).count()
    }
    /// The receive buffer size offered last (-1: nothing was received yet).
    pub fn rbuf(&self) -> i64 {
        self.inner.lock().unwrap().rbuf.map(|v| v as i64).unwrap_or(-1)
    }
}

impl AsyncConnect for DgramNet {
    type Connection = DgramSock;
    type Fut = std::future::Ready<Result<DgramSock, io::Error>>;
    fn connect(&self) -> Self::Fut {
        self.act.hit();
        let mut g = self.inner.lock().unwrap();
        let n = g.connects;
        g.connects += 1;
        if g.connect_fail == Some(n) {
            return std::future::ready(Err(io::Error::new(io::ErrorKind::Other, "connect refused")));
        }
        g.socks.push(SockState { sent: vec![], inq: VecDeque::new(), waker: None, dropped: false });
        let idx = g.socks.len() - 1;
        std::future::ready(Ok(DgramSock { net: self.clone(), idx }))
    }
}

impl AsyncDgramRecv for DgramSock {
    fn poll_recv(&self, cx: &mut Context<'_>, buf: &mut ReadBuf<'_>) -> Poll<Result<(), io::Error>> {
        self.net.act.hit();
        let mut g = self.net.inner.lock().unwrap();
        g.rbuf = Some(buf.remaining());
        let s = &mut g.socks[self.idx];
        match s.inq.pop_front() {
            Some(Ok(d)) => {
                let n = d.len().min(buf.remaining());
                buf.put_slice(&d[..n]);
                Poll::Ready(Ok(()))
            }
            Some(Err(())) => Poll::Ready(Err(io::Error::new(io::ErrorKind::ConnectionRefused, "icmp"))),
            None => {
                s.waker = Some(cx.waker().clone());
                Poll::Pending
            }
        }
    }
}

impl AsyncDgramSend for DgramSock {
    fn poll_send(&self, _cx: &mut Context<'_>, buf: &[u8]) -> Poll<Result<usize, io::Error>> {
        self.net.act.hit();
        let mut g = self.net.inner.lock().unwrap();
        let mode = match g.send_fail {
            Some((i, short)) if i == self.idx => {
                if short {
                    SendMode::Short
                } else {
                    SendMode::Fail
                }
            }
            _ => SendMode::Ok,
        };
        g.socks[self.idx].sent.push(buf.to_vec());
        match mode {
            SendMode::Ok => Poll::Ready(Ok(buf.len())),
            SendMode::Short => Poll::Ready(Ok(buf.len().saturating_sub(1))),
            SendMode::Fail => Poll::Ready(Err(io::Error::new(io::ErrorKind::Other, "send failed"))),
        }
    }
}

impl Drop for DgramSock {
    fn drop(&mut self) {
        self.net.inner.lock().unwrap().socks[self.idx].dropped = true;
    }
}

pub type DgramConn = dgram::Connection<DgramNet>;

//------------ configuration scripts (ClientConfig.tla) ------------------------
//
// A script is `{route, calls: [{f, v}]}`: the public configuration calls a
// caller makes, performed here one by one on the real objects; `*_eff` is
// what the getters of the finished object say.  Durations are in
// milliseconds, None is -1.

fn ms(v: i64) -> Duration {
    Duration::from_millis(v.max(0) as u64)
}

fn calls_of(sc: &Value) -> Vec<(String, i64, bool)> {
    sc.get("calls")
        .and_then(|c| c.as_array())
        .map(|a| {
            a.iter()
                .map(|k| {
                    (
                        k["f"].as_str().unwrap_or("").to_string(),
                        k["v"].as_i64().unwrap_or(0),
                        k["v"].as_bool().unwrap_or(false),
                    )
                })
                .collect()
        })
        .unwrap_or_default()
}

fn route_of(sc: &Value) -> &str {
    sc.get("route").and_then(|r| r.as_str()).unwrap_or("new")
}

pub fn dg_apply(cfg: &mut dgram::Config, sc: &Value) -> bool {
    for (f, v, _) in calls_of(sc) {
        match f.as_str() {
            "set_max_parallel" => cfg.set_max_parallel(v as usize),
            "set_read_timeout" => cfg.set_read_timeout(ms(v)),
            "set_max_retries" => cfg.set_max_retries(v as u8),
            "set_udp_payload_size" => cfg.set_udp_payload_size(if v < 0 { None } else { Some(v as u16) }),
            "set_recv_size" => cfg.set_recv_size(v as usize),
            _ => return false,
        }
    }
    true
}

pub fn dg_eff(cfg: &dgram::Config) -> Value {
    json!({"mp": cfg.max_parallel(), "rto": cfg.read_timeout().as_millis() as u64,
           "mr": cfg.max_retries(),
           "ups": match cfg.udp_payload_size() { Some(v) => v as i64, None => -1 },
           "rsz": cfg.recv_size()})
}

/// A dgram::Config made by the script's route ("new", "default"; for
/// "conn_new" there is no object: the documented default stands in for the
/// getters, the transport is made by `Connection::new`).
pub fn dg_config(sc: &Value) -> Option<dgram::Config> {
    let mut cfg = match route_of(sc) {
        "default" => dgram::Config::default(),
        _ => dgram::Config::new(),
    };
    if dg_apply(&mut cfg, sc) { Some(cfg) } else { None }
}

pub fn dgram_conn(net: &DgramNet, sc: &Value) -> Option<(DgramConn, Value)> {
    let cfg = dg_config(sc)?;
    let eff = dg_eff(&cfg);
    let conn = if route_of(sc) == "conn_new" {
        dgram::Connection::new(net.clone())
    } else {
        dgram::Connection::with_config(net.clone(), cfg)
    };
    Some((conn, eff))
}

pub fn st_apply(cfg: &mut stream::Config, sc: &Value) -> bool {
    for (f, v, _) in calls_of(sc) {
        match f.as_str() {
            "set_response_timeout" => cfg.set_response_timeout(ms(v)),
            "set_streaming_response_timeout" => cfg.set_streaming_response_timeout(ms(v)),
            "set_idle_timeout" => cfg.set_idle_timeout(ms(v)),
            _ => return false,
        }
    }
    true
}

pub fn st_eff(cfg: &stream::Config) -> Value {
    json!({"rt": cfg.response_timeout().as_millis() as u64,
           "srt": cfg.streaming_response_timeout().as_millis() as u64,
           "idle": cfg.idle_timeout().as_millis() as u64})
}

pub fn st_config(sc: &Value) -> Option<stream::Config> {
    let mut cfg = match route_of(sc) {
        "default" => stream::Config::default(),
        _ => stream::Config::new(),
    };
    if st_apply(&mut cfg, sc) { Some(cfg) } else { None }
}

use domain::net::client::{dgram_stream, multi_stream};

pub fn ms_apply(cfg: &mut multi_stream::Config, sc: &Value) -> bool {
    for (f, v, _) in calls_of(sc) {
        match f.as_str() {
            "set_response_timeout" => cfg.set_response_timeout(ms(v)),
            _ => return false,
        }
    }
    true
}

pub fn ms_eff(cfg: &multi_stream::Config) -> Value {
    json!({"rt": cfg.response_timeout().as_millis() as u64, "st": st_eff(cfg.stream())})
}

/// multi_stream::Config by route: "from" (From<stream::Config>), "default"
/// and "conn_new" (Default, the stream script through stream_mut()).
pub fn ms_config(sc: &Value) -> Option<multi_stream::Config> {
    let mut cfg = match route_of(sc) {
        "from" => multi_stream::Config::from(st_config(&sc["st"])?),
        _ => {
            let mut c = multi_stream::Config::default();
            if !st_apply(c.stream_mut(), &sc["st"]) {
                return None;
            }
            c
        }
    };
    if ms_apply(&mut cfg, sc) { Some(cfg) } else { None }
}

pub fn x_eff(cfg: &dgram_stream::Config) -> Value {
    json!({"dg": dg_eff(cfg.dgram()), "ms": ms_eff(cfg.stream())})
}

/// dgram_stream::Config by route: "from_parts", "new_mut" (new(), both
/// scripts through dgram_mut() / stream_mut()), "new_set" (new(),
/// set_dgram, set_stream), "conn_new" (new(); the transport by Connection::new).
pub fn x_config(sc: &Value) -> Option<dgram_stream::Config> {
    match route_of(sc) {
        "from_parts" => Some(dgram_stream::Config::from_parts(dg_config(&sc["dg"])?, ms_config(&sc["ms"])?)),
        "new_set" => {
            let mut c = dgram_stream::Config::new();
            c.set_dgram(dg_config(&sc["dg"])?);
            c.set_stream(ms_config(&sc["ms"])?);
            Some(c)
        }
        _ => {
            let mut c = dgram_stream::Config::new();
            if !dg_apply(c.dgram_mut(), &sc["dg"]) {
                return None;
            }
            if !st_apply(c.stream_mut().stream_mut(), &sc["ms"]["st"]) {
                return None;
            }
            if !ms_apply(c.stream_mut(), &sc["ms"]) {
                return None;
            }
            Some(c)
        }
    }
}

/// One configuration object of any kind (Gen_ClientConfig.tla): calls are
/// performed one at a time, addressed through the accessor named by `at`.
pub enum CfgObj {
    Dg(dgram::Config),
    St(stream::Config),
    Ms(multi_stream::Config),
    X(dgram_stream::Config),
    Cc(domain::net::client::load_balancer::ConnConfig),
    Lb(domain::net::client::load_balancer::Config),
    Red(domain::net::client::redundant::Config),
}

impl CfgObj {
    pub fn make(kind: &str, route: &str) -> Option<CfgObj> {
        use domain::net::client::{load_balancer, redundant};
        let new = route == "new";
        Some(match kind {
            "dg" => CfgObj::Dg(if new { dgram::Config::new() } else { Default::default() }),
            "st" => CfgObj::St(if new { stream::Config::new() } else { Default::default() }),
            "ms" => CfgObj::Ms(Default::default()),
            "x" => CfgObj::X(if new { dgram_stream::Config::new() } else { Default::default() }),
            "cc" => CfgObj::Cc(load_balancer::ConnConfig::new()),
            "lb" => CfgObj::Lb(load_balancer::Config::default()),
            "red" => CfgObj::Red(redundant::Config::default()),
            _ => return None,
        })
    }

    pub fn call(&mut self, k: &Value) -> bool {
        let one = json!({"calls": [k]});
        let at = k["at"].as_str().unwrap_or("");
        let f = k["f"].as_str().unwrap_or("");
        let v = k["v"].as_i64().unwrap_or(0);
        match (self, at) {
            (CfgObj::Dg(c), "") => dg_apply(c, &one),
            (CfgObj::St(c), "") => st_apply(c, &one),
            (CfgObj::Ms(c), "") => ms_apply(c, &one),
            (CfgObj::Ms(c), "stream_mut") => st_apply(c.stream_mut(), &one),
            (CfgObj::X(c), "dgram_mut") => dg_apply(c.dgram_mut(), &one),
            (CfgObj::X(c), "stream_mut") => ms_apply(c.stream_mut(), &one),
            (CfgObj::X(c), "stream_mut.stream_mut") => st_apply(c.stream_mut().stream_mut(), &one),
            (CfgObj::Cc(c), "") => cc_apply(c, &one),
            (CfgObj::Lb(c), "") => {
                match f {
                    "set_defer_transport_error" => c.set_defer_transport_error(v != 0),
                    "set_defer_refused" => c.set_defer_refused(v != 0),
                    "set_defer_servfail" => c.set_defer_servfail(v != 0),
                    "set_slow_rt_factor" => c.set_slow_rt_factor(v as f64 / 10.0),
                    _ => return false,
                }
                true
            }
            (CfgObj::Red(c), "") => {
                match f {
                    "set_defer_transport_error" => c.set_defer_transport_error(v != 0),
                    "set_defer_refused" => c.set_defer_refused(v != 0),
                    "set_defer_servfail" => c.set_defer_servfail(v != 0),
                    _ => return false,
                }
                true
            }
            _ => false,
        }
    }

    pub fn eff(&mut self) -> Value {
        match self {
            CfgObj::Dg(c) => dg_eff(c),
            CfgObj::St(c) => st_eff(c),
            CfgObj::Ms(c) => ms_eff(c),
            CfgObj::X(c) => x_eff(c),
            CfgObj::Cc(c) => cc_eff(c),
            CfgObj::Lb(c) => lb_eff(c),
            CfgObj::Red(c) => json!({"de": c.defer_transport_error(), "dr": c.defer_refused(),
                                     "ds": c.defer_servfail()}),
        }
    }
}

pub fn cc_apply(c: &mut domain::net::client::load_balancer::ConnConfig, sc: &Value) -> bool {
    for (f, v, _) in calls_of(sc) {
        match f.as_str() {
            "set_max_burst" => c.set_max_burst(if v < 0 { None } else { Some(v as u64) }),
            "set_burst_interval" => c.set_burst_interval(ms(v)),
            _ => return false,
        }
    }
    true
}

pub fn cc_eff(c: &mut domain::net::client::load_balancer::ConnConfig) -> Value {
    json!({"mb": match c.max_burst() { Some(v) => v as i64, None => -1 },
           "iv": c.burst_interval().as_millis() as u64})
}

pub fn lb_eff(c: &domain::net::client::load_balancer::Config) -> Value {
    json!({"de": c.defer_transport_error(), "dr": c.defer_refused(), "ds": c.defer_servfail(),
           "srf": (c.slow_rt_factor() * 10.0).round() as i64})
}

/// The EDNS payload size a request carries on the wire (-1: no OPT record).
pub fn request_ups(bytes: &[u8]) -> i64 {
    match Message::from_slice(bytes) {
        Ok(m) => match m.opt() {
            Some(o) => o.udp_payload_size() as i64,
            None => -1,
        },
        Err(_) => -2,
    }
}

/// A request datagram as ClientDgram.tla sees it: `[q, ups]`.
pub fn abstract_dgram_request(bytes: &[u8]) -> Value {
    json!({"q": abstract_request(bytes)["q"], "ups": request_ups(bytes)})
}

pub fn runtime() -> tokio::runtime::Runtime {
    tokio::runtime::Builder::new_current_thread()
        .enable_time()
        .start_paused(true)
        .build()
        .expect("runtime")
}

//------------ mock stream connector (multi_stream, dgram_stream) -------------

type ConnResult = io::Result<MockStream>;

#[derive(Default)]
pub struct ConnectorInner {
    /// connect() futures not yet resolved, oldest first
    pending: VecDeque<tokio::sync::oneshot::Sender<ConnResult>>,
    /// number of connect() calls
    pub calls: usize,
    /// peer ends of the streams handed out
    pub peers: Vec<StreamPeer>,
}

/// `AsyncConnect` whose futures resolve when the harness says so.
#[derive(Clone)]
pub struct StreamConnector {
    pub inner: Arc<Mutex<ConnectorInner>>,
    pub act: Activity,
}

impl StreamConnector {
    pub fn new(act: &Activity) -> Self {
        StreamConnector { inner: Arc::new(Mutex::new(ConnectorInner::default())), act: act.clone() }
    }
    pub fn calls(&self) -> usize {
        self.inner.lock().unwrap().calls
    }
    pub fn has_pending(&self) -> bool {
        !self.inner.lock().unwrap().pending.is_empty()
    }
    /// Resolve the oldest pending connect() with a fresh stream / an error.
    pub fn resolve(&self, ok: bool) -> bool {
        let mut g = self.inner.lock().unwrap();
        let tx = match g.pending.pop_front() {
            Some(tx) => tx,
            None => return false,
        };
        if ok {
            let (ms, peer) = mock_stream(&self.act, 65536);
            g.peers.push(peer);
            drop(g);
            let _ = tx.send(Ok(ms));
        } else {
            drop(g);
            let _ = tx.send(Err(io::Error::new(io::ErrorKind::ConnectionRefused, "refused")));
        }
        true
    }
    pub fn peer(&self, c: usize) -> Option<StreamPeer> {
        self.inner.lock().unwrap().peers.get(c).cloned()
    }
    pub fn npeers(&self) -> usize {
        self.inner.lock().unwrap().peers.len()
    }
}

impl AsyncConnect for StreamConnector {
    type Connection = MockStream;
    type Fut = Pin<Box<dyn Future<Output = ConnResult> + Send + Sync>>;
    fn connect(&self) -> Self::Fut {
        let (tx, rx) = tokio::sync::oneshot::channel();
        {
            let mut g = self.inner.lock().unwrap();
            g.calls += 1;
            g.pending.push_back(tx);
        }
        let act = self.act.clone();
        Box::pin(counted(
            async move {
                match rx.await {
                    Ok(r) => r,
                    Err(_) => Err(io::Error::new(io::ErrorKind::Other, "connector dropped")),
                }
            },
            &act,
        ))
    }
}

/// Configuration of the stream connections under multi_stream: their own
/// timers are put beyond the horizon of a case.
pub fn quiet_stream_config() -> stream::Config {
    let mut cfg = stream::Config::new();
    cfg.set_response_timeout(Duration::from_secs(595));
    cfg.set_idle_timeout(Duration::from_secs(3600));
    cfg
}

/// Peer side: find the request for question `q` on a stream and return its ID.
pub fn id_of_request(peer: &StreamPeer, q: u64) -> Option<u64> {
    let (frames, _) = peer.frames();
    frames
        .iter()
        .map(|f| abstract_request(f))
        .filter(|a| a["q"].as_u64() == Some(q))
        .last()
        .and_then(|a| a["id"].as_u64())
}

/// How often question `q` was written on a stream.
pub fn times_written(peer: &StreamPeer, q: u64) -> usize {
    let (frames, _) = peer.frames();
    frames.iter().map(|f| abstract_request(f)).filter(|a| a["q"].as_u64() == Some(q)).count()
}

//------------ scripted upstreams (redundant, load_balancer) -----------------

pub struct UpPending {
    pub u: usize,
    pub r: u64,
    pub tx: tokio::sync::oneshot::Sender<String>,
}

#[derive(Default)]
pub struct UpShared {
    pub pending: Vec<UpPending>,
    /// (upstream, request) in the order the upstreams were asked
    pub asked: Vec<(usize, u64)>,
}

/// A sub-transport whose responses the harness hands out: "answer",
/// "servfail", "refused" (replies built from the request: same ID and
/// question, an A record 192.0.2.<u> naming the upstream) or "error".
pub struct MockUpstream {
    pub u: usize,
    pub shared: Arc<Mutex<UpShared>>,
    pub act: Activity,
}

pub struct MockResp {
    rx: tokio::sync::oneshot::Receiver<String>,
    req: RequestMessage<Vec<u8>>,
    u: usize,
    act: Activity,
}

impl std::fmt::Debug for MockResp {
    fn fmt(&self, f: &mut std::fmt::Formatter<'_>) -> std::fmt::Result {
        f.write_str("MockResp")
    }
}

fn upstream_reply(req: &RequestMessage<Vec<u8>>, u: usize, kind: &str) -> Result<Message<Bytes>, Error> {
    use domain::net::client::request::ComposeRequest;
    let rcode = match kind {
        "answer" => Rcode::NOERROR,
        "servfail" => Rcode::SERVFAIL,
        "refused" => Rcode::REFUSED,
        _ => return Err(Error::StreamReadTimeout),
    };
    let qmsg = req.to_message()?;
    let mut ab = MessageBuilder::new_vec().start_answer(&qmsg, rcode).map_err(|_| Error::MessageBuilderPushError)?;
    let owner = qmsg.first_question().map(|q| q.qname().to_name::<Vec<u8>>()).unwrap_or_else(|| qname(0));
    ab.push((owner, Class::IN, Ttl::from_secs(60), A::new([192, 0, 2, u as u8].into())))
        .map_err(|_| Error::MessageBuilderPushError)?;
    Message::from_octets(Bytes::from(ab.finish())).map_err(|_| Error::ShortMessage)
}

impl GetResponse for MockResp {
    fn get_response(
        &mut self,
    ) -> Pin<Box<dyn Future<Output = Result<Message<Bytes>, Error>> + Send + Sync + '_>> {
        let act = self.act.clone();
        Box::pin(counted(
            async move {
                match (&mut self.rx).await {
                    Ok(kind) => upstream_reply(&self.req, self.u, &kind),
                    Err(_) => Err(Error::ConnectionClosed),
                }
            },
            &act,
        ))
    }
}

impl SendRequest<RequestMessage<Vec<u8>>> for MockUpstream {
    fn send_request(&self, req: RequestMessage<Vec<u8>>) -> Box<dyn GetResponse + Send + Sync> {
        use domain::net::client::request::ComposeRequest;
        self.act.hit();
        let r = req.to_message().map(|m| q_of(m.for_slice()) as u64).unwrap_or(0);
        let (tx, rx) = tokio::sync::oneshot::channel();
        let mut g = self.shared.lock().unwrap();
        g.asked.push((self.u, r));
        g.pending.push(UpPending { u: self.u, r, tx });
        Box::new(MockResp { rx, req, u: self.u, act: self.act.clone() })
    }
}

/// What a balancer handed to the caller: (ok, src upstream, kind, own).
pub fn balance_outcome(res: &Result<Message<Bytes>, Error>, r: u64) -> Value {
    match res {
        Ok(m) => {
            let src = m
                .answer()
                .ok()
                .and_then(|mut a| a.next())
                .and_then(|rr| rr.ok())
                .and_then(|rr| rr.into_record::<A>().ok().flatten())
                .map(|rec| rec.data().addr().octets()[3] as u64)
                .unwrap_or(0);
            let kind = match m.header().rcode() {
                Rcode::NOERROR => "answer",
                Rcode::SERVFAIL => "servfail",
                Rcode::REFUSED => "refused",
                _ => "other",
            };
            // the property: same ID and same question.  (The QR bit is logged
            // but not judged: load_balancer's synthesized SERVFAIL copies the
            // request header and leaves QR clear.)
            let own = q_of(m.for_slice()) == r as i64 && m.header().id() as u64 == 100 + r;
            json!({"ok": true, "src": src, "kind": kind, "own": own, "qr": m.header().qr()})
        }
        Err(_) => json!({"ok": false, "src": 0, "kind": "error", "own": true}),
    }
}
