//! Shared by replay_builder / record_builder (C02): abstract items as used by
//! spec/MsgBuilder.tla, a uniform driver over the real
//! `MessageBuilder<{Vec, BytesMut, Array<512>, StreamTarget<Vec>, StreamTarget<Array<36>>}>` inside
//! `{-, StaticCompressor, TreeCompressor, HashCompressor}`, an independent
//! reader of produced octets (the guided reader of MsgBuilderWire.tla), and
//! the re-parse with the library's own `Message`.
#![allow(dead_code)]

use bytes::BytesMut;
use domain::base::header::{Flags, Header, HeaderCounts, HeaderSection};
use domain::base::iana::{Class, Opcode, OptRcode, OptionCode, Rcode, Rtype};
use domain::base::message_builder::{
    AdditionalBuilder, AnswerBuilder, AuthorityBuilder, HashCompressor,
    MessageBuilder, QuestionBuilder, RecordSectionBuilder, StaticCompressor,
    StreamTarget, TreeCompressor,
};
use domain::base::record::ComposeRecord;
use domain::base::{Question, Record};
use std::str::FromStr;
use domain::base::name::{Name, ParsedName, RelativeName, ToRelativeName};
use domain::base::record::RecordHeader;
use domain::base::wire::{compose_vec, Compose};
use domain::base::rdata::{ComposeRecordData, ParseRecordData};
use domain::base::wire::Composer;
use domain::base::{Message, ToName, Ttl};
use domain::rdata::AllRecordData;
use octseq::array::Array;
use octseq::parse::Parser;
use serde_json::{json, Value};

pub const FILL: u8 = 0x80;

//------------ abstract items ------------------------------------------------

pub type Labels = Vec<Vec<u8>>;

#[derive(Clone, Debug, PartialEq)]
pub enum Part {
    O(Vec<u8>),
    F(usize),
    N(Labels, bool),
}

#[derive(Clone, Debug, PartialEq)]
pub struct Item {
    pub question: bool,
    pub name: Labels,
    pub rtype: u16, // qtype for questions
    pub class: u16, // qclass for questions
    pub ttl: [u8; 4],
    pub rd: Vec<Part>,
}

fn labels_of(v: &Value) -> Labels {
    v.as_array()
        .map(|a| {
            a.iter()
                .map(|l| {
                    l.as_array()
                        .map(|o| o.iter().map(|x| x.as_u64().unwrap_or(0) as u8).collect())
                        .unwrap_or_default()
                })
                .collect()
        })
        .unwrap_or_default()
}

fn labels_json(n: &Labels) -> Value {
    Value::Array(
        n.iter()
            .map(|l| Value::Array(l.iter().map(|x| json!(*x)).collect()))
            .collect(),
    )
}

fn octs_of(v: &Value) -> Vec<u8> {
    v.as_array()
        .map(|a| a.iter().map(|x| x.as_u64().unwrap_or(0) as u8).collect())
        .unwrap_or_default()
}

pub fn item_from_json(v: &Value) -> Item {
    let question = v["k"].as_str() == Some("q");
    if question {
        return Item {
            question,
            name: labels_of(&v["name"]),
            rtype: v["qtype"].as_u64().unwrap_or(0) as u16,
            class: v["qclass"].as_u64().unwrap_or(0) as u16,
            ttl: [0; 4],
            rd: vec![],
        };
    }
    let t = octs_of(&v["ttl"]);
    let mut ttl = [0u8; 4];
    for i in 0..4.min(t.len()) {
        ttl[i] = t[i];
    }
    let rd = v["rd"]
        .as_array()
        .map(|a| {
            a.iter()
                .map(|p| match p["k"].as_str() {
                    Some("o") => Part::O(octs_of(&p["o"])),
                    Some("f") => Part::F(p["n"].as_u64().unwrap_or(0) as usize),
                    _ => Part::N(labels_of(&p["n"]), p["c"].as_bool().unwrap_or(false)),
                })
                .collect()
        })
        .unwrap_or_default();
    Item {
        question,
        name: labels_of(&v["name"]),
        rtype: v["rtype"].as_u64().unwrap_or(0) as u16,
        class: v["class"].as_u64().unwrap_or(0) as u16,
        ttl,
        rd,
    }
}

pub fn item_to_json(it: &Item) -> Value {
    if it.question {
        return json!({"k": "q", "name": labels_json(&it.name),
                      "qtype": it.rtype, "qclass": it.class});
    }
    let rd: Vec<Value> = it
        .rd
        .iter()
        .map(|p| match p {
            Part::O(o) => json!({"k": "o", "o": o}),
            Part::F(n) => json!({"k": "f", "n": n}),
            Part::N(n, c) => json!({"k": "n", "n": labels_json(n), "c": c}),
        })
        .collect();
    json!({"k": "r", "name": labels_json(&it.name), "rtype": it.rtype,
           "class": it.class, "ttl": it.ttl.to_vec(), "rd": rd})
}

/// uncompressed wire form of a name
pub fn plain_name(n: &Labels) -> Vec<u8> {
    let mut v = vec![];
    for l in n {
        v.push(l.len() as u8);
        v.extend_from_slice(l);
    }
    v.push(0);
    v
}

pub fn plain_rdata(it: &Item) -> Vec<u8> {
    let mut v = vec![];
    for p in &it.rd {
        match p {
            Part::O(o) => v.extend_from_slice(o),
            Part::F(n) => v.extend(std::iter::repeat(FILL).take(*n)),
            Part::N(n, _) => v.extend_from_slice(&plain_name(n)),
        }
    }
    v
}

/// the plain (uncompressed) encoding of an item: what a target without a
/// compressor must hold
pub fn plain_item(it: &Item) -> Vec<u8> {
    let mut v = plain_name(&it.name);
    v.extend_from_slice(&it.rtype.to_be_bytes());
    v.extend_from_slice(&it.class.to_be_bytes());
    if !it.question {
        v.extend_from_slice(&it.ttl);
        let rd = plain_rdata(it);
        v.extend_from_slice(&(rd.len() as u16).to_be_bytes());
        v.extend_from_slice(&rd);
    }
    v
}

pub fn name_of(n: &Labels) -> Option<Name<Vec<u8>>> {
    Name::from_octets(plain_name(n)).ok()
}

//------------ the independent reader (MsgBuilderWire.tla) --------------------

pub struct ReadName {
    pub name: Labels,
    pub next: usize,
    pub ptrs: Vec<(usize, usize)>,
}

/// RdName of MsgBuilderWire.tla: pointers strictly backward, label types 01
/// and 10 rejected, at most 255 octets.
pub fn rd_name(b: &[u8], start: usize) -> Option<ReadName> {
    let mut p = start;
    let mut acc: Labels = vec![];
    let mut used = 0usize;
    let mut next: Option<usize> = None;
    let mut ptrs = vec![];
    loop {
        if p >= b.len() {
            return None;
        }
        let h = b[p] as usize;
        if h == 0 {
            if used + 1 > 255 {
                return None;
            }
            return Some(ReadName { name: acc, next: next.unwrap_or(p + 1), ptrs });
        } else if h <= 63 {
            if p + 1 + h > b.len() || used + 1 + h + 1 > 255 {
                return None;
            }
            acc.push(b[p + 1..p + 1 + h].to_vec());
            used += 1 + h;
            p += 1 + h;
        } else if h >= 192 {
            if p + 1 >= b.len() {
                return None;
            }
            let t = (h - 192) * 256 + b[p + 1] as usize;
            if t >= p {
                return None;
            }
            if next.is_none() {
                next = Some(p + 2);
            }
            ptrs.push((p, t));
            p = t;
        } else {
            return None;
        }
    }
}

pub fn name_eq(a: &Labels, b: &Labels) -> bool {
    a.len() == b.len() && a.iter().zip(b.iter()).all(|(x, y)| x.eq_ignore_ascii_case(y))
}

fn check_name(b: &[u8], p: usize, n: &Labels, exact: bool) -> Result<usize, String> {
    let r = rd_name(b, p).ok_or_else(|| format!("no name readable at {}", p))?;
    if exact {
        if &r.name == n && r.ptrs.is_empty() {
            Ok(r.next)
        } else {
            Err(format!("name at {} is not the plain encoding", p))
        }
    } else if name_eq(&r.name, n) {
        for (at, to) in &r.ptrs {
            if *to < 12 {
                return Err(format!("pointer at {} into the header", at));
            }
        }
        Ok(r.next)
    } else {
        Err(format!("name at {} reads as a different name", p))
    }
}

fn check_octs(b: &[u8], p: usize, s: &[u8]) -> Result<usize, String> {
    if p + s.len() <= b.len() && &b[p..p + s.len()] == s {
        Ok(p + s.len())
    } else {
        Err(format!("octets at {} differ", p))
    }
}

/// CheckItem of MsgBuilderWire.tla
pub fn check_item(b: &[u8], p: usize, it: &Item, exact: bool) -> Result<usize, String> {
    let a = check_name(b, p, &it.name, exact)?;
    let mut fixed = vec![];
    fixed.extend_from_slice(&it.rtype.to_be_bytes());
    fixed.extend_from_slice(&it.class.to_be_bytes());
    if it.question {
        return check_octs(b, a, &fixed);
    }
    fixed.extend_from_slice(&it.ttl);
    let f = check_octs(b, a, &fixed)?;
    if f + 2 > b.len() {
        return Err("no RDLENGTH".into());
    }
    let rdlen = u16::from_be_bytes([b[f], b[f + 1]]) as usize;
    let mut q = f + 2;
    for part in &it.rd {
        q = match part {
            Part::O(o) => check_octs(b, q, o)?,
            Part::F(n) => {
                if q + n <= b.len() && b[q..q + n].iter().all(|x| *x == FILL) {
                    q + n
                } else {
                    return Err(format!("filler at {} damaged", q));
                }
            }
            Part::N(n, _) => check_name(b, q, n, exact)?,
        };
    }
    if rdlen != q - (f + 2) {
        return Err(format!("RDLENGTH {} but data is {} octets", rdlen, q - (f + 2)));
    }
    Ok(q)
}

/// ParsesBackTo of MsgBuilderWire.tla
pub fn parses_back_to(b: &[u8], acc: &[(u8, Item)], exact: bool) -> Result<(), String> {
    if b.len() < 12 {
        return Err("shorter than a header".into());
    }
    for s in 1..=4u8 {
        let want = acc.iter().filter(|(x, _)| *x == s).count();
        let o = 2 + 2 * s as usize;
        let have = u16::from_be_bytes([b[o], b[o + 1]]) as usize;
        if want != have {
            return Err(format!("count of section {} is {} for {} items", s, have, want));
        }
    }
    let mut last = 0;
    let mut p = 12;
    for (s, it) in acc {
        if *s < last {
            return Err("sections out of order".into());
        }
        last = *s;
        if (*s == 1) != it.question {
            return Err("item kind does not fit its section".into());
        }
        p = check_item(b, p, it, exact)?;
    }
    if p != b.len() {
        return Err(format!("{} trailing octets", b.len() - p));
    }
    Ok(())
}

//------------ re-parse with the library's reader ------------------------------

/// Parses the octets with `Message` and compares every question and record
/// with the accepted items (names by DNS equality, record data part by part:
/// compressible names ignoring ASCII case, everything else octet by octet).
pub fn library_reparse(b: &[u8], acc: &[(u8, Item)]) -> Result<(), String> {
    let msg = Message::from_octets(b).map_err(|_| "Message::from_octets failed".to_string())?;
    let c = msg.header_counts();
    let counts = [c.qdcount(), c.ancount(), c.nscount(), c.arcount()];
    for s in 1..=4u8 {
        let want = acc.iter().filter(|(x, _)| *x == s).count();
        if want != counts[s as usize - 1] as usize {
            return Err(format!("library: count of section {}", s));
        }
    }
    let mut it = acc.iter();
    for q in msg.question() {
        let q = q.map_err(|e| format!("library: question: {}", e))?;
        let (_, want) = it.next().ok_or("library: more questions than pushed")?;
        let wn = name_of(&want.name).ok_or("bad name in item")?;
        if !want.question
            || !q.qname().name_eq(&wn)
            || q.qtype().to_int() != want.rtype
            || q.qclass().to_int() != want.class
        {
            return Err("library: question differs".into());
        }
    }
    let sections = [
        (2u8, msg.answer().map_err(|e| format!("library: answer: {}", e))?),
        (3u8, msg.authority().map_err(|e| format!("library: authority: {}", e))?),
        (4u8, msg.additional().map_err(|e| format!("library: additional: {}", e))?),
    ];
    for (s, sec) in sections {
        for r in sec {
            let r = r.map_err(|e| format!("library: record header: {}", e))?;
            let (ws, want) = it.next().ok_or("library: more records than pushed")?;
            if *ws != s {
                return Err(format!("library: record found in section {} pushed to {}", s, ws));
            }
            let wn = name_of(&want.name).ok_or("bad name in item")?;
            if !r.owner().name_eq(&wn)
                || r.rtype().to_int() != want.rtype
                || r.class().to_int() != want.class
                || r.ttl().as_secs() != u32::from_be_bytes(want.ttl)
            {
                return Err("library: record header differs".into());
            }
            let rec = r
                .to_record::<AllRecordData<_, ParsedName<_>>>()
                .map_err(|e| format!("library: record data: {}", e))?
                .ok_or("library: record data not parsed")?;
            cmp_rdata(rec.data(), want, false)?;
        }
    }
    if it.next().is_some() {
        return Err("library: fewer items than pushed".into());
    }
    Ok(())
}

/// the data of a record as the library read it, written again without
/// compression, compared part by part with the item
fn cmp_rdata<D: ComposeRecordData>(data: &D, want: &Item, via_compose_vec: bool) -> Result<(), String> {
    let got: Vec<u8> = if via_compose_vec {
        compose_vec(|t| data.compose_rdata(t))
    } else {
        let mut got = vec![];
        data.compose_rdata(&mut got).map_err(|_| "library: compose".to_string())?;
        got
    };
    let mut p = 0usize;
    for part in &want.rd {
        let (w, fold) = match part {
            Part::O(o) => (o.clone(), false),
            Part::F(n) => (vec![FILL; *n], false),
            Part::N(n, c) => (plain_name(n), *c),
        };
        if p + w.len() > got.len() {
            return Err("library: record data shorter".into());
        }
        let g = &got[p..p + w.len()];
        let same = if fold { g.eq_ignore_ascii_case(&w) } else { g == &w[..] };
        if !same {
            return Err(format!("library: record data differs at {}", p));
        }
        p += w.len();
    }
    if p != got.len() {
        return Err("library: record data longer".into());
    }
    Ok(())
}

/// The octets read a second time with the parsing functions that work on a
/// `Parser`: `HeaderSection::parse`, `Question::parse`, `Record::parse` or
/// `RecordHeader::parse` + `parse_into_record`; the header section composed
/// again and viewed through `for_message_slice_mut`; every record header
/// composed again (`RecordHeader::compose`).
pub fn library_reparse2(b: &[u8], acc: &[(u8, Item)], route: u32) -> Result<(), String> {
    type Data<'a> = AllRecordData<&'a [u8], ParsedName<&'a [u8]>>;
    let sl: &[u8] = b;
    let mut parser = Parser::from_ref(&sl);
    let hs = HeaderSection::parse(&mut parser).map_err(|e| format!("library2: header: {}", e))?;
    if compose_vec(|t| hs.compose(t)) != b[..12] {
        return Err("library2: header section composes to other octets".into());
    }
    let mut copy = b[..12].to_vec();
    {
        let hm = HeaderSection::for_message_slice_mut(&mut copy);
        let seen = hm.as_slice().to_vec();
        let h: &mut Header = hm.as_mut();
        let hsl = h.as_slice().to_vec();
        let c: &mut HeaderCounts = hm.as_mut();
        let csl = c.as_slice_mut().to_vec();
        if seen != b[..12] || hsl != b[..4] || csl != b[4..12] {
            return Err("library2: for_message_slice_mut shows other octets".into());
        }
    }
    let c = hs.counts();
    let counts = [c.qdcount(), c.ancount(), c.nscount(), c.arcount()];
    let mut fresh = HeaderCounts::new();
    fresh.set(*c);
    if fresh.as_slice() != &b[4..12] {
        return Err("library2: HeaderCounts::set".into());
    }
    for s in 1..=4u8 {
        let want = acc.iter().filter(|(x, _)| *x == s).count();
        if want != counts[s as usize - 1] as usize {
            return Err(format!("library2: count of section {}", s));
        }
    }
    for (i, (_, want)) in acc.iter().enumerate() {
        let wn = name_of(&want.name).ok_or("bad name in item")?;
        if want.question {
            let q = Question::parse(&mut parser).map_err(|e| format!("library2: question: {}", e))?;
            if !q.qname().name_eq(&wn)
                || q.qtype().to_int() != want.rtype
                || q.qclass().to_int() != want.class
            {
                return Err("library2: question differs".into());
            }
            continue;
        }
        let start = parser.pos();
        let rec: Record<ParsedName<&[u8]>, Data<'_>> = if (route as usize + i) % 2 == 0 {
            Record::parse(&mut parser)
                .map_err(|e| format!("library2: record: {}", e))?
                .ok_or("library2: record data not parsed")?
        } else {
            let h = RecordHeader::parse(&mut parser)
                .map_err(|e| format!("library2: record header: {}", e))?;
            // the header written again: the plain owner and the fixed fields
            let mut exp = plain_name(&want.name);
            exp.extend_from_slice(&want.rtype.to_be_bytes());
            exp.extend_from_slice(&want.class.to_be_bytes());
            exp.extend_from_slice(&want.ttl);
            exp.extend_from_slice(&h.rdlen().to_be_bytes());
            let got = compose_vec(|t| h.compose(t));
            if !got[..exp.len() - 10].eq_ignore_ascii_case(&exp[..exp.len() - 10])
                || got[exp.len() - 10..] != exp[exp.len() - 10..]
            {
                return Err("library2: record header composes to other octets".into());
            }
            h.parse_into_record(&mut parser)
                .map_err(|e| format!("library2: record data: {}", e))?
                .ok_or("library2: record data not parsed")?
        };
        if !rec.owner().name_eq(&wn)
            || rec.rtype().to_int() != want.rtype
            || rec.class().to_int() != want.class
            || rec.ttl().as_secs() != u32::from_be_bytes(want.ttl)
        {
            return Err("library2: record header differs".into());
        }
        let _ = start;
        cmp_rdata(rec.data(), want, true)?;
    }
    if parser.remaining() != 0 {
        return Err("library2: trailing octets".into());
    }
    Ok(())
}

//------------ targets ---------------------------------------------------------

pub trait Tgt: Composer + Sized {
    fn fresh() -> Self;
    /// a message builder on a fresh target; the bare targets have
    /// constructors of their own (`new_vec`, `new_bytes`, `new_stream_vec`,
    /// `new_stream_bytes`), used when `alt` is set
    fn fresh_builder(_alt: bool) -> MessageBuilder<Self> {
        match MessageBuilder::from_target(Self::fresh()) {
            Ok(b) => b,
            Err(_) => panic!("from_target failed"),
        }
    }
    /// for stream targets: the complete stream slice (prefix + message)
    fn stream_slice(&self) -> Option<&[u8]>;
    /// finish through `into_message()` / `Message::from(builder)` where the
    /// target can be frozen (Vec, BytesMut and Array targets, bare or inside
    /// a compressor)
    fn finish_via_message(b: B<Self>, _from: bool) -> Result<Vec<u8>, B<Self>> {
        Err(b)
    }
    /// the finished target taken apart through the `into_target` /
    /// `as_target` methods of the compressors and of the stream target:
    /// (message, stream slice)
    fn unwrap_octets(self) -> (Vec<u8>, Option<Vec<u8>>);
}

macro_rules! freezing {
    () => {
        fn finish_via_message(b: B<Self>, from: bool) -> Result<Vec<u8>, B<Self>> {
            Ok(match b {
                B::M(x) => if from { Message::from(x) } else { x.into_message() }.as_slice().to_vec(),
                B::Q(x) => if from { Message::from(x) } else { x.into_message() }.as_slice().to_vec(),
                B::An(x) => if from { Message::from(x) } else { x.into_message() }.as_slice().to_vec(),
                B::Au(x) => if from { Message::from(x) } else { x.into_message() }.as_slice().to_vec(),
                B::Ad(x) => if from { Message::from(x) } else { x.into_message() }.as_slice().to_vec(),
                B::Gone => panic!("builder used after finish"),
            })
        }
    };
}
macro_rules! stream_unwrap {
    () => {
        fn stream_slice(&self) -> Option<&[u8]> {
            Some(self.as_stream_slice())
        }
        fn unwrap_octets(self) -> (Vec<u8>, Option<Vec<u8>>) {
            // as_target() and into_target() give the underlying buffer, which
            // starts with the two length octets
            let seen = AsRef::<[u8]>::as_ref(self.as_target()).to_vec();
            let inner = self.into_target();
            assert!(seen == AsRef::<[u8]>::as_ref(&inner), "StreamTarget::as_target and into_target disagree");
            (seen[2..].to_vec(), Some(seen))
        }
    };
}
macro_rules! bare_unwrap {
    () => {
        fn stream_slice(&self) -> Option<&[u8]> {
            None
        }
        fn unwrap_octets(self) -> (Vec<u8>, Option<Vec<u8>>) {
            (AsRef::<[u8]>::as_ref(&self).to_vec(), None)
        }
    };
}
impl Tgt for Vec<u8> {
    freezing!();
    bare_unwrap!();
    fn fresh() -> Self {
        Vec::new()
    }
    fn fresh_builder(alt: bool) -> MessageBuilder<Self> {
        if alt {
            MessageBuilder::new_vec()
        } else {
            MessageBuilder::from_target(vec![0xEEu8; 40]).expect("from_target")
        }
    }
}
impl Tgt for BytesMut {
    freezing!();
    bare_unwrap!();
    fn fresh() -> Self {
        BytesMut::new()
    }
    fn fresh_builder(alt: bool) -> MessageBuilder<Self> {
        if alt {
            MessageBuilder::new_bytes()
        } else {
            MessageBuilder::from_target(BytesMut::from(&[0xEEu8; 40][..])).expect("from_target")
        }
    }
}
impl Tgt for Array<512> {
    freezing!();
    bare_unwrap!();
    fn fresh() -> Self {
        Array::new()
    }
}
impl Tgt for StreamTarget<Vec<u8>> {
    stream_unwrap!();
    fn fresh() -> Self {
        StreamTarget::new_vec()
    }
    fn fresh_builder(alt: bool) -> MessageBuilder<Self> {
        if alt {
            MessageBuilder::new_stream_vec()
        } else {
            MessageBuilder::from_target(Self::fresh()).expect("from_target")
        }
    }
}
impl Tgt for StreamTarget<BytesMut> {
    stream_unwrap!();
    fn fresh() -> Self {
        StreamTarget::new_bytes()
    }
    fn fresh_builder(alt: bool) -> MessageBuilder<Self> {
        if alt {
            MessageBuilder::new_stream_bytes()
        } else {
            MessageBuilder::from_target(Self::fresh()).expect("from_target")
        }
    }
}
/// a stream target over a fixed array: 34 octets of message
impl Tgt for StreamTarget<Array<36>> {
    stream_unwrap!();
    fn fresh() -> Self {
        match StreamTarget::new(Array::new()) {
            Ok(t) => t,
            Err(_) => panic!("no room for the length prefix"),
        }
    }
}
/// the compressors over every target; `freezing` where the inner target can
/// be frozen (FreezeBuilder for the compressor: into_message / Message::from)
macro_rules! comp_tgt {
    ($c:ident, $t:ty, $($fr:ident)?) => {
        impl Tgt for $c<$t> {
            $($fr!();)?
            fn fresh() -> Self {
                $c::new(<$t as Tgt>::fresh())
            }
            fn stream_slice(&self) -> Option<&[u8]> {
                self.as_target().stream_slice()
            }
            fn unwrap_octets(self) -> (Vec<u8>, Option<Vec<u8>>) {
                let seen = AsRef::<[u8]>::as_ref(self.as_target()).to_vec();
                let (o, s) = self.into_target().unwrap_octets();
                assert!(seen == o, "compressor: as_target and into_target disagree");
                (o, s)
            }
        }
    };
}
macro_rules! comp_tgts {
    ($c:ident) => {
        comp_tgt!($c, Vec<u8>, freezing);
        comp_tgt!($c, BytesMut, freezing);
        comp_tgt!($c, Array<512>, freezing);
        comp_tgt!($c, StreamTarget<Vec<u8>>,);
        comp_tgt!($c, StreamTarget<BytesMut>,);
        comp_tgt!($c, StreamTarget<Array<36>>,);
    };
}
comp_tgts!(StaticCompressor);
comp_tgts!(TreeCompressor);
comp_tgts!(HashCompressor);

//------------ the driver ------------------------------------------------------

pub enum B<T> {
    M(MessageBuilder<T>),
    Q(QuestionBuilder<T>),
    An(AnswerBuilder<T>),
    Au(AuthorityBuilder<T>),
    Ad(AdditionalBuilder<T>),
    Gone,
}

macro_rules! each {
    ($self:expr, $b:ident => $e:expr) => {
        match $self {
            B::M($b) => $e,
            B::Q($b) => $e,
            B::An($b) => $e,
            B::Au($b) => $e,
            B::Ad($b) => $e,
            B::Gone => panic!("builder used after finish"),
        }
    };
}

/// What the bins see: one object per (compressor, target) combination.
///
/// Every call can be made through several public entry points of the
/// library (inherent `push` with a `Record`, a reference, the tuple forms,
/// `push_ref`, the `RecordSectionBuilder` trait; section changes through
/// the conversion methods or the `From` impls; the limit through `Deref`,
/// `as_builder_mut` or `AsMut`; octets through `as_slice`, `AsRef`,
/// `as_builder`, `as_message`; finish through `finish`, `into_target`,
/// `into_message`, `Message::from`).  `set_route` selects which one the
/// following calls use; the specification's action is the same for all.
pub trait Drive {
    fn set_route(&mut self, route: u32);
    fn section(&self) -> u8;
    fn goto(&mut self, s: u8);
    fn rewind(&mut self);
    fn set_limit(&mut self, limit: Option<usize>);
    /// push a question (section 1), a record (2..4) or an OPT record (4,
    /// rtype 41, through `AdditionalBuilder::opt`); true = Ok.  `rc`: the
    /// extended RCODE an OPT push sets through `OptBuilder::set_rcode`
    fn push(&mut self, it: &Item, rc: Option<u16>) -> bool;
    /// write the first four octets through `header_mut()`
    fn set_header(&mut self, h: [u8; 4]);
    /// the first four octets as read through `header()`
    fn header(&self) -> [u8; 4];
    /// start_answer / start_error / request_axfr on a message builder:
    /// "ok", "gone" (the call failed, the builder is lost) or "-" (start_error)
    fn start(&mut self, kind: &str, rq: [u8; 4], rc: u8, qs: &[Item]) -> &'static str;
    fn octets(&self) -> Vec<u8>;
    fn len(&self) -> usize;
    fn counts(&self) -> [u16; 4];
    fn stream(&self) -> Option<Vec<u8>>;
    /// finish(): octets of the target, and the stream slice if there is one
    fn finish(&mut self) -> (Vec<u8>, Option<Vec<u8>>);
}

pub struct Driver<T: Tgt> {
    b: B<T>,
    route: u32,
}

impl<T: Tgt> Driver<T> {
    pub fn new(alt: bool) -> Self {
        Driver { b: B::M(T::fresh_builder(alt)), route: 0 }
    }
}

/// a TTL value through the constructor the route selects, where the value
/// can be expressed that way
fn ttl_of(secs: u32, route: u32) -> Ttl {
    match (route / 17) % 4 {
        1 if secs % 60 == 0 => Ttl::from_mins(secs / 60),
        2 if secs % 3600 == 0 => Ttl::from_hours(secs / 3600),
        3 if secs % 86400 == 0 => Ttl::from_days((secs / 86400) as u16),
        _ => Ttl::from_secs(secs),
    }
}

/// the four header octets written field by field / read field by field
fn header_fields(h: [u8; 4]) -> (u16, Flags, Opcode, Rcode, bool) {
    let mut f = Flags::new();
    f.qr = h[2] & 0x80 != 0;
    f.aa = h[2] & 0x04 != 0;
    f.tc = h[2] & 0x02 != 0;
    f.rd = h[2] & 0x01 != 0;
    f.ra = h[3] & 0x80 != 0;
    f.ad = h[3] & 0x20 != 0;
    f.cd = h[3] & 0x10 != 0;
    (
        u16::from_be_bytes([h[0], h[1]]),
        f,
        Opcode::from_int((h[2] >> 3) & 0x0f),
        Rcode::masked_from_int(h[3] & 0x0f),
        h[3] & 0x40 != 0,
    )
}
fn flags_octets(id: u16, f: Flags, op: Opcode, rc: Rcode, z: bool) -> [u8; 4] {
    let i = id.to_be_bytes();
    let b = |x: bool, m: u8| if x { m } else { 0 };
    [
        i[0],
        i[1],
        b(f.qr, 0x80) | (op.to_int() << 3) | b(f.aa, 0x04) | b(f.tc, 0x02) | b(f.rd, 0x01),
        b(f.ra, 0x80) | b(z, 0x40) | b(f.ad, 0x20) | b(f.cd, 0x10) | rc.to_int(),
    ]
}
fn write_header(hd: &mut Header, h: [u8; 4], route: u32) {
    let (id, f, op, rc, z) = header_fields(h);
    match route % 4 {
        0 => {
            // the whole header at once
            let mut twelve = [0u8; 12];
            twelve[..4].copy_from_slice(&h);
            *hd = *Header::for_message_slice(&twelve);
        }
        1 => {
            hd.set_id(id);
            hd.set_opcode(op);
            hd.set_rcode(rc);
            hd.set_flags(f);
            hd.set_z(z);
        }
        2 => {
            hd.set_z(z);
            hd.set_cd(f.cd);
            hd.set_ad(f.ad);
            hd.set_ra(f.ra);
            hd.set_rd(f.rd);
            hd.set_tc(f.tc);
            hd.set_aa(f.aa);
            hd.set_qr(f.qr);
            hd.set_rcode(rc);
            hd.set_opcode(op);
            hd.set_id(id);
        }
        _ => {
            // the flags through their text form
            let text = f.to_string();
            let text = if route % 8 >= 4 { text.to_ascii_lowercase() } else { text };
            hd.set_flags(Flags::from_str(&text).expect("flags text"));
            hd.set_z(z);
            hd.set_id(id);
            hd.set_rcode(rc);
            hd.set_opcode(op);
        }
    }
}
fn read_header(hd: Header, route: u32) -> [u8; 4] {
    match route % 3 {
        0 => {
            let s = hd.as_slice();
            [s[0], s[1], s[2], s[3]]
        }
        1 => flags_octets(hd.id(), hd.flags(), hd.opcode(), hd.rcode(), hd.z()),
        _ => {
            let mut f = Flags::new();
            f.qr = hd.qr();
            f.aa = hd.aa();
            f.tc = hd.tc();
            f.rd = hd.rd();
            f.ra = hd.ra();
            f.ad = hd.ad();
            f.cd = hd.cd();
            flags_octets(hd.id(), f, hd.opcode(), hd.rcode(), hd.z())
        }
    }
}

/// the owner name of a record in the representation the route selects: one
/// flat name, or a chain of a relative name and a suffix (ToRelativeName::
/// chain / chain_root; to_vec / to_bytes / to_cow of the relative part)
macro_rules! with_owner {
    ($it:expr, $route:expr, $owner:ident => $e:expr) => {{
        let labels: &Labels = &$it.name;
        let flat = name_of(labels).expect("valid owner");
        let sel = ($route / 68) % 6;
        if sel == 0 || labels.is_empty() {
            let $owner = flat;
            $e
        } else {
            // split after k labels; the relative part itself is a chain of
            // its first label and the rest
            let k = 1 + (($route / 408) as usize) % labels.len();
            let relname = |ls: &[Vec<u8>]| {
                let mut rel = vec![];
                for l in ls {
                    rel.push(l.len() as u8);
                    rel.extend_from_slice(l);
                }
                RelativeName::from_octets(rel).expect("relative part")
            };
            let rel = relname(&labels[..1]).chain(relname(&labels[1..k])).expect("chain");
            let suffix = name_of(&labels[k..].to_vec()).expect("suffix");
            assert!(!ToRelativeName::is_empty(&rel));
            match sel {
                1 | 2 => {
                    let $owner = ToRelativeName::to_cow(&rel).chain(suffix).expect("chain");
                    $e
                }
                3 | 4 if k == labels.len() => {
                    let $owner = ToRelativeName::to_bytes(&rel).chain_root();
                    $e
                }
                _ => {
                    let $owner = ToRelativeName::to_vec(&rel).chain(suffix).expect("chain");
                    $e
                }
            }
        }
    }};
}

/// can the library represent the item (does its record data parse)?
pub fn valid_item(it: &Item) -> bool {
    if name_of(&it.name).is_none() {
        return false;
    }
    if it.question {
        return true;
    }
    let plain = plain_rdata(it);
    if plain.len() > 65535 {
        return false;
    }
    let mut parser = Parser::from_ref(&plain[..]);
    match AllRecordData::<&[u8], ParsedName<&[u8]>>::parse_rdata(
        Rtype::from_int(it.rtype),
        &mut parser,
    ) {
        Ok(Some(_)) => parser.remaining() == 0,
        _ => false,
    }
}

/// the section-generic route: only the trait method is visible here
fn via_trait<T: Composer, S: RecordSectionBuilder<T>>(s: &mut S, r: impl ComposeRecord) -> bool {
    s.push(r).is_ok()
}

/// push one record through the entry point selected by `$route`;
/// `$pushref` says whether the builder has `push_ref`
macro_rules! push_routes {
    ($T:ty, $b:expr, $it:expr, $route:expr, $pushref:tt) => {{
        let it: &Item = $it;
        let plain = plain_rdata(it);
        let mut parser = Parser::from_ref(&plain[..]);
        let data = AllRecordData::<&[u8], ParsedName<&[u8]>>::parse_rdata(
            Rtype::from_int(it.rtype),
            &mut parser,
        )
        .expect("record data of the item parses")
        .expect("AllRecordData takes every type");
        assert!(parser.remaining() == 0, "record data of the item parsed completely");
        let class = Class::from_int(it.class);
        let secs = u32::from_be_bytes(it.ttl);
        let ttl = ttl_of(secs, $route);
        let is_in = it.class == 1;
        with_owner!(it, $route, owner => match $route % 17 {
            0 => $b.push(&(owner, class, ttl, data)).is_ok(),
            1 => $b.push(Record::new(owner, class, ttl, data)).is_ok(),
            2 => {
                let r = Record::new(owner, class, ttl, data);
                $b.push(&r).is_ok()
            }
            3 => $b.push((owner, class, secs, data)).is_ok(),
            4 if is_in => $b.push((owner, secs, data)).is_ok(),
            5 if is_in => $b.push((&owner, ttl, &data)).is_ok(),
            6 => via_trait::<$T, _>($b, (owner, class, ttl, data)),
            7 => {
                let r = Record::new(owner, class, ttl, data);
                via_trait::<$T, _>($b, &r)
            }
            8 => {
                let r = Record::new(owner, class, ttl, data);
                push_routes!(@pushref $T, $b, r, $pushref)
            }
            // the From impls of Record
            9 => $b.push(Record::from((owner, class, secs, data))).is_ok(),
            10 => $b.push(Record::from((owner, class, ttl, data))).is_ok(),
            11 if is_in => $b.push(Record::from((owner, secs, data))).is_ok(),
            // a record made for another class and TTL, then corrected
            12 => {
                let mut r = Record::new(owner, Class::CH, Ttl::from_secs(secs ^ 1), data);
                r.set_class(class);
                r.set_ttl(ttl);
                $b.push(r).is_ok()
            }
            // a record taken apart and put together again
            13 => {
                let r = Record::new(owner, class, ttl, data);
                let (o, d) = r.into_owner_and_data();
                $b.push((o, class, ttl, d)).is_ok()
            }
            14 => {
                let r = Record::new(owner, class, ttl, data);
                let r2: Record<_, _> = RecordHeader::new(r.owner(), r.rtype(), r.class(), r.ttl(), 0)
                    .into_record(r.data());
                $b.push(r2).is_ok()
            }
            15 => {
                let r = Record::new(&owner, class, ttl, &data);
                let r: &Record<_, _> = r.as_ref();
                via_trait::<$T, _>($b, r)
            }
            _ => $b.push((owner, class, ttl, data)).is_ok(),
        })
    }};
    (@pushref $T:ty, $b:expr, $r:expr, yes) => { $b.push_ref(&$r).is_ok() };
    (@pushref $T:ty, $b:expr, $r:expr, no) => { via_trait::<$T, _>($b, $r) };
}

/// compose the options of an OPT item through push_raw_option; the header
/// fields of the OPT record are set, read back through the getters of the
/// OptBuilder and what was read is written again (so that a getter that
/// reads the wrong place spoils the record)
fn raw_options<X: Composer>(
    o: &mut domain::base::message_builder::OptBuilder<'_, X>,
    class: u16,
    ttl: [u8; 4],
    rd: &[u8],
    rc: Option<u16>,
    route: u32,
) -> Result<(), X::AppendError> {
    let start_len = o.as_target().as_ref().len();
    o.set_udp_payload_size(class);
    o.set_version(ttl[1]);
    o.set_dnssec_ok(ttl[2] & 0x80 != 0);
    if let Some(rc) = rc {
        o.set_rcode(OptRcode::masked_from_int(rc));
    }
    if route % 2 == 1 {
        let (size, version, dok, rcode) = (o.udp_payload_size(), o.version(), o.dnssec_ok(), o.rcode());
        o.set_udp_payload_size(size ^ 0x5555);
        o.set_version(!version);
        o.set_dnssec_ok(!dok);
        o.set_dnssec_ok(dok);
        o.set_version(version);
        o.set_udp_payload_size(size);
        if rc.is_some() {
            o.set_rcode(OptRcode::masked_from_int(0xfff ^ rcode.to_int()));
            o.set_rcode(rcode);
        }
    }
    // the data is a sequence of options: code, length, value
    let mut p = 0;
    while p + 4 <= rd.len() {
        let code = u16::from_be_bytes([rd[p], rd[p + 1]]);
        let len = u16::from_be_bytes([rd[p + 2], rd[p + 3]]) as usize;
        let val = &rd[p + 4..p + 4 + len];
        o.push_raw_option(OptionCode::from_int(code), len as u16, |t| {
            // the value through the Compose impls of wire.rs where its
            // length fits one
            match (len, (route / 2) % 3) {
                (4, 1) => std::net::Ipv4Addr::new(val[0], val[1], val[2], val[3]).compose(t),
                (4, 2) => {
                    let a = std::net::Ipv4Addr::new(val[0], val[1], val[2], val[3]);
                    (&&a).compose(t)
                }
                (16, 1) | (16, 2) => {
                    let mut x = [0u8; 16];
                    x.copy_from_slice(val);
                    std::net::Ipv6Addr::from(x).compose(t)
                }
                (1, 1) | (1, 2) => (val[0] as i8).compose(t),
                _ => t.append_slice(val),
            }
        })?;
        p += 4 + len;
    }
    assert!(
        o.as_target().as_ref().len() == start_len + rd.len(),
        "OptBuilder::as_target does not show the options written"
    );
    Ok(())
}

impl<T: Tgt> Drive for Driver<T> {
    fn set_route(&mut self, route: u32) {
        self.route = route;
    }

    fn section(&self) -> u8 {
        match self.b {
            B::M(_) => 0,
            B::Q(_) => 1,
            B::An(_) => 2,
            B::Au(_) => 3,
            B::Ad(_) => 4,
            B::Gone => 5,
        }
    }

    fn goto(&mut self, s: u8) {
        let old = std::mem::replace(&mut self.b, B::Gone);
        self.b = if self.route % 2 == 0 {
            each!(old, b => match s {
                0 => B::M(b.builder()),
                1 => B::Q(b.question()),
                2 => B::An(b.answer()),
                3 => B::Au(b.authority()),
                _ => B::Ad(b.additional()),
            })
        } else {
            // the From impls (and the reflexive one of the standard library)
            each!(old, b => match s {
                0 => B::M(MessageBuilder::from(b)),
                1 => B::Q(QuestionBuilder::from(b)),
                2 => B::An(b.into()),
                3 => B::Au(AuthorityBuilder::from(b)),
                _ => B::Ad(b.into()),
            })
        };
    }

    fn rewind(&mut self) {
        match &mut self.b {
            B::Q(b) => b.rewind(),
            B::An(b) => b.rewind(),
            B::Au(b) => b.rewind(),
            B::Ad(b) => b.rewind(),
            _ => panic!("rewind without a section"),
        }
    }

    fn set_limit(&mut self, limit: Option<usize>) {
        macro_rules! on {
            ($m:expr) => {
                match limit {
                    Some(n) => $m.set_push_limit(n),
                    None => $m.clear_push_limit(),
                }
            };
        }
        let route = self.route % 3;
        match &mut self.b {
            B::M(b) => on!(b),
            B::Q(b) => match route { 0 => on!(b), 1 => on!(b.as_builder_mut()),
                                     _ => on!(AsMut::<MessageBuilder<T>>::as_mut(b)) },
            B::An(b) => match route { 0 => on!(b), 1 => on!(b.as_builder_mut()),
                                      _ => on!(AsMut::<MessageBuilder<T>>::as_mut(b)) },
            B::Au(b) => match route { 0 => on!(b), 1 => on!(b.as_builder_mut()),
                                      _ => on!(AsMut::<MessageBuilder<T>>::as_mut(b)) },
            B::Ad(b) => match route { 0 => on!(b), 1 => on!(b.as_builder_mut()),
                                      _ => on!(AsMut::<MessageBuilder<T>>::as_mut(b)) },
            B::Gone => panic!("builder used after finish"),
        }
        let got = each!(&self.b, b => b.push_limit());
        assert!(got == limit, "push_limit() does not return the limit that was set");
    }

    fn push(&mut self, it: &Item, rc: Option<u16>) -> bool {
        let route = self.route;
        match &mut self.b {
            B::Q(b) => {
                assert!(it.question);
                let n = name_of(&it.name).expect("valid qname");
                let t = Rtype::from_int(it.rtype);
                let c = Class::from_int(it.class);
                match route % 5 {
                    0 => b.push((n, t, c)).is_ok(),
                    1 => b.push(Question::new(n, t, c)).is_ok(),
                    2 => {
                        let q = Question::new(n, t, c);
                        b.push(&q).is_ok()
                    }
                    3 if it.class == 1 => b.push((n, t)).is_ok(),
                    _ => b.push(&(&n, t, c)).is_ok(),
                }
            }
            B::An(b) => push_routes!(T, b, it, route, yes),
            B::Au(b) => push_routes!(T, b, it, route, no),
            B::Ad(b) => {
                if it.rtype == 41 {
                    assert!(it.name.is_empty());
                    let rd = plain_rdata(it);
                    let ttl = it.ttl;
                    let class = it.class;
                    if route % 2 == 0 || rc.is_some() {
                        b.opt(|o| raw_options(o, class, ttl, &rd, rc, route / 2)).is_ok()
                    } else {
                        // OptBuilder::clone_from an OPT record read from another message
                        let mut scratch = MessageBuilder::new_vec().additional();
                        scratch
                            .opt(|o| raw_options(o, class, ttl, &rd, None, route / 2))
                            .expect("scratch OPT");
                        let msg = scratch.into_message();
                        let rec = msg.opt().expect("scratch message has an OPT record");
                        b.opt(|o| o.clone_from(&rec)).is_ok()
                    }
                } else {
                    push_routes!(T, b, it, route, no)
                }
            }
            _ => panic!("push without a section"),
        }
    }

    fn octets(&self) -> Vec<u8> {
        match self.route % 6 {
            0 => each!(&self.b, b => b.as_slice().to_vec()),
            1 => each!(&self.b, b => <_ as AsRef<[u8]>>::as_ref(b).to_vec()),
            2 => each!(&self.b, b => b.as_message().as_slice().to_vec()),
            // AsRef<Target> of every builder
            3 => each!(&self.b, b => <_ as AsRef<T>>::as_ref(b).as_ref().to_vec()),
            // AsRef<MessageBuilder<Target>> of the section builders
            4 => match &self.b {
                B::M(b) => b.as_target().as_ref().to_vec(),
                B::Q(b) => <_ as AsRef<MessageBuilder<T>>>::as_ref(b).as_slice().to_vec(),
                B::An(b) => <_ as AsRef<MessageBuilder<T>>>::as_ref(b).as_slice().to_vec(),
                B::Au(b) => <_ as AsRef<MessageBuilder<T>>>::as_ref(b).as_slice().to_vec(),
                B::Ad(b) => <_ as AsRef<MessageBuilder<T>>>::as_ref(b).as_slice().to_vec(),
                B::Gone => panic!("builder used after finish"),
            },
            _ => match &self.b {
                B::M(b) => b.as_slice().to_vec(),
                B::Q(b) => b.as_builder().as_slice().to_vec(),
                B::An(b) => b.as_builder().as_slice().to_vec(),
                B::Au(b) => b.as_builder().as_slice().to_vec(),
                B::Ad(b) => b.as_builder().as_slice().to_vec(),
                B::Gone => panic!("builder used after finish"),
            },
        }
    }
    fn len(&self) -> usize {
        each!(&self.b, b => b.as_slice().len())
    }
    fn counts(&self) -> [u16; 4] {
        let c = match self.route % 4 {
            0 | 2 => each!(&self.b, b => b.counts()),
            1 => each!(&self.b, b => b.as_message().header_counts()),
            _ => each!(&self.b, b => {
                // the header section of the octets read as a whole
                let o = b.as_slice();
                let hs = HeaderSection::for_message_slice(o);
                let c: &HeaderCounts = hs.as_ref();
                assert!(c.as_slice() == hs.counts().as_slice() && c.as_slice() == &o[4..12]);
                *c
            }),
        };
        if self.route % 4 == 2 {
            // the names the counts have in UPDATE messages
            [c.zocount(), c.prcount(), c.upcount(), c.adcount()]
        } else {
            [c.qdcount(), c.ancount(), c.nscount(), c.arcount()]
        }
    }
    fn set_header(&mut self, h: [u8; 4]) {
        let route = self.route;
        each!(&mut self.b, b => write_header(b.header_mut(), h, route));
    }
    fn header(&self) -> [u8; 4] {
        let route = self.route;
        match route % 5 {
            3 => each!(&self.b, b => {
                let hs = HeaderSection::for_message_slice(b.as_slice());
                let hd: &Header = hs.as_ref();
                assert!(hd.as_slice() == hs.header().as_slice());
                read_header(*hd, route / 5)
            }),
            4 => each!(&self.b, b => read_header(b.as_message().header(), route / 5)),
            _ => each!(&self.b, b => read_header(b.header(), route / 5)),
        }
    }
    fn start(&mut self, kind: &str, rq: [u8; 4], rc: u8, qs: &[Item]) -> &'static str {
        let old = std::mem::replace(&mut self.b, B::Gone);
        let b = match old {
            B::M(b) => b,
            _ => panic!("start_* on something that is not a message builder"),
        };
        if kind == "axfr" {
            let apex = name_of(&qs[0].name).expect("valid apex");
            return match b.request_axfr(apex) {
                Ok(a) => {
                    self.b = B::An(a);
                    "ok"
                }
                Err(_) => "gone",
            };
        }
        // the request: a message with the header octets and the questions
        let mut req = MessageBuilder::new_vec();
        write_header(req.header_mut(), rq, self.route / 3);
        let mut req = req.question();
        for q in qs {
            req.push((name_of(&q.name).expect("valid qname"), Rtype::from_int(q.rtype),
                      Class::from_int(q.class)))
                .expect("request question");
        }
        let rcode = Rcode::masked_from_int(rc);
        if kind == "answer" {
            let res = if self.route % 2 == 0 {
                b.start_answer(&req.into_message(), rcode)
            } else {
                b.start_answer(&req.as_message(), rcode)
            };
            match res {
                Ok(a) => {
                    self.b = B::An(a);
                    "ok"
                }
                Err(_) => "gone",
            }
        } else {
            self.b = B::An(if self.route % 2 == 0 {
                b.start_error(&req.into_message(), rcode)
            } else {
                b.start_error(&req.as_message(), rcode)
            });
            "-"
        }
    }
    fn stream(&self) -> Option<Vec<u8>> {
        each!(&self.b, b => b.as_target().stream_slice().map(|s| s.to_vec()))
    }
    fn finish(&mut self) -> (Vec<u8>, Option<Vec<u8>>) {
        let mut old = std::mem::replace(&mut self.b, B::Gone);
        match self.route % 5 {
            1 | 2 => match T::finish_via_message(old, self.route % 5 == 2) {
                Ok(octets) => return (octets, None),
                Err(b) => old = b,
            },
            3 => {
                if let B::An(b) = old {
                    let t = b.into_target();
                    return (t.as_ref().to_vec(), t.stream_slice().map(|s| s.to_vec()));
                }
            }
            4 => {
                // the target taken apart with the into_target methods
                let t: T = each!(old, b => b.finish());
                let seen = (t.as_ref().to_vec(), t.stream_slice().map(|s| s.to_vec()));
                let got = t.unwrap_octets();
                assert!(seen == got, "into_target gives other octets than the target showed");
                return got;
            }
            _ => {}
        }
        let t: T = each!(old, b => b.finish());
        (t.as_ref().to_vec(), t.stream_slice().map(|s| s.to_vec()))
    }
}

/// `alt`: the bare targets are made with the constructor of their own
/// (new_vec, new_bytes, new_stream_vec, new_stream_bytes) instead of from_target
pub fn make(comp: &str, tgt: &str, alt: bool) -> Box<dyn Drive> {
    macro_rules! with_comp {
        ($t:ty) => {
            match comp {
                "static" => Box::new(Driver::<StaticCompressor<$t>>::new(alt)) as Box<dyn Drive>,
                "tree" => Box::new(Driver::<TreeCompressor<$t>>::new(alt)),
                "hash" => Box::new(Driver::<HashCompressor<$t>>::new(alt)),
                _ => Box::new(Driver::<$t>::new(alt)),
            }
        };
    }
    match tgt {
        "bytes" => with_comp!(BytesMut),
        "array" => with_comp!(Array<512>),
        "stream" => with_comp!(StreamTarget<Vec<u8>>),
        "sbytes" => with_comp!(StreamTarget<BytesMut>),
        "sarray" => with_comp!(StreamTarget<Array<36>>),
        _ => with_comp!(Vec<u8>),
    }
}

pub fn cap_of(tgt: &str) -> usize {
    match tgt {
        "array" => 512,
        "stream" | "sbytes" => 65535,
        "sarray" => 34,
        _ => 1_000_000_000,
    }
}

/// what a message without compression must be: the header with the counts
/// followed by the plain encodings
pub fn plain_message(acc: &[(u8, Item)]) -> Vec<u8> {
    let mut v = vec![0u8; 12];
    for s in 1..=4u8 {
        let n = acc.iter().filter(|(x, _)| *x == s).count() as u16;
        let o = 2 + 2 * s as usize;
        v[o..o + 2].copy_from_slice(&n.to_be_bytes());
    }
    for (_, it) in acc {
        v.extend_from_slice(&plain_item(it));
    }
    v
}

/// bookkeeping of the accepted items when sections are left backwards
pub fn drop_above(acc: &mut Vec<(u8, Item)>, s: u8) {
    acc.retain(|(x, _)| *x <= s);
}

pub fn to_name_check<N: ToName>(_: &N) {}
