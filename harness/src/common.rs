//! Case / trace I/O shared by all executors and recorders.
//!
//! S->I executors read ndjson cases `{"in":…, "exp":…, "dev":{"D_x":…}}` on
//! stdin, compute the observation for each input with the real library (a
//! panic is an observation: `{"panic": true}`), and classify:
//! observed = exp → pass; observed = dev[D] for an *open* deviation D →
//! known finding; anything else → FAIL.  Output: `FAIL {...}` / `KNOWN {...}`
//! lines (bounded) and one `SUMMARY {...}` line.

use serde_json::{json, Map, Value};
use std::collections::BTreeMap;
use std::io::{BufRead, Write};
use std::panic::{catch_unwind, AssertUnwindSafe};

pub fn quiet_panics() {
    std::panic::set_hook(Box::new(|_| {}));
}

pub fn seed() -> u64 {
    std::env::var("VERIF_SEED")
        .ok()
        .and_then(|s| s.parse().ok())
        .unwrap_or(1)
}

pub fn tier_thorough() -> bool {
    std::env::var("VERIF_TIER").map(|s| s == "thorough").unwrap_or(false)
}

pub fn arg_value(name: &str) -> Option<String> {
    let args: Vec<String> = std::env::args().collect();
    for i in 0..args.len() {
        if args[i] == name {
            return args.get(i + 1).cloned();
        }
    }
    None
}

pub fn has_flag(name: &str) -> bool {
    std::env::args().any(|a| a == name)
}

pub fn open_devs() -> Vec<String> {
    arg_value("--open-devs")
        .map(|s| {
            s.split(',')
                .filter(|x| !x.is_empty())
                .map(|x| x.to_string())
                .collect()
        })
        .unwrap_or_default()
}

/// JSON array of small ints -> bytes.
pub fn bytes_of(v: &Value) -> Vec<u8> {
    v.as_array()
        .map(|a| a.iter().map(|x| x.as_u64().unwrap_or(0) as u8).collect())
        .unwrap_or_default()
}

pub fn json_bytes(b: &[u8]) -> Value {
    Value::Array(b.iter().map(|x| json!(*x)).collect())
}

/// TLC prints strings; text inputs in cases are arrays of code points so
/// that no escaping layer is involved.
pub fn string_of(v: &Value) -> String {
    match v {
        Value::String(s) => s.clone(),
        Value::Array(a) => a
            .iter()
            .map(|x| char::from_u32(x.as_u64().unwrap_or(63) as u32).unwrap_or('?'))
            .collect(),
        _ => String::new(),
    }
}

pub fn panic_msg(e: Box<dyn std::any::Any + Send>) -> String {
    if let Some(s) = e.downcast_ref::<&str>() {
        s.to_string()
    } else if let Some(s) = e.downcast_ref::<String>() {
        s.clone()
    } else {
        "panic".to_string()
    }
}

/// Run `f`, turning a panic into the observation `{"panic": true}`.
pub fn observe<F: FnOnce() -> Value>(f: F) -> Value {
    match catch_unwind(AssertUnwindSafe(f)) {
        Ok(v) => v,
        Err(_) => json!({"panic": true}),
    }
}

/// Normalise numbers so that `1` and `1.0` etc. do not matter and object key
/// order is irrelevant (serde_json::Value equality already ignores order).
pub fn same(a: &Value, b: &Value) -> bool {
    a == b
}

pub struct Summary {
    pub n: u64,
    pub pass: u64,
    pub fail: u64,
    pub panics: u64,
    pub known: BTreeMap<String, u64>,
    pub samples: Vec<Value>,
}

/// The generic S->I loop.
pub fn run_cases<F: FnMut(&Value) -> Value>(mut f: F) {
    quiet_panics();
    let devs = open_devs();
    let stdin = std::io::stdin();
    let stdout = std::io::stdout();
    let mut out = stdout.lock();
    let mut s = Summary {
        n: 0,
        pass: 0,
        fail: 0,
        panics: 0,
        known: BTreeMap::new(),
        samples: vec![],
    };
    let perturb = has_flag("--selftest-perturb");
    for line in stdin.lock().lines() {
        let line = match line {
            Ok(l) => l,
            Err(_) => break,
        };
        if line.trim().is_empty() {
            continue;
        }
        let case: Value = match serde_json::from_str(&line) {
            Ok(v) => v,
            Err(e) => {
                let _ = writeln!(out, "BADCASE {} {}", e, &line[..line.len().min(200)]);
                continue;
            }
        };
        s.n += 1;
        let input = &case["in"];
        let obs = match catch_unwind(AssertUnwindSafe(|| f(input))) {
            Ok(v) => v,
            Err(_) => {
                s.panics += 1;
                json!({"panic": true})
            }
        };
        if obs.get("panic").is_some() && obs.as_object().map(|o| o.len()) == Some(1) {
            // counted above when it came from catch_unwind; executors that
            // catch themselves report the same shape
        }
        let mut exp = case["exp"].clone();
        if perturb && s.n == 1 {
            exp = json!({"perturbed": true});
        }
        if same(&obs, &exp) {
            s.pass += 1;
            if s.samples.len() < 3 {
                s.samples.push(json!({"in": input, "exp": exp, "obs": obs}));
            }
            continue;
        }
        let mut matched = None;
        if let Some(Value::Object(dm)) = case.get("dev") {
            for (name, dexp) in dm.iter() {
                if same(&obs, dexp) {
                    matched = Some(name.clone());
                    if devs.contains(name) {
                        break;
                    }
                }
            }
        }
        match matched {
            Some(name) if devs.contains(&name) => {
                let c = s.known.entry(name.clone()).or_insert(0);
                *c += 1;
                if *c <= 1 {
                    let _ = writeln!(
                        out,
                        "KNOWN {}",
                        json!({"dev": name, "case": {"in": input, "exp": exp, "obs": obs}})
                    );
                }
            }
            other => {
                s.fail += 1;
                if s.fail <= 5 {
                    let _ = writeln!(
                        out,
                        "FAIL {}",
                        json!({"in": input, "exp": exp, "obs": obs, "matches_unlisted_dev": other})
                    );
                }
            }
        }
    }
    let known: Map<String, Value> =
        s.known.iter().map(|(k, v)| (k.clone(), json!(*v))).collect();
    let _ = writeln!(
        out,
        "SUMMARY {}",
        json!({"n": s.n, "pass": s.pass, "fail": s.fail, "panics": s.panics,
               "known": known, "samples": s.samples})
    );
}

/// ndjson trace writer for I->S recorders.
pub struct TraceWriter {
    f: std::io::BufWriter<std::fs::File>,
    pub n: u64,
}

impl TraceWriter {
    pub fn create(path: &str) -> Self {
        TraceWriter {
            f: std::io::BufWriter::new(std::fs::File::create(path).expect("create trace")),
            n: 0,
        }
    }
    pub fn event(&mut self, v: Value) {
        let _ = writeln!(self.f, "{}", v);
        self.n += 1;
    }
    pub fn finish(mut self) -> u64 {
        let _ = self.f.flush();
        self.n
    }
}

/// Small deterministic PRNG (xorshift*), independent of the rand crate's API.
pub struct Rng(pub u64);
impl Rng {
    pub fn new(seed: u64) -> Self {
        Rng(seed.wrapping_mul(0x9E3779B97F4A7C15) | 1)
    }
    pub fn next(&mut self) -> u64 {
        let mut x = self.0;
        x ^= x >> 12;
        x ^= x << 25;
        x ^= x >> 27;
        self.0 = x;
        x.wrapping_mul(0x2545F4914F6CDD1D)
    }
    pub fn below(&mut self, n: u64) -> u64 {
        if n == 0 { 0 } else { self.next() % n }
    }
    pub fn pick<'a, T>(&mut self, xs: &'a [T]) -> &'a T {
        &xs[self.below(xs.len() as u64) as usize]
    }
    pub fn chance(&mut self, num: u64, den: u64) -> bool {
        self.below(den) < num
    }
    pub fn bytes(&mut self, n: usize) -> Vec<u8> {
        (0..n).map(|_| self.next() as u8).collect()
    }
}
