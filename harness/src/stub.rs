//! X04 harness support: scripted upstream servers for the stub resolver.
//!
//! Two kinds of upstream:
//! * `MockConn` — a `SendRequest` implementation injected with
//!   `StubResolver::add_connection` (tokio clock paused, so the RTT timers
//!   of `net::client::redundant` and the resolver's own `options.timeout`
//!   are exact and deterministic);
//! * `SockServer` — a real UDP + TCP listener pair on 127.0.0.1 (ephemeral
//!   port) answering immediately according to a script; used for the part
//!   of the machine that is hard-wired to sockets (`use_vc`,
//!   `Transport::Tcp`, UDP -> TCP on truncation).
//!
//! Included by `replay_stub` / `record_stub` with `#[path]`.

#![allow(dead_code)]

use bytes::Bytes;
use domain::base::iana::{Class, Rcode, Rtype};
use domain::base::message_builder::MessageBuilder;
use domain::base::name::{Name, RelativeName};
use domain::base::{Message, Ttl};
use domain::net::client::request::{
    ComposeRequest, Error, GetResponse, RequestMessage, SendRequest,
};
use domain::rdata::{Aaaa, A};
use domain::resolv::stub::conf::{ResolvConf, ServerConf, Transport};
use domain::resolv::stub::StubResolver;
use serde_json::{json, Value};
use std::future::Future;
use std::net::SocketAddr;
use std::pin::Pin;
use std::str::FromStr;
use std::sync::{Arc, Mutex};
use std::time::Duration;

/// One model tick = 10 ms.
pub const TICK_MS: u64 = 10;
/// A latency that is never reached.
pub const NEVER: i64 = 9999;

//------------ names ----------------------------------------------------------

/// The caller's relative name with `dots` dots: "h", "h.i", "h.i.j", ...
pub fn rel_name(dots: usize) -> RelativeName<Vec<u8>> {
    let labels = ["h", "i", "j", "k", "l"];
    let s = labels[..=dots.min(4)].join(".");
    RelativeName::<Vec<u8>>::from_str(&s).unwrap()
}

/// Search suffix number `k`: 0 is the root, k > 0 is "s<k>.test.".
pub fn suffix_str(k: i64) -> String {
    if k == 0 {
        ".".into()
    } else {
        format!("s{}.test.", k)
    }
}

/// A suffix so long (254 octets) that no name can be put in front of it.
pub fn suffix_str_long(k: i64) -> String {
    let l63 = "a".repeat(63);
    format!("s{}.{}.{}.{}.{}.test.", k, l63, l63, l63, "a".repeat(52))
}

/// The absolute name of candidate `k` for the caller's name.
pub fn cand_name(dots: usize, k: i64) -> String {
    let rel = format!("{}", rel_name(dots));
    if k == 0 {
        format!("{}.", rel)
    } else {
        format!("{}.{}", rel, suffix_str(k))
    }
}

/// Absolute name (as displayed, lower case, with trailing dot) -> candidate.
pub fn cand_of(name: &str, dots: usize) -> i64 {
    let rel = format!("{}", rel_name(dots));
    let mut n = name.to_string();
    if !n.ends_with('.') {
        n.push('.');
    }
    if n == format!("{}.", rel) {
        return 0;
    }
    let pre = format!("{}.s", rel);
    if let Some(rest) = n.strip_prefix(&pre) {
        if let Some(num) = rest.strip_suffix(".test.") {
            if let Ok(k) = num.parse::<i64>() {
                return k;
            }
        }
    }
    -1
}

//------------ outcomes -------------------------------------------------------

/// What a scripted server does with one request.
#[derive(Clone, Debug, PartialEq)]
pub enum Out {
    Data,
    NoData,
    Nx,
    ServFail,
    Refused,
    FormErr,
    /// NOERROR, TC bit set, no records.
    Tc,
    /// Transport error (mock) / closed port (socket).
    Err,
}

impl Out {
    pub fn parse(s: &str) -> Out {
        match s {
            "Data" => Out::Data,
            "NoData" => Out::NoData,
            "NX" => Out::Nx,
            "SF" => Out::ServFail,
            "REF" => Out::Refused,
            "FE" => Out::FormErr,
            "TC" => Out::Tc,
            "Err" => Out::Err,
            _ => panic!("unknown outcome {}", s),
        }
    }
    pub fn name(&self) -> &'static str {
        match self {
            Out::Data => "Data",
            Out::NoData => "NoData",
            Out::Nx => "NX",
            Out::ServFail => "SF",
            Out::Refused => "REF",
            Out::FormErr => "FE",
            Out::Tc => "TC",
            Out::Err => "Err",
        }
    }
    pub fn all() -> [Out; 8] {
        [Out::Data, Out::NoData, Out::Nx, Out::ServFail, Out::Refused, Out::FormErr, Out::Tc, Out::Err]
    }
}

/// The response a scripted server gives: the answer record carries the
/// server number (and the transport: 1 mock, 2 udp, 3 tcp) so that the
/// provenance of a returned answer is observable.
pub fn build_response(req: &Message<[u8]>, out: &Out, server: usize, via: u8) -> Vec<u8> {
    let rcode = match out {
        Out::Data | Out::NoData | Out::Tc => Rcode::NOERROR,
        Out::Nx => Rcode::NXDOMAIN,
        Out::ServFail => Rcode::SERVFAIL,
        Out::Refused => Rcode::REFUSED,
        Out::FormErr => Rcode::FORMERR,
        Out::Err => Rcode::NOERROR,
    };
    let mut ab = MessageBuilder::new_vec().start_answer(req, rcode).expect("start_answer");
    ab.header_mut().set_ra(true);
    if *out == Out::Tc {
        ab.header_mut().set_tc(true);
    }
    if *out == Out::Data {
        let q = req.first_question().expect("question");
        let owner: Name<Vec<u8>> = q.qname().to_name();
        let ttl = Ttl::from_secs(60);
        if q.qtype() == Rtype::AAAA {
            ab.push((owner, Class::IN, ttl, Aaaa::new([0x2001, 0xdb8, 0, 0, 0, 0, via as u16, server as u16].into())))
                .expect("push");
        } else {
            ab.push((owner, Class::IN, ttl, A::new([192, 0, via, server as u8].into())))
                .expect("push");
        }
    }
    // provenance marker (server, transport) in the additional section of
    // every response, where it does not influence how the resolver or the
    // lookups classify the answer
    let mut ad = ab.additional();
    let marker = Name::<Vec<u8>>::from_str("marker.invalid.").unwrap();
    ad.push((marker, Class::IN, Ttl::from_secs(1), A::new([10, 0, via, server as u8].into())))
        .expect("push");
    ad.finish()
}

use domain::base::name::ToName;

/// The abstract content of a response: outcome class, and for Data the
/// server / transport that produced it.
pub fn abstract_response(m: &Message<Bytes>) -> Value {
    let h = m.header();
    let an = m.header_counts().ancount();
    let class = if h.tc() {
        "TC"
    } else if h.rcode() == Rcode::NOERROR {
        if an > 0 { "Data" } else { "NoData" }
    } else if h.rcode() == Rcode::NXDOMAIN {
        "NX"
    } else if h.rcode() == Rcode::SERVFAIL {
        "SF"
    } else if h.rcode() == Rcode::REFUSED {
        "REF"
    } else if h.rcode() == Rcode::FORMERR {
        "FE"
    } else {
        "other"
    };
    let mut from = -1i64;
    let mut via = 0i64;
    if let Ok(sec) = m.additional() {
        for r in sec.limit_to::<A>().flatten() {
            let o = r.data().addr().octets();
            if o[0] == 10 {
                via = o[2] as i64;
                from = o[3] as i64;
            }
        }
    }
    let qn = m
        .first_question()
        .map(|q| format!("{}", q.qname()))
        .unwrap_or_default();
    json!({"out": class, "from": from, "via": via, "qname": qn})
}

pub fn io_err_kind(e: &std::io::Error) -> &'static str {
    if e.kind() == std::io::ErrorKind::TimedOut {
        "TimedOut"
    } else {
        "Other"
    }
}

//------------ request log ----------------------------------------------------

#[derive(Clone, Default)]
pub struct Log(pub Arc<Mutex<Vec<Value>>>);

impl Log {
    pub fn push(&self, v: Value) {
        self.0.lock().unwrap().push(v);
    }
    pub fn take(&self) -> Vec<Value> {
        std::mem::take(&mut *self.0.lock().unwrap())
    }
    pub fn len(&self) -> usize {
        self.0.lock().unwrap().len()
    }
}

//------------ mock connection ------------------------------------------------

/// Script of a mock server: (qname, qtype) -> (outcome, latency in ticks).
pub type ScriptFn = Arc<dyn Fn(&str, Rtype) -> (Out, i64) + Send + Sync>;

pub struct MockConn {
    pub server: usize,
    pub script: ScriptFn,
    pub log: Log,
    pub t0: tokio::time::Instant,
}

impl SendRequest<RequestMessage<Vec<u8>>> for MockConn {
    fn send_request(&self, request_msg: RequestMessage<Vec<u8>>) -> Box<dyn GetResponse + Send + Sync> {
        let msg = request_msg.to_message().expect("to_message");
        let q = msg.first_question().expect("question");
        let qname = format!("{}", q.qname());
        let qtype = q.qtype();
        let (out, lat) = (self.script)(&qname, qtype);
        let t = self.t0.elapsed().as_millis() as u64;
        self.log.push(json!({
            "s": self.server, "qname": qname,
            "qtype": if qtype == Rtype::AAAA { "AAAA" } else if qtype == Rtype::A { "A" } else { "other" },
            "t": t, "opt": msg.opt().is_some(),
        }));
        let server = self.server;
        let fut = async move {
            if lat >= NEVER {
                std::future::pending::<()>().await;
            }
            tokio::time::sleep(Duration::from_millis(lat as u64 * TICK_MS)).await;
            if out == Out::Err {
                return Err(Error::ConnectionClosed);
            }
            let bytes = build_response(msg.for_slice(), &out, server, 1);
            Ok(Message::from_octets(Bytes::from(bytes)).expect("response"))
        };
        Box::new(MockReq { fut: Box::pin(fut) })
    }
}

pub struct MockReq {
    fut: Pin<Box<dyn Future<Output = Result<Message<Bytes>, Error>> + Send + Sync>>,
}

impl std::fmt::Debug for MockReq {
    fn fmt(&self, f: &mut std::fmt::Formatter<'_>) -> std::fmt::Result {
        f.write_str("MockReq")
    }
}

impl GetResponse for MockReq {
    fn get_response(
        &mut self,
    ) -> Pin<Box<dyn Future<Output = Result<Message<Bytes>, Error>> + Send + Sync + '_>> {
        Box::pin(async move { (&mut self.fut).await })
    }
}

/// A resolver without configured servers and `ns` injected mock servers.
pub async fn mock_resolver(
    conf: ResolvConf,
    ns: usize,
    script: Arc<dyn Fn(usize, &str, Rtype) -> (Out, i64) + Send + Sync>,
    log: &Log,
    t0: tokio::time::Instant,
) -> StubResolver {
    let resolver = StubResolver::from_conf(conf);
    for s in 0..ns {
        let sc = script.clone();
        let f: ScriptFn = Arc::new(move |n: &str, t: Rtype| sc(s, n, t));
        resolver
            .add_connection(Box::new(MockConn { server: s, script: f, log: log.clone(), t0 }))
            .await;
    }
    resolver
}

pub fn paused_runtime() -> tokio::runtime::Runtime {
    tokio::runtime::Builder::new_current_thread()
        .enable_time()
        .start_paused(true)
        .build()
        .expect("runtime")
}

pub fn io_runtime() -> tokio::runtime::Runtime {
    tokio::runtime::Builder::new_current_thread()
        .enable_all()
        .build()
        .expect("runtime")
}

//------------ socket servers -------------------------------------------------

/// A scripted name server on 127.0.0.1: UDP and TCP on the same port.
pub struct SockServer {
    pub addr: SocketAddr,
    tasks: Vec<tokio::task::JoinHandle<()>>,
}

impl Drop for SockServer {
    fn drop(&mut self) {
        for t in &self.tasks {
            t.abort();
        }
    }
}

fn log_sock(log: &Log, server: usize, tr: &str, req: &Message<[u8]>) {
    let (qname, qtype) = match req.first_question() {
        Some(q) => (format!("{}", q.qname()), q.qtype()),
        None => ("?".into(), Rtype::A),
    };
    log.push(json!({
        "s": server, "tr": tr, "qname": qname,
        "qtype": if qtype == Rtype::AAAA { "AAAA" } else if qtype == Rtype::A { "A" } else { "other" },
        "opt": req.opt().is_some(),
    }));
}

/// Start server number `server`.  `udp` / `tcp`: outcome per transport;
/// `Out::Err` means the port is closed for that transport.
pub async fn sock_server(server: usize, udp: Out, tcp: Out, log: &Log) -> std::io::Result<SockServer> {
    use tokio::io::{AsyncReadExt, AsyncWriteExt};
    use tokio::net::{TcpListener, UdpSocket};
    for _ in 0..50 {
        // pick a port that is free for both transports
        let probe = std::net::TcpListener::bind("127.0.0.1:0")?;
        let addr = probe.local_addr()?;
        let std_udp = match std::net::UdpSocket::bind(addr) {
            Ok(u) => u,
            Err(_) => continue,
        };
        let mut tasks = Vec::new();
        if tcp == Out::Err {
            drop(probe);
        } else {
            probe.set_nonblocking(true)?;
            let listener = TcpListener::from_std(probe)?;
            let log = log.clone();
            let tcp = tcp.clone();
            tasks.push(tokio::spawn(async move {
                loop {
                    let (mut sock, _) = match listener.accept().await {
                        Ok(x) => x,
                        Err(_) => return,
                    };
                    let log = log.clone();
                    let tcp = tcp.clone();
                    tokio::spawn(async move {
                        loop {
                            let mut lenb = [0u8; 2];
                            if sock.read_exact(&mut lenb).await.is_err() {
                                return;
                            }
                            let len = u16::from_be_bytes(lenb) as usize;
                            let mut buf = vec![0u8; len];
                            if sock.read_exact(&mut buf).await.is_err() {
                                return;
                            }
                            let req = match Message::from_slice(&buf) {
                                Ok(m) => m,
                                Err(_) => return,
                            };
                            log_sock(&log, server, "tcp", req);
                            let resp = build_response(req, &tcp, server, 3);
                            let mut out = (resp.len() as u16).to_be_bytes().to_vec();
                            out.extend_from_slice(&resp);
                            if sock.write_all(&out).await.is_err() {
                                return;
                            }
                        }
                    });
                }
            }));
        }
        if udp == Out::Err {
            drop(std_udp);
        } else {
            std_udp.set_nonblocking(true)?;
            let sock = UdpSocket::from_std(std_udp)?;
            let log = log.clone();
            let udp = udp.clone();
            tasks.push(tokio::spawn(async move {
                let mut buf = vec![0u8; 4096];
                loop {
                    let (len, peer) = match sock.recv_from(&mut buf).await {
                        Ok(x) => x,
                        Err(_) => continue,
                    };
                    let req = match Message::from_slice(&buf[..len]) {
                        Ok(m) => m,
                        Err(_) => continue,
                    };
                    log_sock(&log, server, "udp", req);
                    let resp = build_response(req, &udp, server, 2);
                    let _ = sock.send_to(&resp, peer).await;
                }
            }));
        }
        return Ok(SockServer { addr, tasks });
    }
    Err(std::io::Error::other("no free port pair"))
}

pub fn server_conf(addr: SocketAddr, tcp_only: bool) -> ServerConf {
    ServerConf::new(addr, if tcp_only { Transport::Tcp } else { Transport::UdpTcp })
}
