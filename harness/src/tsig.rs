//! Shared pieces of the C11 (TSIG) bindings: hand-assembled DNS messages, an
//! independent TSIG RR codec, the term evaluator for the symbolic MACs of
//! spec/Tsig.tla (ring::hmac, nothing of domain::tsig), result classifiers.
#![allow(dead_code)]

use domain::base::iana::Rcode;
use domain::base::message_builder::AdditionalBuilder;
use domain::base::{MessageBuilder, Name, Rtype};
use domain::rdata::A;
use domain::tsig::{Algorithm, Key, KeyName, ValidationError};
use ring::hmac;
use serde_json::Value;
use std::str::FromStr;

pub const SECRET: &[u8] = b"\x01\x02\x03\x04\x05\x06\x07\x08\x09\x0a\x0b\x0c\x0d\x0e\x0f\x10c11-shared-secret";

pub const KEYNAME_C: &str = "TsIg.Key.";
pub const KEYNAME_S: &str = "tsig.key.";

pub fn name_wire(s: &str) -> Vec<u8> {
    let mut v = vec![];
    for l in s.split('.') {
        if l.is_empty() {
            continue;
        }
        v.push(l.len() as u8);
        v.extend_from_slice(l.as_bytes());
    }
    v.push(0);
    v
}

pub fn alg_wire(a: &str) -> Vec<u8> {
    name_wire(match a {
        "sha1" => "hmac-sha1.",
        "sha256" => "hmac-sha256.",
        "sha384" => "hmac-sha384.",
        "sha512" => "hmac-sha512.",
        _ => "hmac-md5.",
    })
}

pub fn lib_alg(a: &str) -> Algorithm {
    match a {
        "sha1" => Algorithm::Sha1,
        "sha256" => Algorithm::Sha256,
        "sha384" => Algorithm::Sha384,
        _ => Algorithm::Sha512,
    }
}

pub fn ring_alg(a: &str) -> hmac::Algorithm {
    match a {
        "sha1" => hmac::HMAC_SHA1_FOR_LEGACY_USE_ONLY,
        "sha256" => hmac::HMAC_SHA256,
        "sha384" => hmac::HMAC_SHA384,
        _ => hmac::HMAC_SHA512,
    }
}

/// The independent MAC: HMAC(alg, secret, data), untruncated.
pub fn ref_hmac(alg: &str, secret: &[u8], data: &[u8]) -> Vec<u8> {
    hmac::sign(&hmac::Key::new(ring_alg(alg), secret), data).as_ref().to_vec()
}

pub fn lib_key(name: &str, alg: &str, secret: &[u8], min: usize, slen: usize) -> Key {
    Key::new(lib_alg(alg), secret, KeyName::from_str(name).unwrap(), Some(min), Some(slen))
        .expect("key bounds")
}

//------------ messages ------------------------------------------------------

pub const QNAME: &str = "example.com.";

fn a_rr(owner: &str, ttl: u32, addr: [u8; 4]) -> Vec<u8> {
    let mut v = name_wire(owner);
    v.extend_from_slice(&[0, 1, 0, 1]);
    v.extend_from_slice(&ttl.to_be_bytes());
    v.extend_from_slice(&[0, 4]);
    v.extend_from_slice(&addr);
    v
}

/// section counts QD AN NS of body variant b
pub fn body_counts(b: u64) -> [u8; 6] {
    match b {
        1 | 2 => [0, 1, 0, 0, 0, 0],
        _ => [0, 1, 0, 1, 0, 0],
    }
}
pub fn body_ar(b: u64) -> u16 {
    if b == 2 || b == 4 { 1 } else { 0 }
}
/// everything after the header (question, answer, own additional records)
pub fn body_octets(b: u64) -> Vec<u8> {
    let mut v = name_wire(QNAME);
    v.extend_from_slice(&[0, 252, 0, 1]); // AXFR IN
    if b >= 3 {
        v.extend(a_rr(QNAME, 300, [10, 0, 0, b as u8]));
    }
    if b == 2 || b == 4 {
        v.extend(a_rr("ns.example.com.", 3600, [192, 0, 2, b as u8]));
    }
    v
}
pub fn extra_rec() -> Vec<u8> {
    a_rr("x.", 0, [1, 2, 3, 4])
}
pub fn msg_octets(id: u16, f1: u8, f2: u8, b: u64) -> Vec<u8> {
    let mut v = id.to_be_bytes().to_vec();
    v.push(f1);
    v.push(f2);
    v.extend_from_slice(&body_counts(b));
    v.extend_from_slice(&body_ar(b).to_be_bytes());
    v.extend(body_octets(b));
    v
}

/// The same message through the library's builder (the signing calls want an
/// AdditionalBuilder); must give exactly the hand-assembled octets.
pub fn msg_builder(id: u16, f1: u8, f2: u8, b: u64) -> Result<AdditionalBuilder<Vec<u8>>, String> {
    let mut mb = MessageBuilder::new_vec();
    {
        let h = mb.header_mut();
        h.set_id(id);
        h.set_qr(f1 & 0x80 != 0);
        h.set_rcode(Rcode::masked_from_int(f2 & 0x0f));
    }
    let mut q = mb.question();
    let qn = Name::<Vec<u8>>::from_str(QNAME).unwrap();
    q.push((qn.clone(), Rtype::AXFR)).map_err(|e| e.to_string())?;
    let mut an = q.answer();
    if b >= 3 {
        an.push((qn.clone(), 300, A::from_octets(10, 0, 0, b as u8))).map_err(|e| e.to_string())?;
    }
    let mut ad = an.additional();
    if b == 2 || b == 4 {
        ad.push((Name::<Vec<u8>>::from_str("ns.example.com.").unwrap(), 3600,
                 A::from_octets(192, 0, 2, b as u8))).map_err(|e| e.to_string())?;
    }
    if ad.as_slice() != &msg_octets(id, f1, f2, b)[..] {
        return Err(format!("builder octets differ from hand-assembled message b={}", b));
    }
    Ok(ad)
}

pub fn get_ar(w: &[u8]) -> u16 {
    u16::from_be_bytes([w[10], w[11]])
}
pub fn set_ar(w: &mut [u8], n: u16) {
    w[10..12].copy_from_slice(&n.to_be_bytes());
}
pub fn get_id(w: &[u8]) -> u16 {
    u16::from_be_bytes([w[0], w[1]])
}
pub fn set_id(w: &mut [u8], n: u16) {
    w[0..2].copy_from_slice(&n.to_be_bytes());
}

//------------ TSIG RR codec (independent of domain::rdata::tsig) -------------

/// What an adversary can do to the structure of the record (spec/Tsig.tla,
/// fields cls / ttl / rdx / rdadj / oladj of a TSIG record).
#[derive(Clone, Debug, PartialEq)]
pub struct Shape {
    /// CLASS and TTL of the RR (ANY, 0)
    pub cls: u16,
    pub ttl: u32,
    /// octets behind Other Data inside the RDATA
    pub rdx: Vec<u8>,
    /// what RDLENGTH says more (less) than the RDATA has
    pub rdadj: i32,
    /// what Other Len says more than there is other-data
    pub oladj: u16,
}
impl Default for Shape {
    fn default() -> Self {
        Shape { cls: 255, ttl: 0, rdx: vec![], rdadj: 0, oladj: 0 }
    }
}

#[derive(Clone, Debug, PartialEq)]
pub struct TsigRr {
    pub x: Shape,
    /// owner and algorithm name as on the wire (possibly ending in a compression pointer)
    pub name: Vec<u8>,
    pub alg: Vec<u8>,
    pub time: u64,
    pub fudge: u16,
    pub mac: Vec<u8>,
    pub oid: u16,
    pub err: u16,
    pub other: Vec<u8>,
}

pub fn u48(t: u64) -> [u8; 6] {
    let b = t.to_be_bytes();
    [b[2], b[3], b[4], b[5], b[6], b[7]]
}

/// The name at *p, expanded (RFC 1035 4.1.4: pointers to earlier positions
/// only); *p ends up behind the name field.
fn take_name(w: &[u8], p: &mut usize) -> Option<Vec<u8>> {
    let mut out = vec![];
    let mut q = *p;
    let mut jumped = false;
    loop {
        let l = *w.get(q)? as usize;
        if l >= 192 {
            let t = ((l - 192) << 8) | *w.get(q + 1)? as usize;
            if t >= q {
                return None;
            }
            if !jumped {
                *p = q + 2;
                jumped = true;
            }
            q = t;
            continue;
        }
        if l > 63 {
            return None;
        }
        out.extend_from_slice(w.get(q..q + 1 + l)?);
        q += 1 + l;
        if l == 0 {
            break;
        }
    }
    if !jumped {
        *p = q;
    }
    Some(out)
}

impl TsigRr {
    pub fn rdata(&self) -> Vec<u8> {
        let mut r = self.alg.clone();
        r.extend_from_slice(&u48(self.time));
        r.extend_from_slice(&self.fudge.to_be_bytes());
        r.extend_from_slice(&(self.mac.len() as u16).to_be_bytes());
        r.extend_from_slice(&self.mac);
        r.extend_from_slice(&self.oid.to_be_bytes());
        r.extend_from_slice(&self.err.to_be_bytes());
        r.extend_from_slice(&(self.other.len() as u16 + self.x.oladj).to_be_bytes());
        r.extend_from_slice(&self.other);
        r.extend_from_slice(&self.x.rdx);
        r
    }
    pub fn encode(&self) -> Vec<u8> {
        let rd = self.rdata();
        let mut v = self.name.clone();
        v.extend_from_slice(&[0, 250]);
        v.extend_from_slice(&self.x.cls.to_be_bytes());
        v.extend_from_slice(&self.x.ttl.to_be_bytes());
        v.extend_from_slice(&((rd.len() as i32 + self.x.rdadj) as u16).to_be_bytes());
        v.extend(rd);
        v
    }
    /// Parse a well-formed TSIG RR (any CLASS / TTL) that starts at `off`;
    /// names are returned expanded.
    pub fn parse_at(w: &[u8], off: usize) -> Option<(TsigRr, usize)> {
        let mut p = off;
        let name = take_name(w, &mut p)?;
        if w.get(p..p + 2)? != [0, 250] {
            return None;
        }
        let cls = u16::from_be_bytes([*w.get(p + 2)?, *w.get(p + 3)?]);
        let ttl = u32::from_be_bytes([*w.get(p + 4)?, *w.get(p + 5)?, *w.get(p + 6)?, *w.get(p + 7)?]);
        p += 8;
        let rdlen = u16::from_be_bytes([*w.get(p)?, *w.get(p + 1)?]) as usize;
        p += 2;
        let end = p + rdlen;
        if end > w.len() {
            return None;
        }
        let alg = take_name(w, &mut p)?;
        let g = |p: usize, n: usize| -> Option<&[u8]> { w.get(p..p + n) };
        let t = g(p, 6)?;
        let time = t.iter().fold(0u64, |a, x| (a << 8) | *x as u64);
        p += 6;
        let fudge = u16::from_be_bytes([g(p, 2)?[0], g(p, 2)?[1]]);
        p += 2;
        let ml = u16::from_be_bytes([g(p, 2)?[0], g(p, 2)?[1]]) as usize;
        p += 2;
        let mac = g(p, ml)?.to_vec();
        p += ml;
        let oid = u16::from_be_bytes([g(p, 2)?[0], g(p, 2)?[1]]);
        p += 2;
        let err = u16::from_be_bytes([g(p, 2)?[0], g(p, 2)?[1]]);
        p += 2;
        let ol = u16::from_be_bytes([g(p, 2)?[0], g(p, 2)?[1]]) as usize;
        p += 2;
        let other = g(p, ol)?.to_vec();
        p += ol;
        if p != end {
            return None;
        }
        Some((TsigRr { x: Shape { cls, ttl, ..Shape::default() }, name, alg, time, fudge, mac, oid, err, other }, end))
    }
}

//------------ the adversary -------------------------------------------------

/// Applies one adversary action of MC_Tsig.tla to a signed message whose TSIG
/// RR starts at `off`.  Returns whether the message still carries a TSIG.
pub fn apply_adv(wire: &mut Vec<u8>, off: usize, op: &Value, last_full: &[u8]) -> Result<bool, String> {
    let kind = op["kind"].as_str().unwrap_or("");
    let (mut rr, _) = TsigRr::parse_at(wire, off).ok_or("no TSIG to tamper with")?;
    let arg = op["arg"].as_i64().unwrap_or(0);
    let mut reencode = true;
    let mut signed = true;
    match kind {
        "FlipBody" => { wire[off - 1] ^= 1; reencode = false; }
        "FlipMac" => { rr.mac[(arg - 1) as usize] ^= 1; }
        "TruncShort" | "TruncOk" => { rr.mac.truncate(arg as usize); }
        "ExtendMac" | "ExtendWithin" => {
            // appended octets never continue the genuine MAC
            for _ in 0..arg {
                let p = rr.mac.len();
                let b = if last_full.get(p) == Some(&0xa5) { 0x5a } else { 0xa5 };
                rr.mac.push(b);
            }
        }
        "RenameKey" => { rr.name = name_wire("other.key."); }
        "RecaseKey" => { rr.name = name_wire(KEYNAME_C); }
        "SwapAlg" => { rr.alg = alg_wire(op["arg"].as_str().unwrap_or("md5")); }
        "ChangeOrigId" => { rr.oid = rr.oid.wrapping_add(arg as u16); }
        "RewriteId" => { let id = get_id(wire).wrapping_add(arg as u16); set_id(wire, id); reencode = false; }
        "ShiftTime" => { rr.time = (rr.time as i64 + arg) as u64; }
        "SetErr" => { rr.err = arg as u16; }
        "SetOther" | "SetOther6" => { rr.other = if arg == 6 { u48(5).to_vec() } else { vec![1, 2] }; }
        "ForgeBadSig" | "ForgeBadKey" | "ForgeBadTime" => { wire[3] = (wire[3] & 0xf0) | 9; rr.err = arg as u16; }
        // the names of the record as names
        "AlgExtra" | "KeyExtra" | "AlgDouble" | "AlgSigAlg" | "AlgRoot" | "KeyRoot" | "AlgPrefix" | "KeyFewer"
        | "AlgUpper" | "AlgCompressed" | "KeyCompressed" | "AlgBadPtr" | "KeyBadPtr" => {
            let f = if kind.starts_with("Alg") { &mut rr.alg } else { &mut rr.name };
            *f = name_variant(kind, f);
        }
        "ClassIn" => { rr.x.cls = 1; }
        "ClassNone" => { rr.x.cls = 254; }
        "TtlOne" => { rr.x.ttl = 1; }
        "RdTrail" => { rr.x.rdx = vec![0]; }
        "RdLong" => { rr.x.rdadj = 1; }
        "RdShort" => { rr.x.rdadj = -1; }
        "OtherLenLong" => { rr.x.oladj = 6; }
        "StripTsig" => {
            wire.truncate(off);
            let ar = get_ar(wire);
            set_ar(wire, ar - 1);
            signed = false;
            reencode = false;
        }
        "MoveTsig" => { wire.extend(extra_rec()); let ar = get_ar(wire); set_ar(wire, ar + 1); reencode = false; }
        "DupTsig" => { let e = rr.encode(); wire.extend(e); let ar = get_ar(wire); set_ar(wire, ar + 1); reencode = false; }
        _ => return Err(format!("unknown adversary action {}", kind)),
    }
    if reencode {
        wire.truncate(off);
        wire.extend(rr.encode());
    }
    Ok(signed)
}

/// MC_Tsig!NameVariant
pub fn name_variant(kind: &str, w: &[u8]) -> Vec<u8> {
    let front = &w[..w.len() - 1];
    let cat = |a: &[u8], b: &[u8]| -> Vec<u8> { let mut v = a.to_vec(); v.extend_from_slice(b); v };
    match kind {
        "AlgExtra" | "KeyExtra" => cat(front, &name_wire("example.")),
        "AlgDouble" => cat(front, w),
        "AlgSigAlg" => cat(front, &name_wire("sig-alg.reg.int.")),
        "AlgRoot" | "KeyRoot" => vec![0],
        "AlgPrefix" => cat(&[1, b'x'], w),
        "KeyFewer" => w[w[0] as usize + 1..].to_vec(),
        "AlgUpper" => w.iter().map(|c| c.to_ascii_uppercase()).collect(),
        "AlgCompressed" | "KeyCompressed" => cat(front, &[192, 3]),
        _ => cat(front, &[255, 255]),
    }
}

//------------ term evaluator -------------------------------------------------

/// Evaluates the MAC table of a generated behaviour.  `data` of an entry is a
/// list of integers: 0..255 octets, 1000+b / 1100+b the (flipped) body of
/// message variant b, 2000+b its section counts, 5000 the extra record,
/// 10000 + 100*j + i octet i of the full MAC of entry j.
pub struct Terms {
    entries: Vec<Value>,
    full: Vec<Option<Vec<u8>>>,
    /// pseudo-octets resolved from what was seen on the wire (wrapper runs:
    /// bodies as the library's builders encoded them); 6000 = Time Signed of
    /// the message an entry signs, per entry
    pub blocks: std::collections::HashMap<u64, Vec<u8>>,
    pub times: std::collections::HashMap<usize, u64>,
}

impl Terms {
    pub fn new(tbl: &Value) -> Self {
        let entries = tbl.as_array().cloned().unwrap_or_default();
        let n = entries.len();
        Terms { entries, full: vec![None; n], blocks: Default::default(), times: Default::default() }
    }
    pub fn len(&self) -> usize {
        self.entries.len()
    }
    pub fn resolve(&mut self, data: &Value, entry: usize) -> Result<Vec<u8>, String> {
        let mut out = vec![];
        for x in data.as_array().ok_or("data not an array")? {
            let v = x.as_u64().ok_or("non-integer in term")?;
            if let Some(b) = self.blocks.get(&v) {
                out.extend_from_slice(b);
                continue;
            }
            match v {
                0..=255 => out.push(v as u8),
                6000 => out.extend_from_slice(&u48(*self.times.get(&entry).ok_or("time of this entry not seen yet")?)),
                1001..=1004 => out.extend(body_octets(v - 1000)),
                1101..=1104 => {
                    let mut b = body_octets(v - 1100);
                    let n = b.len();
                    b[n - 1] ^= 1;
                    out.extend(b)
                }
                2001..=2004 => out.extend_from_slice(&body_counts(v - 2000)),
                5000 => out.extend(extra_rec()),
                10000..=19999 => {
                    let j = ((v - 10000) / 100) as usize;
                    let i = ((v - 10000) % 100) as usize;
                    let f = self.full(j)?;
                    out.push(*f.get(i - 1).ok_or("MAC octet index out of range")?);
                }
                _ => return Err(format!("unknown pseudo-octet {}", v)),
            }
        }
        Ok(out)
    }
    /// full (untruncated) MAC of table entry j (1-based)
    pub fn full(&mut self, j: usize) -> Result<Vec<u8>, String> {
        if j == 0 || j > self.entries.len() {
            return Err(format!("no MAC table entry {}", j));
        }
        if let Some(f) = &self.full[j - 1] {
            return Ok(f.clone());
        }
        let e = self.entries[j - 1].clone();
        let data = self.resolve(&e["data"], j)?;
        let f = ref_hmac(e["alg"].as_str().unwrap_or("sha256"), SECRET, &data);
        self.full[j - 1] = Some(f.clone());
        Ok(f)
    }
    pub fn mac(&mut self, j: usize, n: usize) -> Result<Vec<u8>, String> {
        let f = self.full(j)?;
        Ok(f[..n.min(f.len())].to_vec())
    }
}

//------------ an independent RFC 8945 layout (recorders) -----------------------

pub fn sans(wire: &[u8], tsig_off: usize, oid: u16) -> Vec<u8> {
    let mut v = wire[..tsig_off].to_vec();
    set_id(&mut v, oid);
    let ar = get_ar(&v);
    set_ar(&mut v, ar - 1);
    v
}
pub fn vars(keyname: &[u8], rr: &TsigRr, other_pad: bool) -> Vec<u8> {
    let mut v: Vec<u8> = keyname.iter().map(|c| c.to_ascii_lowercase()).collect();
    v.extend_from_slice(&[0, 255, 0, 0, 0, 0]);
    v.extend(rr.alg.iter().map(|c| c.to_ascii_lowercase()));
    v.extend_from_slice(&u48(rr.time));
    v.extend_from_slice(&rr.fudge.to_be_bytes());
    v.extend_from_slice(&rr.err.to_be_bytes());
    v.extend_from_slice(&(rr.other.len() as u16).to_be_bytes());
    if other_pad {
        v.extend_from_slice(&[0, 0]);
    }
    v.extend_from_slice(&rr.other);
    v
}
pub fn timers(rr: &TsigRr) -> Vec<u8> {
    let mut v = u48(rr.time).to_vec();
    v.extend_from_slice(&rr.fudge.to_be_bytes());
    v
}
pub fn with_prior(prior: &[u8], rest: Vec<u8>) -> Vec<u8> {
    let mut v = (prior.len() as u16).to_be_bytes().to_vec();
    v.extend_from_slice(prior);
    v.extend(rest);
    v
}
pub fn cat(a: Vec<u8>, b: Vec<u8>) -> Vec<u8> {
    let mut v = a;
    v.extend(b);
    v
}

/// first candidate whose HMAC reproduces the MAC on the wire (else the first)
pub fn pick(alg: &str, cands: Vec<Vec<u8>>, mac: &[u8]) -> (Vec<u8>, Vec<u8>, bool) {
    for c in &cands {
        let f = ref_hmac(alg, SECRET, c);
        if mac.len() <= f.len() && f[..mac.len()] == *mac {
            return (c.clone(), f, true);
        }
    }
    let f = ref_hmac(alg, SECRET, &cands[0]);
    (cands[0].clone(), f, false)
}


//------------ classifiers ----------------------------------------------------

pub fn verr(e: &ValidationError) -> &'static str {
    match e {
        ValidationError::BadAlg => "BadAlg",
        ValidationError::BadOther => "BadOther",
        ValidationError::BadSig => "BadSig",
        ValidationError::BadTrunc => "BadTrunc",
        ValidationError::BadKey => "BadKey",
        ValidationError::BadTime => "BadTime",
        ValidationError::FormErr => "FormErr",
        ValidationError::ServerUnsigned => "ServerUnsigned",
        ValidationError::ServerBadKey => "ServerBadKey",
        ValidationError::ServerBadSig => "ServerBadSig",
        ValidationError::ServerBadTime { .. } => "ServerBadTime",
        ValidationError::TooManyUnsigned => "TooManyUnsigned",
    }
}

pub fn tsig_rcode_name(code: u16) -> &'static str {
    match code {
        0 => "NOERROR",
        1 => "FORMERR",
        16 => "BADSIG",
        17 => "BADKEY",
        18 => "BADTIME",
        22 => "BADTRUNC",
        _ => "OTHER",
    }
}
