//! Shared pieces of the C20 (client cache) binding: a scripted upstream that
//! logs every call, translation between the vocabulary of spec/Cache.tla
//! (queries, messages, records as JSON) and real DNS messages, and the driver
//! that performs one `send_request` + `get_response` on the real
//! `cache::Connection` under tokio's paused clock.
#![allow(dead_code)]

use bytes::Bytes;
use domain::base::iana::{Class, Opcode, Rcode};
use domain::base::message_builder::MessageBuilder;
use domain::base::name::Name;
use domain::base::rdata::UnknownRecordData;
use domain::base::record::{Record, Ttl};
use domain::base::message_builder::StreamTarget;
use domain::base::{Message, ParsedName, Rtype, StaticCompressor};
use domain::net::client::cache;
use domain::net::client::request::{
    ComposeRequest, Error, GetResponse, RequestMessage, SendRequest,
};
use domain::rdata::AllRecordData;
use serde_json::{json, Value};
use std::collections::HashMap;
use std::future::Future;
use std::pin::Pin;
use std::str::FromStr;
use std::sync::{Arc, Mutex};
use std::time::Duration;

// X15's binding helpers (abstract message of an octet string) are reused to
// read what a request composes to on the wire
#[path = "reqcompose.rs"]
#[allow(dead_code, unused_imports)]
pub mod reqcompose;

//------------ the scripted upstream ------------------------------------------

pub type Resp = Result<Message<Bytes>, Error>;

#[derive(Default)]
pub struct MockState {
    /// what the next call is answered with
    pub next: Option<Resp>,
    /// every request upstream saw, as a message
    pub calls: Vec<Message<Vec<u8>>>,
}

#[derive(Clone, Default)]
pub struct Mock {
    pub st: Arc<Mutex<MockState>>,
}

#[derive(Debug)]
struct MockReq {
    resp: Option<Resp>,
}

impl GetResponse for MockReq {
    fn get_response(
        &mut self,
    ) -> Pin<Box<dyn Future<Output = Result<Message<Bytes>, Error>> + Send + Sync + '_>> {
        let r = self.resp.clone().unwrap_or(Err(Error::NoTransportAvailable));
        Box::pin(std::future::ready(r))
    }
}

impl SendRequest<RequestMessage<Vec<u8>>> for Mock {
    fn send_request(
        &self,
        request_msg: RequestMessage<Vec<u8>>,
    ) -> Box<dyn GetResponse + Send + Sync> {
        let mut st = self.st.lock().unwrap();
        // upstream sees the OCTETS the request composes into a transport's
        // target (what net::client::stream puts on the wire), never
        // to_message() or the trait's getters
        if let Some(m) = wire_message(&request_msg) {
            st.calls.push(m);
        }
        let resp = st.next.clone();
        Box::new(MockReq { resp })
    }
}

/// The request as a stream transport serialises it: `append_message` into a
/// `StreamTarget`, the message part of the buffer parsed again.
pub fn wire_octets(req: &RequestMessage<Vec<u8>>) -> Option<Vec<u8>> {
    let mut target = StreamTarget::new_vec();
    req.append_message(&mut target).ok()?;
    let s = target.as_stream_slice();
    if s.len() < 2 || u16::from_be_bytes([s[0], s[1]]) as usize != s.len() - 2 {
        return None;
    }
    Some(s[2..].to_vec())
}

pub fn wire_message(req: &RequestMessage<Vec<u8>>) -> Option<Message<Vec<u8>>> {
    Message::from_octets(wire_octets(req)?).ok()
}

//------------ names ----------------------------------------------------------

/// spec names are lower case; spelling 1 is the same name in upper case
pub fn spell(name: &str, cs: u64) -> String {
    if cs == 1 {
        name.to_ascii_uppercase()
    } else {
        name.to_string()
    }
}

pub fn name_of(s: &str) -> Name<Vec<u8>> {
    if s == "." || s.is_empty() {
        Name::root_vec()
    } else {
        Name::<Vec<u8>>::from_str(s).expect("name")
    }
}

fn name_str<N: std::fmt::Display>(n: &N) -> String {
    let s = format!("{}", n);
    if s.is_empty() {
        ".".to_string()
    } else if s.len() > 1 && s.ends_with('.') {
        s[..s.len() - 1].to_string()
    } else {
        s
    }
}

fn wire_name(s: &str) -> Vec<u8> {
    name_of(s).as_slice().to_vec()
}

//------------ types ----------------------------------------------------------

pub fn rtype_of(s: &str) -> Rtype {
    Rtype::from_str(s).unwrap_or(Rtype::A)
}

pub fn class_of(s: &str) -> Class {
    match s {
        "CH" => Class::CH,
        _ => Class::IN,
    }
}

fn rcode_of(s: &str) -> Rcode {
    match s {
        "NOERROR" => Rcode::NOERROR,
        "NXDOMAIN" => Rcode::NXDOMAIN,
        "SERVFAIL" => Rcode::SERVFAIL,
        "REFUSED" => Rcode::REFUSED,
        "FORMERR" => Rcode::FORMERR,
        "NOTIMP" => Rcode::NOTIMP,
        _ => Rcode::SERVFAIL,
    }
}

//------------ record data ----------------------------------------------------

/// Concrete rdata for the rdata identity `id` of a record of type `t`.
/// Identities are small numbers; every type gets a well-formed rdata that is
/// a function of the identity only.
pub fn rdata_for(t: &str, id: u64) -> Vec<u8> {
    let b = (id & 0xff) as u8;
    match t {
        "A" => vec![192, 0, 2, b],
        "AAAA" => {
            let mut v = vec![0x20, 0x01, 0x0d, 0xb8];
            v.extend_from_slice(&[0; 11]);
            v.push(b);
            v
        }
        "CNAME" | "NS" | "PTR" => wire_name(&format!("t{}.example", id)),
        "MX" => {
            let mut v = vec![0, 10];
            v.extend(wire_name(&format!("t{}.example", id)));
            v
        }
        "TXT" => vec![2, b'v', b'0' + (b % 10)],
        "SOA" => {
            let mut v = wire_name("ns1.example");
            v.extend(wire_name("hostmaster.example"));
            v.extend_from_slice(&(id as u32).to_be_bytes()); // serial
            for x in [7200u32, 3600, 1209600, 3600] {
                v.extend_from_slice(&x.to_be_bytes());
            }
            v
        }
        "RRSIG" => {
            let mut v = vec![0, 1, 13, 2]; // covers A, alg 13, 2 labels
            v.extend_from_slice(&3600u32.to_be_bytes());
            v.extend_from_slice(&1_800_000_000u32.to_be_bytes());
            v.extend_from_slice(&1_700_000_000u32.to_be_bytes());
            v.extend_from_slice(&(id as u16).to_be_bytes()); // key tag
            v.extend(wire_name("example"));
            v.extend_from_slice(&[0xAB; 8]);
            v
        }
        "NSEC" => {
            let mut v = wire_name(&format!("t{}.example", id));
            v.extend_from_slice(&[0, 6, 0x40, 0, 0, 0, 0, 3]); // A RRSIG NSEC
            v
        }
        "NSEC3" => {
            let mut v = vec![1, 0, 0, 0, 0, 20];
            v.extend_from_slice(&[b; 20]);
            v.extend_from_slice(&[0, 6, 0x40, 0, 0, 0, 0, 2]);
            v
        }
        "DS" => {
            let mut v = (id as u16).to_be_bytes().to_vec();
            v.extend_from_slice(&[13, 2]);
            v.extend_from_slice(&[b; 32]);
            v
        }
        _ => vec![b],
    }
}

/// rdata identities: S->I cases carry numbers that `rdata_for` turns into
/// rdata; the table maps the printed form of the rdata back to the number so
/// that observations are in the specification's vocabulary.  Recorded traces
/// use the printed form itself (the specification treats rdata as opaque).
#[derive(Default)]
pub struct RdTable {
    back: HashMap<(String, String), u64>,
}

impl RdTable {
    fn register(&mut self, t: &str, id: u64) {
        let data = rdata_for(t, id);
        let shown = show_rdata(rtype_of(t), &data).to_ascii_lowercase();
        self.back.insert((t.to_string(), shown), id);
    }
    fn lookup(&self, t: &str, shown: &str) -> Value {
        match self.back.get(&(t.to_string(), shown.to_string())) {
            Some(id) => json!(*id),
            None => json!(-1),
        }
    }
}

/// printed form of an rdata given as uncompressed wire octets
fn show_rdata(rtype: Rtype, data: &[u8]) -> String {
    // wrap into a one-record message and print through the library's parser
    let mut mb = MessageBuilder::new_vec().answer();
    let rec = Record::new(
        Name::root_vec(),
        Class::IN,
        Ttl::from_secs(0),
        UnknownRecordData::from_octets(rtype, data.to_vec()).expect("rdata"),
    );
    mb.push(rec).expect("push");
    let msg = mb.into_message();
    let mut out = String::from("?");
    if let Ok(ans) = msg.answer() {
        for rr in ans {
            if let Ok(rr) = rr {
                if let Ok(Some(r)) = rr.into_record::<AllRecordData<_, ParsedName<_>>>() {
                    out = format!("{}", r.data());
                }
            }
        }
    }
    out
}

//------------ building messages from the specification's vocabulary ----------

fn b(v: &Value) -> bool {
    v.as_bool().unwrap_or(false)
}

/// The request the client sends for query `q`, constructed the way
/// `q.route` says (Cache.tla): header bits already in the source message or
/// set through `header_mut()`, a source with / without an OPT record, the
/// EDNS setters in the order given.  Without a route: bits in the source, DO
/// through `set_dnssec_ok(true)`.
pub fn build_request(q: &Value, id: u16) -> RequestMessage<Vec<u8>> {
    let route = &q["route"];
    let has_route = route.is_object();
    let src = &route["src"];
    let mut mb = MessageBuilder::new_vec();
    {
        let h = mb.header_mut();
        h.set_id(id);
        if has_route {
            h.set_rd(b(&src["rd"]));
            h.set_ad(b(&src["ad"]));
            h.set_cd(b(&src["cd"]));
        } else {
            h.set_rd(b(&q["rd"]));
            h.set_ad(b(&q["ad"]));
            h.set_cd(b(&q["cd"]));
        }
        if q["op"].as_str() == Some("NOTIFY") {
            h.set_opcode(Opcode::NOTIFY);
        }
    }
    let mut mb = mb.question();
    let nq = q["nq"].as_u64().unwrap_or(1);
    let name = name_of(&spell(q["name"].as_str().unwrap_or("a.example"), q["cs"].as_u64().unwrap_or(0)));
    let qt = rtype_of(q["qtype"].as_str().unwrap_or("A"));
    let qc = class_of(q["qclass"].as_str().unwrap_or("IN"));
    if nq >= 1 {
        mb.push((&name, qt, qc)).expect("push question");
    }
    if nq >= 2 {
        mb.push((&name_of("second.example"), Rtype::AAAA, qc)).expect("push question");
    }
    let msg = match src["opt"].as_u64().unwrap_or(0) {
        0 => mb.into_message(),
        o => {
            // the source already carries an OPT record (a forwarded query)
            let mut ab = mb.additional();
            ab.opt(|opt| {
                opt.set_udp_payload_size(1232);
                opt.set_dnssec_ok(o == 2);
                Ok(())
            })
            .expect("push opt");
            ab.into_message()
        }
    };
    let mut req = match RequestMessage::new(msg) {
        Ok(r) => r,
        Err(_) => {
            // RequestMessage::new insists on a first question for QUERY
            panic!("request without question cannot be built")
        }
    };
    if !has_route {
        if b(&q["do"]) {
            req.set_dnssec_ok(true);
        }
        return req;
    }
    for op in route["ops"].as_array().cloned().unwrap_or_default() {
        let v = op[1].as_u64().unwrap_or(0);
        match op[0].as_str().unwrap_or("") {
            "rd" => req.header_mut().set_rd(v == 1),
            "ad" => req.header_mut().set_ad(v == 1),
            "cd" => req.header_mut().set_cd(v == 1),
            "do" => req.set_dnssec_ok(v == 1),
            "udp" => req.set_udp_payload_size(v as u16),
            other => panic!("unknown route op {}", other),
        }
    }
    req
}

/// Upstream's answer `r` (a message or `{"err": name}`) as a real message.
/// The response ID is `id` (upstream echoes the request's).
pub fn build_response(r: &Value, id: u16, tab: &mut RdTable) -> Resp {
    if let Some(e) = r.get("err") {
        return Err(error_of(e.as_str().unwrap_or("")));
    }
    let mut mb = MessageBuilder::from_target(StaticCompressor::new(Vec::new())).expect("builder");
    {
        let hd = &r["hdr"];
        let h = mb.header_mut();
        h.set_id(id);
        h.set_qr(true);
        h.set_aa(b(&hd["aa"]));
        h.set_tc(b(&hd["tc"]));
        h.set_rd(b(&hd["rd"]));
        h.set_ra(b(&hd["ra"]));
        h.set_ad(b(&hd["ad"]));
        h.set_cd(b(&hd["cd"]));
        h.set_rcode(rcode_of(hd["rcode"].as_str().unwrap_or("NOERROR")));
    }
    let mut mb = mb.question();
    for qd in r["qd"].as_array().cloned().unwrap_or_default() {
        let n = name_of(&spell(qd["n"].as_str().unwrap_or("."), qd["cs"].as_u64().unwrap_or(0)));
        mb.push((&n, rtype_of(qd["t"].as_str().unwrap_or("A")), class_of(qd["c"].as_str().unwrap_or("IN"))))
            .expect("push question");
    }
    let mut mb = mb.answer();
    for rr in r["an"].as_array().cloned().unwrap_or_default() {
        mb.push(record_of(&rr, tab)).expect("push an");
    }
    let mut mb = mb.authority();
    for rr in r["ns"].as_array().cloned().unwrap_or_default() {
        mb.push(record_of(&rr, tab)).expect("push ns");
    }
    let mut mb = mb.additional();
    for rr in r["ar"].as_array().cloned().unwrap_or_default() {
        if rr["t"].as_str() == Some("OPT") {
            let ttl = rr["ttl"].as_u64().unwrap_or(0) as u32;
            mb.opt(|o| {
                o.set_udp_payload_size(1232);
                o.set_dnssec_ok(ttl & 0x8000 != 0);
                Ok(())
            })
            .expect("push opt");
        } else {
            mb.push(record_of(&rr, tab)).expect("push ar");
        }
    }
    let octs: Vec<u8> = mb.finish().into_target();
    Ok(Message::from_octets(Bytes::from(octs)).expect("built message parses"))
}

fn record_of(rr: &Value, tab: &mut RdTable) -> Record<Name<Vec<u8>>, UnknownRecordData<Vec<u8>>> {
    let t = rr["t"].as_str().unwrap_or("A");
    let id = rr["rd"].as_u64().unwrap_or(0);
    tab.register(t, id);
    Record::new(
        name_of(rr["o"].as_str().unwrap_or(".")),
        class_of(rr["c"].as_str().unwrap_or("IN")),
        Ttl::from_secs(rr["ttl"].as_u64().unwrap_or(0) as u32),
        UnknownRecordData::from_octets(rtype_of(t), rdata_for(t, id)).expect("rdata"),
    )
}

pub fn error_of(s: &str) -> Error {
    match s {
        "ConnectionClosed" => Error::ConnectionClosed,
        "StreamReadTimeout" => Error::StreamReadTimeout,
        "StreamIdleTimeout" => Error::StreamIdleTimeout,
        "WrongReplyForQuery" => Error::WrongReplyForQuery,
        _ => Error::NoTransportAvailable,
    }
}

//------------ projecting real messages back ----------------------------------

/// `ids`: map rdata back to the identities of S->I cases (unknown rdata shows
/// as -1); otherwise the printed rdata itself is the identity.
pub fn project_resp(r: &Resp, tab: Option<&RdTable>) -> Value {
    match r {
        Err(e) => json!({"err": format!("{:?}", e).split('(').next().unwrap_or("").to_string()}),
        Ok(m) => project_msg(m, tab),
    }
}

fn project_section<'a>(
    sec: domain::base::message::RecordSection<'a, Bytes>,
    tab: Option<&RdTable>,
) -> Value {
    let mut out = vec![];
    for rr in sec {
        let rr = match rr {
            Ok(rr) => rr,
            Err(_) => {
                out.push(json!({"bad": true}));
                break;
            }
        };
        // names are compared case-insensitively: message compression may
        // re-spell an owner or a name inside rdata after the question's
        let owner = name_str(&rr.owner()).to_ascii_lowercase();
        let t = format!("{}", rr.rtype());
        if rr.rtype() == Rtype::OPT {
            out.push(json!({"o": owner, "t": "OPT", "c": "-", "ttl": rr.ttl().as_secs(), "rd": 0}));
            continue;
        }
        let c = format!("{}", rr.class());
        let ttl = rr.ttl().as_secs();
        let shown = match rr.into_record::<AllRecordData<_, ParsedName<_>>>() {
            Ok(Some(r)) => format!("{}", r.data()).to_ascii_lowercase(),
            _ => "?".to_string(),
        };
        let rd = match tab {
            Some(tab) => tab.lookup(&t, &shown),
            None => json!(shown),
        };
        out.push(json!({"o": owner, "t": t, "c": c, "ttl": ttl, "rd": rd}));
    }
    Value::Array(out)
}

pub fn project_msg(m: &Message<Bytes>, tab: Option<&RdTable>) -> Value {
    let h = m.header();
    let mut qd = vec![];
    for q in m.question() {
        if let Ok(q) = q {
            let shown = name_str(&q.qname());
            let lower = shown.to_ascii_lowercase();
            let cs = if shown == lower {
                0
            } else if shown == lower.to_ascii_uppercase() {
                1
            } else {
                2
            };
            qd.push(json!({"n": lower, "cs": cs, "t": format!("{}", q.qtype()),
                           "c": format!("{}", q.qclass())}));
        }
    }
    let an = m.answer().map(|s| project_section(s, tab)).unwrap_or(json!("bad"));
    let ns = m.authority().map(|s| project_section(s, tab)).unwrap_or(json!("bad"));
    let ar = m.additional().map(|s| project_section(s, tab)).unwrap_or(json!("bad"));
    json!({
        "hdr": {"aa": h.aa(), "tc": h.tc(), "rd": h.rd(), "ra": h.ra(), "ad": h.ad(),
                "cd": h.cd(), "rcode": format!("{}", h.rcode())},
        "qd": qd, "an": an, "ns": ns, "ar": ar
    })
}

/// The request as upstream saw it, in the vocabulary of queries.
pub fn project_request(m: &Message<Vec<u8>>) -> Value {
    let h = m.header();
    let mut name = String::new();
    let mut cs = 0;
    let mut qt = String::new();
    let mut qc = String::new();
    let mut nq = 0;
    for q in m.question() {
        if let Ok(q) = q {
            if nq == 0 {
                let shown = name_str(&q.qname());
                name = shown.to_ascii_lowercase();
                cs = if shown == name { 0 } else { 1 };
                qt = format!("{}", q.qtype());
                qc = format!("{}", q.qclass());
            }
            nq += 1;
        }
    }
    let op = if h.opcode() == Opcode::QUERY { "QUERY" } else if h.opcode() == Opcode::NOTIFY { "NOTIFY" } else { "OTHER" };
    // the flag class, read from X15's abstract message of the octets: header
    // bits, DO of the (first) OPT record of the additional section
    let abs = reqcompose::project(m.as_slice());
    let bit = |f: &str| abs["h"][f].as_u64() == Some(1);
    let dok = abs["ar"]
        .as_array()
        .and_then(|ar| ar.iter().find(|r| r["t"].as_u64() == Some(41)))
        .map(|r| r["ttl"][1].as_u64().unwrap_or(0) & 0x8000 != 0)
        .unwrap_or(false);
    json!({"name": name, "cs": cs, "qtype": qt, "qclass": qc, "op": op, "nq": nq,
           "ad": bit("ad"), "cd": bit("cd"), "do": dok, "rd": bit("rd")})
}

/// How `project_request` shows the client's query `q` when the cache passed
/// it on unchanged.
pub fn expected_forward(q: &Value) -> Value {
    let mut f = q.clone();
    if let Some(o) = f.as_object_mut() {
        o.remove("route");
    }
    if f["nq"] == json!(0) {
        f["name"] = json!("");
        f["qtype"] = json!("");
        f["qclass"] = json!("");
        f["cs"] = json!(0);
    }
    f
}

//------------ configuration --------------------------------------------------

/// The documented defaults (spec: DocDefaults / CfgDefault).  When the
/// specification's configuration is this one, the real configuration is
/// `Config::new()` with no validity setter called, so that the defaults the
/// code really has are what is exercised.
fn is_documented_default(c: &Value) -> bool {
    c["maxValidity"] == json!(604800)
        && c["transportFailure"] == json!(30)
        && c["miscError"] == json!(30)
        && c["maxNxdomain"] == json!(3600)
        && c["maxNodata"] == json!(3600)
        && c["maxDelegation"] == json!(1000000)
        && c["cacheTruncated"] == json!(false)
}

/// The fields of a `Config`, read from its `Debug` form (it has no getters),
/// in the specification's vocabulary; durations in seconds.
pub fn config_fields(cfg: &cache::Config) -> Value {
    let shown = format!("{:?}", cfg);
    let inner = shown
        .trim_start_matches("Config")
        .trim()
        .trim_start_matches('{')
        .trim_end_matches('}');
    let mut out = serde_json::Map::new();
    for part in inner.split(',') {
        let mut kv = part.splitn(2, ':');
        let k = kv.next().unwrap_or("").trim();
        let v = kv.next().unwrap_or("").trim();
        let name = match k {
            "max_cache_entries" => "maxEntries",
            "max_validity" => "maxValidity",
            "transport_failure_duration" => "transportFailure",
            "misc_error_duration" => "miscError",
            "max_nxdomain_validity" => "maxNxdomain",
            "max_nodata_validity" => "maxNodata",
            "max_delegation_validity" => "maxDelegation",
            "cache_truncated" => "cacheTruncated",
            "" => continue,
            other => other,
        };
        let val = if v == "true" || v == "false" {
            json!(v == "true")
        } else if let Some(s) = v.strip_suffix('s') {
            // Duration's Debug: whole seconds print as "<n>s"
            match s.parse::<u64>() {
                Ok(n) => json!(n),
                Err(_) => json!(v),
            }
        } else {
            match v.parse::<u64>() {
                Ok(n) => json!(n),
                Err(_) => json!(v),
            }
        };
        out.insert(name.to_string(), val);
    }
    Value::Object(out)
}

/// `Config::new()` followed by one setter.
pub fn config_after_set(field: &str, value: &Value) -> cache::Config {
    let mut cfg = cache::Config::new();
    let n = value.as_u64().unwrap_or(0);
    let d = Duration::from_secs(n);
    match field {
        "maxEntries" => cfg.set_max_cache_entries(n),
        "maxValidity" => cfg.set_max_validity(d),
        "transportFailure" => cfg.set_transport_failure_duration(d),
        "miscError" => cfg.set_misc_error_duration(d),
        "maxNxdomain" => cfg.set_max_nxdomain_validity(d),
        "maxNodata" => cfg.set_max_nodata_validity(d),
        "maxDelegation" => cfg.set_max_delegation_validity(d),
        "cacheTruncated" => cfg.set_cache_truncated(value.as_bool().unwrap_or(false)),
        _ => {}
    }
    cfg
}

pub fn config_of(c: &Value) -> cache::Config {
    let mut cfg = cache::Config::new();
    if is_documented_default(c) {
        if let Some(n) = c.get("maxEntries").and_then(|x| x.as_u64()) {
            cfg.set_max_cache_entries(n);
        }
        return cfg;
    }
    let secs = |k: &str| Duration::from_secs(c[k].as_u64().unwrap_or(0));
    cfg.set_max_validity(secs("maxValidity"));
    cfg.set_transport_failure_duration(secs("transportFailure"));
    cfg.set_misc_error_duration(secs("miscError"));
    cfg.set_max_nxdomain_validity(secs("maxNxdomain"));
    cfg.set_max_nodata_validity(secs("maxNodata"));
    cfg.set_max_delegation_validity(secs("maxDelegation"));
    cfg.set_cache_truncated(b(&c["cacheTruncated"]));
    if let Some(n) = c.get("maxEntries").and_then(|x| x.as_u64()) {
        cfg.set_max_cache_entries(n);
    }
    cfg
}

//------------ one query against the real cache -------------------------------

pub struct Driver {
    pub mock: Mock,
    pub conn: cache::Connection<Mock>,
    pub next_id: u16,
}

pub struct Outcome {
    pub served: Resp,
    /// requests upstream saw during this query
    pub upstream: Vec<Message<Vec<u8>>>,
}

impl Driver {
    pub fn new(cfg: &Value) -> Self {
        let mock = Mock::default();
        let conn = cache::Connection::with_config(mock.clone(), config_of(cfg));
        Driver { mock, conn, next_id: 1 }
    }

    /// Must run inside a current-thread tokio runtime with a paused clock.
    pub async fn query(&mut self, q: &Value, up: Resp) -> Outcome {
        let id = self.next_id;
        self.next_id = self.next_id.wrapping_add(1).max(1);
        {
            let mut st = self.mock.st.lock().unwrap();
            st.next = Some(up);
            st.calls.clear();
        }
        let req = build_request(q, id);
        let mut get = self.conn.send_request(req);
        let served = get.get_response().await;
        drop(get);
        let upstream = std::mem::take(&mut self.mock.st.lock().unwrap().calls);
        Outcome { served, upstream }
    }
}

pub fn runtime() -> tokio::runtime::Runtime {
    tokio::runtime::Builder::new_current_thread()
        .enable_time()
        .start_paused(true)
        .build()
        .expect("runtime")
}
