//! Shared helpers of the X05 executors (replay_notifyxfr, record_notifyxfr):
//! server-side NOTIFY and XFR *request handling* and the response batcher.
//!
//! The stack under test is the real
//! `NotifyMiddlewareSvc( XfrMiddlewareSvc( MockNext ) )` with request
//! metadata `Option<String>` standing for the TSIG key a preceding
//! `TsigMiddlewareSvc` would have attached.  Mocks: `MockNext` records what
//! it is called with and answers NOERROR with one A record; `MockNotify`
//! (the `Notifiable`) logs every callback; `Provider` (the
//! `XfrDataProvider`) logs every request, applies a key policy and otherwise
//! delegates zone selection to the library's own `XfrDataProvider for
//! ZoneTree`; `GateZone` is a `ZoneStore` wrapper whose walk can be held by
//! the driver; `MockDiff` is a `ZoneDiff` with ordered, optionally gated
//! streams.
#![allow(dead_code)]

use bytes::Bytes;
use domain::base::iana::{Class, Opcode, Rcode};
use domain::base::message_builder::{AnswerBuilder, PushError};
use domain::base::name::Name;
use domain::base::net::{IpAddr, Ipv4Addr};
use domain::base::name::ToLabelIter;
use domain::base::{
    Message, MessageBuilder, ParsedName, Rtype, Serial, StreamTarget, ToName, Ttl,
};
use domain::net::server::batcher::{CallbackBatcher, Callbacks, ResourceRecordBatcher};
use domain::net::server::message::{
    NonUdpTransportContext, Request, TransportSpecificContext, UdpTransportContext,
};
use domain::net::server::middleware::notify::{Notifiable, NotifyError, NotifyMiddlewareSvc};
use domain::net::server::middleware::xfr::{
    XfrData, XfrDataProvider, XfrDataProviderError, XfrMiddlewareSvc,
};
use domain::net::server::service::{CallResult, Service, ServiceFeedback, ServiceResult};
use domain::net::server::util::mk_builder_for_target;
use domain::rdata::{AllRecordData, Soa, Txt, ZoneRecordData, A};
use domain::zonetree::error::OutOfZone;
use domain::zonetree::{
    Answer, ReadableZone, Rrset, SharedRrset, StoredName, WalkOp, WritableZone, Zone,
    ZoneBuilder, ZoneDiff, ZoneDiffItem, ZoneStore, ZoneTree,
};
use futures_util::stream::{Once, Stream};
use futures_util::StreamExt;
use serde_json::{json, Value};
use std::any::Any;
use std::future::{ready, Future, Ready};
use std::pin::Pin;
use std::str::FromStr;
use std::sync::atomic::{AtomicUsize, Ordering};
use std::sync::{Arc, Condvar, Mutex};

pub const REQ_ID: u16 = 0x4d2;
pub const TTL: u32 = 3600;
pub type Meta = Option<String>;
pub type StoredData = ZoneRecordData<Bytes, StoredName>;

pub fn name(s: &str) -> StoredName {
    Name::from_str(s).unwrap()
}
pub fn apex() -> StoredName {
    name("example.")
}

/// zn: "known" -> the apex of the served zone, "sub" -> a name inside it,
/// "unknown" -> a name in no zone.  All three have the same wire length (9)
/// so that the fixed part of a response has one size.
pub fn qname_of(zn: &str) -> StoredName {
    match zn {
        "known" => apex(),
        "sub" => name("s.ample."),
        "deep" => name("b.example."),
        _ => name("unknown."),
    }
}

pub fn soa_of(serial: u32) -> Soa<StoredName> {
    Soa::new(
        name("ns.example."),
        name("h.example."),
        Serial(serial),
        Ttl::from_secs(600),
        Ttl::from_secs(300),
        Ttl::from_secs(86400),
        Ttl::from_secs(60),
    )
}

pub fn soa_rrset(serial: u32) -> SharedRrset {
    let mut rr = Rrset::new(Rtype::SOA, Ttl::from_secs(TTL));
    rr.push_data(ZoneRecordData::Soa(soa_of(serial)));
    SharedRrset::new(rr)
}

/// The k-th data record of the zone: owner `hKKK.example.` (14 octets),
/// TXT with one character string of `pad` octets: wire size 14+10+1+pad.
pub fn data_owner(k: usize) -> StoredName {
    name(&format!("h{:03}.example.", k))
}
pub fn data_rrset(k: usize, pad: usize) -> SharedRrset {
    let mut rr = Rrset::new(Rtype::TXT, Ttl::from_secs(TTL));
    let body: Vec<u8> = (0..pad).map(|i| b'a' + ((k + i) % 26) as u8).collect();
    let txt: Txt<Bytes> = Txt::build_from_slice(&body).unwrap();
    rr.push_data(ZoneRecordData::Txt(txt));
    SharedRrset::new(rr)
}
pub const SOA_SIZE: usize = 9 + 10 + 12 + 11 + 20; // 62
pub fn data_size(pad: usize) -> usize {
    14 + 10 + 1 + pad
}
/// 12 header + question (9 + 4)
pub const FIXED: usize = 25;

/// The served zone: SOA(serial) + one TXT RRset per entry of `pads`.
pub fn build_zone(serial: u32, pads: &[usize], class: Class) -> Zone {
    let mut b = ZoneBuilder::new(apex(), class);
    b.insert_rrset(&apex(), soa_rrset(serial)).unwrap();
    for (k, p) in pads.iter().enumerate() {
        b.insert_rrset(&data_owner(k), data_rrset(k, *p)).unwrap();
    }
    b.build()
}

//------------ GateZone --------------------------------------------------------

/// Shared by all readers of a GateZone: a counting gate for walks.
#[derive(Debug, Default)]
pub struct WalkGate {
    pub state: Mutex<GateState>,
    pub cv: Condvar,
}
#[derive(Debug, Default)]
pub struct GateState {
    pub closed: bool,
    pub active: usize,
    pub max_active: usize,
    pub entered: usize,
    pub finished: usize,
    pub release: usize,
}

impl WalkGate {
    pub fn snapshot(&self) -> (usize, usize, usize, usize) {
        let s = self.state.lock().unwrap();
        (s.active, s.max_active, s.entered, s.finished)
    }
    pub fn set_closed(&self, closed: bool) {
        let mut s = self.state.lock().unwrap();
        s.closed = closed;
        self.cv.notify_all();
    }
    /// lets `n` held walks proceed
    pub fn release(&self, n: usize) {
        let mut s = self.state.lock().unwrap();
        s.release += n;
        self.cv.notify_all();
    }
    /// waits (real time) until `entered >= want` or `ms` elapsed
    pub fn wait_entered(&self, want: usize, ms: u64) -> usize {
        let deadline = std::time::Instant::now() + std::time::Duration::from_millis(ms);
        let mut s = self.state.lock().unwrap();
        while s.entered < want {
            let now = std::time::Instant::now();
            if now >= deadline {
                break;
            }
            let (g, _) = self.cv.wait_timeout(s, deadline - now).unwrap();
            s = g;
        }
        s.entered
    }
    pub fn wait_finished(&self, want: usize, ms: u64) -> usize {
        let deadline = std::time::Instant::now() + std::time::Duration::from_millis(ms);
        let mut s = self.state.lock().unwrap();
        while s.finished < want {
            let now = std::time::Instant::now();
            if now >= deadline {
                break;
            }
            let (g, _) = self.cv.wait_timeout(s, deadline - now).unwrap();
            s = g;
        }
        s.finished
    }
}

/// A zone store that delegates to an in-memory zone but (a) counts
/// concurrently running walks and can hold them at their start, (b) may
/// declare itself asynchronous (the trait's default).
#[derive(Debug)]
pub struct GateZone {
    pub inner: Zone,
    pub gate: Arc<WalkGate>,
    pub asynchronous: bool,
}

struct GateRead {
    inner: Box<dyn ReadableZone>,
    gate: Arc<WalkGate>,
    asynchronous: bool,
}

impl ZoneStore for GateZone {
    fn class(&self) -> Class {
        self.inner.class()
    }
    fn apex_name(&self) -> &StoredName {
        self.inner.apex_name()
    }
    fn read(self: Arc<Self>) -> Box<dyn ReadableZone> {
        Box::new(GateRead {
            inner: self.inner.read(),
            gate: self.gate.clone(),
            asynchronous: self.asynchronous,
        })
    }
    fn write(
        self: Arc<Self>,
    ) -> Pin<Box<dyn Future<Output = Box<dyn WritableZone + 'static>> + Send + Sync + 'static>>
    {
        unimplemented!()
    }
    fn as_any(&self) -> &dyn Any {
        self
    }
}

impl ReadableZone for GateRead {
    fn is_async(&self) -> bool {
        self.asynchronous
    }
    fn query(&self, qname: Name<Bytes>, qtype: Rtype) -> Result<Answer, OutOfZone> {
        self.inner.query(qname, qtype)
    }
    fn walk(&self, op: WalkOp) {
        {
            let mut s = self.gate.state.lock().unwrap();
            s.active += 1;
            s.entered += 1;
            if s.active > s.max_active {
                s.max_active = s.active;
            }
            self.gate.cv.notify_all();
            while s.closed && s.release == 0 {
                s = self.gate.cv.wait(s).unwrap();
            }
            if s.closed {
                s.release -= 1;
            }
        }
        self.inner.walk(op);
        let mut s = self.gate.state.lock().unwrap();
        s.active -= 1;
        s.finished += 1;
        self.gate.cv.notify_all();
    }
}

//------------ MockDiff ---------------------------------------------------------

/// A ZoneDiff with ordered content; every item of `removed()`/`added()`
/// first takes a permit from `gate` (an open gate has "infinitely" many).
#[derive(Debug)]
pub struct MockDiff {
    pub start: u32,
    pub end: u32,
    pub soa_removed: SharedRrset,
    pub soa_added: SharedRrset,
    pub removed: Vec<((StoredName, Rtype), SharedRrset)>,
    pub added: Vec<((StoredName, Rtype), SharedRrset)>,
    pub gate: Arc<tokio::sync::Semaphore>,
    pub pulled: Arc<AtomicUsize>,
}

pub struct MockItem<'a>(&'a (StoredName, Rtype), &'a SharedRrset);
impl ZoneDiffItem for MockItem<'_> {
    fn key(&self) -> &(StoredName, Rtype) {
        self.0
    }
    fn value(&self) -> &SharedRrset {
        self.1
    }
}

impl MockDiff {
    fn stream_of<'a>(
        &'a self,
        v: &'a [((StoredName, Rtype), SharedRrset)],
    ) -> Pin<Box<dyn Stream<Item = MockItem<'a>> + Send + 'a>> {
        let gate = self.gate.clone();
        let pulled = self.pulled.clone();
        Box::pin(futures_util::stream::unfold(0usize, move |i| {
            let gate = gate.clone();
            let pulled = pulled.clone();
            async move {
                if i >= v.len() {
                    return None;
                }
                match gate.acquire().await {
                    Ok(p) => p.forget(),
                    Err(_) => return None,
                }
                pulled.fetch_add(1, Ordering::SeqCst);
                Some((MockItem(&v[i].0, &v[i].1), i + 1))
            }
        }))
    }
}

impl ZoneDiff for MockDiff {
    type Item<'a>
        = MockItem<'a>
    where
        Self: 'a;
    type Stream<'a>
        = Pin<Box<dyn Stream<Item = MockItem<'a>> + Send + 'a>>
    where
        Self: 'a;
    fn start_serial(&self) -> Pin<Box<dyn Future<Output = Serial> + Send + '_>> {
        Box::pin(ready(Serial(self.start)))
    }
    fn end_serial(&self) -> Pin<Box<dyn Future<Output = Serial> + Send + '_>> {
        Box::pin(ready(Serial(self.end)))
    }
    fn added(&self) -> Self::Stream<'_> {
        self.stream_of(&self.added)
    }
    fn removed(&self) -> Self::Stream<'_> {
        self.stream_of(&self.removed)
    }
    fn get_added(
        &self,
        name: impl ToName,
        rtype: Rtype,
    ) -> Pin<Box<dyn Future<Output = Option<&SharedRrset>> + Send + '_>> {
        let n: StoredName = name.to_name();
        let r = if rtype == Rtype::SOA && n == apex() {
            Some(&self.soa_added)
        } else {
            self.added.iter().find(|(k, _)| k.0 == n && k.1 == rtype).map(|(_, v)| v)
        };
        Box::pin(ready(r))
    }
    fn get_removed(
        &self,
        name: impl ToName,
        rtype: Rtype,
    ) -> Pin<Box<dyn Future<Output = Option<&SharedRrset>> + Send + '_>> {
        let n: StoredName = name.to_name();
        let r = if rtype == Rtype::SOA && n == apex() {
            Some(&self.soa_removed)
        } else {
            self.removed.iter().find(|(k, _)| k.0 == n && k.1 == rtype).map(|(_, v)| v)
        };
        Box::pin(ready(r))
    }
}

pub fn open_gate() -> Arc<tokio::sync::Semaphore> {
    Arc::new(tokio::sync::Semaphore::new(tokio::sync::Semaphore::MAX_PERMITS))
}

/// One difference sequence start -> end: removes records `rem` (index, pad),
/// adds records `add`.
pub fn mk_diff(
    start: u32,
    end: u32,
    rem: &[(usize, usize)],
    add: &[(usize, usize)],
    gate: Arc<tokio::sync::Semaphore>,
) -> Arc<MockDiff> {
    let f = |v: &[(usize, usize)]| {
        v.iter()
            .map(|(k, p)| ((data_owner(*k), Rtype::TXT), data_rrset(*k, *p)))
            .collect::<Vec<_>>()
    };
    Arc::new(MockDiff {
        start,
        end,
        soa_removed: soa_rrset(start),
        soa_added: soa_rrset(end),
        removed: f(rem),
        added: f(add),
        gate,
        pulled: Arc::new(AtomicUsize::new(0)),
    })
}

//------------ mocks --------------------------------------------------------------

#[derive(Clone, Default)]
pub struct Logs {
    pub cb: Arc<Mutex<Vec<Value>>>,
    pub pv: Arc<Mutex<Vec<Value>>>,
    pub nx: Arc<Mutex<Vec<Value>>>,
}
impl Logs {
    pub fn take(&self) -> (Vec<Value>, Vec<Value>, Vec<Value>) {
        (
            std::mem::take(&mut *self.cb.lock().unwrap()),
            std::mem::take(&mut *self.pv.lock().unwrap()),
            std::mem::take(&mut *self.nx.lock().unwrap()),
        )
    }
}

pub fn class_str(c: Class) -> String {
    match c {
        Class::IN => "IN".into(),
        Class::CH => "CH".into(),
        c => format!("C{}", c.to_int()),
    }
}
pub fn rtype_str(t: Rtype) -> String {
    match t {
        Rtype::SOA => "SOA".into(),
        Rtype::AXFR => "AXFR".into(),
        Rtype::IXFR => "IXFR".into(),
        Rtype::A => "A".into(),
        t => format!("T{}", t.to_int()),
    }
}

/// The application service behind the middleware.
#[derive(Clone)]
pub struct MockNext {
    pub logs: Logs,
}
impl Service<Vec<u8>, Meta> for MockNext {
    type Target = Vec<u8>;
    type Stream = Once<Ready<ServiceResult<Self::Target>>>;
    type Future = Ready<Self::Stream>;
    fn call(&self, request: Request<Vec<u8>, Meta>) -> Self::Future {
        self.logs.nx.lock().unwrap().push(json!({
            "msg": request.message().as_slice().to_vec(),
            "udp": request.transport_ctx().is_udp(),
            "meta": request.metadata().clone(),
            "rsv": request.num_reserved_bytes(),
            "addr": request.client_addr().to_string(),
        }));
        let b = mk_builder_for_target::<Vec<u8>>();
        let mut a = match b.start_answer(request.message(), Rcode::NOERROR) {
            Ok(a) => a,
            Err(_) => {
                // no (parseable) question: answer with the bare header
                let mut b = mk_builder_for_target::<Vec<u8>>();
                *b.header_mut() = request.message().header();
                b.header_mut().set_qr(true);
                b.answer()
            }
        };
        let _ = a.push((
            name("next.invalid."),
            Class::IN,
            Ttl::from_secs(1),
            A::new(Ipv4Addr::new(192, 0, 2, 99)),
        ));
        ready(futures_util::stream::once(ready(Ok(CallResult::new(a.additional())))))
    }
}

/// The notify target: secondary for (IN, example.) only.
#[derive(Clone)]
pub struct MockNotify {
    pub logs: Logs,
    pub broken: bool,
}
impl Notifiable for MockNotify {
    fn notify_zone_changed(
        &self,
        class: Class,
        apex_name: &Name<Bytes>,
        serial: Option<Serial>,
        source: IpAddr,
    ) -> Pin<Box<dyn Future<Output = Result<(), NotifyError>> + Sync + Send + '_>> {
        self.logs.cb.lock().unwrap().push(json!({
            "c": class_str(class),
            "n": apex_name.to_string(),
            "s": match serial { Some(s) => json!(s.into_int().to_string()), None => json!("none") },
            "src": source.to_string(),
        }));
        let r = if self.broken {
            Err(NotifyError::Other)
        } else if class == Class::IN && apex_name == &apex() {
            Ok(())
        } else {
            Err(NotifyError::NotAuthForZone)
        };
        Box::pin(ready(r))
    }
}

/// The XFR data provider: key policy + availability in front of the
/// library's `XfrDataProvider for ZoneTree`.
#[derive(Clone)]
pub struct Provider {
    pub logs: Logs,
    pub zones: Arc<ZoneTree>,
    pub need_key: bool,
    pub avail: bool,
    pub compat: bool,
    /// difference sequences, oldest first (start serial of [i+1] = end of [i])
    pub diffs: Vec<Arc<MockDiff>>,
}
impl XfrDataProvider<Meta> for Provider {
    type Diff = Arc<MockDiff>;
    fn request<Octs>(
        &self,
        req: &Request<Octs, Meta>,
        diff_from: Option<Serial>,
    ) -> Pin<
        Box<dyn Future<Output = Result<XfrData<Self::Diff>, XfrDataProviderError>> + Sync + Send + '_>,
    >
    where
        Octs: octseq::Octets + Send + Sync,
    {
        let q = req.message().sole_question();
        self.logs.pv.lock().unwrap().push(json!({
            "qt": q.as_ref().map(|q| rtype_str(q.qtype())).unwrap_or("?".into()),
            "qn": q.as_ref().map(|q| q.qname().to_string()).unwrap_or("?".into()),
            "from": match diff_from { Some(s) => json!(s.into_int().to_string()), None => json!("none") },
            "key": req.metadata().clone(),
            "udp": req.transport_ctx().is_udp(),
        }));
        if self.need_key && req.metadata().as_deref() != Some("good") {
            return Box::pin(ready(Err(XfrDataProviderError::Refused)));
        }
        let zone = match q {
            Err(e) => return Box::pin(ready(Err(XfrDataProviderError::ParseError(e)))),
            Ok(q) => match self.zones.find_zone(q.qname(), q.qclass()) {
                Some(z) => z.clone(),
                None => return Box::pin(ready(Err(XfrDataProviderError::UnknownZone))),
            },
        };
        if !self.avail {
            return Box::pin(ready(Err(XfrDataProviderError::TemporarilyUnavailable)));
        }
        let diffs = match diff_from {
            Some(s) => match self.diffs.iter().position(|d| Serial(d.start) == s) {
                Some(i) => self.diffs[i..].to_vec(),
                None => vec![],
            },
            None => vec![],
        };
        Box::pin(ready(Ok(XfrData::new(zone, diffs, self.compat))))
    }
}

pub type XfrSvc = XfrMiddlewareSvc<Vec<u8>, MockNext, Meta, Provider>;
pub type Stack = NotifyMiddlewareSvc<Vec<u8>, XfrSvc, Meta, MockNotify>;

pub fn mk_stack(logs: &Logs, provider: Provider, broken: bool, max_conc: usize) -> Stack {
    let next = MockNext { logs: logs.clone() };
    let xfr = XfrMiddlewareSvc::new(next, provider, max_conc);
    NotifyMiddlewareSvc::new(xfr, MockNotify { logs: logs.clone(), broken })
}

//------------ requests -------------------------------------------------------------

pub fn opcode_of(s: &str) -> Opcode {
    match s {
        "QUERY" => Opcode::QUERY,
        "NOTIFY" => Opcode::NOTIFY,
        "UPDATE" => Opcode::UPDATE,
        "STATUS" => Opcode::STATUS,
        s => Opcode::from_int(s.trim_start_matches("OP").parse().unwrap_or(3)),
    }
}
pub fn rtype_of(s: &str) -> Rtype {
    match s {
        "SOA" => Rtype::SOA,
        "AXFR" => Rtype::AXFR,
        "IXFR" => Rtype::IXFR,
        "A" => Rtype::A,
        "ANY" => Rtype::ANY,
        s => Rtype::from_int(s.trim_start_matches('T').parse().unwrap_or(1)),
    }
}
pub fn class_of(s: &str) -> Class {
    match s {
        "IN" => Class::IN,
        "CH" => Class::CH,
        s => Class::from_int(s.trim_start_matches('C').parse().unwrap_or(1)),
    }
}

/// Builds the request message of an abstract request
/// `{op, qr, qd, qt, qc, zn, an, ans, ns, nss, rd}` with the real
/// MessageBuilder.  an: "none" | "soa" (SOA with serial `ans`) | "a" |
/// "trunc" (ANCOUNT 1, no data); ns: "none" | "soa" (serial `nss`) | "a".
pub fn build_message(r: &Value) -> Vec<u8> {
    let mut b = MessageBuilder::new_vec();
    {
        let h = b.header_mut();
        h.set_id(REQ_ID);
        h.set_opcode(opcode_of(r["op"].as_str().unwrap_or("QUERY")));
        h.set_qr(r["qr"].as_bool().unwrap_or(false));
        h.set_rd(r["rd"].as_bool().unwrap_or(false));
    }
    let qn = qname_of(r["zn"].as_str().unwrap_or("known"));
    let qt = rtype_of(r["qt"].as_str().unwrap_or("SOA"));
    let qc = class_of(r["qc"].as_str().unwrap_or("IN"));
    let qd = r["qd"].as_u64().unwrap_or(1);
    let mut q = b.question();
    if qd >= 1 {
        q.push((&qn, qt, qc)).unwrap();
    }
    for _ in 1..qd {
        q.push((name("second.example."), Rtype::A, Class::IN)).unwrap();
    }
    let mut a = q.answer();
    let serial = |v: &Value| -> u32 {
        match v {
            Value::String(s) => s.parse().unwrap_or(0),
            v => v.as_u64().unwrap_or(0) as u32,
        }
    };
    match r["an"].as_str().unwrap_or("none") {
        "soa" => a.push((&qn, qc, Ttl::from_secs(TTL), soa_of(serial(&r["ans"])))).unwrap(),
        "a" => a
            .push((&qn, qc, Ttl::from_secs(TTL), A::new(Ipv4Addr::new(192, 0, 2, 1))))
            .unwrap(),
        _ => {}
    }
    let mut n = a.authority();
    match r["ns"].as_str().unwrap_or("none") {
        "soa" => n.push((&qn, qc, Ttl::from_secs(TTL), soa_of(serial(&r["nss"])))).unwrap(),
        "a" => n
            .push((&qn, qc, Ttl::from_secs(TTL), A::new(Ipv4Addr::new(192, 0, 2, 2))))
            .unwrap(),
        _ => {}
    }
    let mut octets: Vec<u8> = n.finish();
    if r["an"].as_str() == Some("trunc") {
        octets[6] = 0;
        octets[7] = 1;
    }
    octets
}

pub fn build_request(r: &Value) -> Request<Vec<u8>, Meta> {
    let octets = build_message(r);
    let msg = Message::from_octets(octets).unwrap();
    let ctx = if r["udp"].as_bool().unwrap_or(false) {
        let hint = r["hint"].as_u64().filter(|h| *h > 0).map(|h| h as u16);
        TransportSpecificContext::Udp(UdpTransportContext::new(hint))
    } else {
        TransportSpecificContext::NonUdp(NonUdpTransportContext::new(None))
    };
    let meta: Meta = match r["key"].as_str().unwrap_or("none") {
        "none" => None,
        k => Some(k.to_string()),
    };
    let mut req = Request::new(
        "192.0.2.53:5353".parse().unwrap(),
        tokio::time::Instant::now(),
        msg,
        ctx,
        meta,
    );
    let rsv = r["rsv"].as_u64().unwrap_or(0) as u16;
    if rsv > 0 {
        req.reserve_bytes(rsv);
    }
    req
}

//------------ responses ----------------------------------------------------------

/// One response message, abstracted:
/// rc, qr, aa, tc, ra, op, id (same as request), qd (question equals the
/// request's first question / count), counts, answer records as kinds
/// ("soa:<serial>", "txt:<wire size>", "a", "other") and the wire size.
pub fn abstract_response(octets: &[u8], req_octets: &[u8]) -> Value {
    let m = match Message::from_octets(Bytes::copy_from_slice(octets)) {
        Ok(m) => m,
        Err(_) => return json!({"short": true}),
    };
    let rq = Message::from_octets(Bytes::copy_from_slice(req_octets)).unwrap();
    let h = m.header();
    let c = m.header_counts();
    let q_same = {
        let a: Vec<String> = m.question().map(|q| match q {
            Ok(q) => format!("{} {} {}", q.qname(), q.qtype(), q.qclass()),
            Err(_) => "err".into(),
        }).collect();
        let b: Vec<String> = rq.question().map(|q| match q {
            Ok(q) => format!("{} {} {}", q.qname(), q.qtype(), q.qclass()),
            Err(_) => "err".into(),
        }).collect();
        if a == b { "all" } else if !b.is_empty() && a.len() == 1 && a[0] == b[0] { "first" }
        else if a.is_empty() { "none" } else { "other" }
    };
    let kind = |sec: Result<domain::base::RecordSection<'_, Bytes>, domain::base::wire::ParseError>| -> Vec<String> {
        let mut out = vec![];
        match sec {
            Err(_) => out.push("err".into()),
            Ok(sec) => {
                for r in sec {
                    match r {
                        Err(_) => { out.push("err".into()); break; }
                        Ok(r) => {
                            let owner_len = r.owner().to_name::<Bytes>().compose_len() as usize;
                            let size = owner_len + 10 + r.rdlen() as usize;
                            match r.to_record::<AllRecordData<Bytes, ParsedName<Bytes>>>() {
                                Ok(Some(rec)) => {
                                    match rec.data() {
                                        AllRecordData::Soa(s) => out.push(format!("soa:{}", s.serial().into_int())),
                                        AllRecordData::Txt(_) => out.push(format!("txt:{}", size)),
                                        AllRecordData::A(_) => out.push("a".into()),
                                        AllRecordData::Opt(_) => out.push("opt".into()),
                                        _ => out.push("other".into()),
                                    }
                                }
                                _ => out.push("err".into()),
                            }
                        }
                    }
                }
            }
        }
        out
    };
    json!({
        "rc": h.rcode().to_int(), "qr": h.qr(), "aa": h.aa(), "tc": h.tc(), "ra": h.ra(), "rd": h.rd(),
        "op": h.opcode().to_int(), "id": h.id() == rq.header().id(),
        "q": q_same, "qdc": c.qdcount(), "anc": c.ancount(), "nsc": c.nscount(), "arc": c.arcount(),
        "an": kind(m.answer()), "ns": kind(m.authority()), "ar": kind(m.additional()),
        "size": octets.len(),
    })
}

/// Collects a response stream: a list of `{"fb": "begin"|"end"|...}` and
/// abstracted messages, in order; `{"err": ..}` for a ServiceError item.
pub async fn collect_stream<S>(mut stream: S, req_octets: &[u8]) -> Vec<Value>
where
    S: Stream<Item = ServiceResult<Vec<u8>>> + Unpin,
{
    let mut out = vec![];
    while let Some(item) = stream.next().await {
        match item {
            Err(e) => out.push(json!({"err": format!("{e}")})),
            Ok(cr) => {
                if let Some(fb) = cr.feedback() {
                    out.push(json!({"fb": match fb {
                        ServiceFeedback::BeginTransaction => "begin",
                        ServiceFeedback::EndTransaction => "end",
                        _ => "reconf",
                    }}));
                }
                if let Some(b) = cr.into_inner().0 {
                    let octets: Vec<u8> = b.as_message().as_slice().to_vec();
                    out.push(abstract_response(&octets, req_octets));
                }
            }
        }
    }
    out
}

//------------ batcher --------------------------------------------------------------

/// Callbacks for driving the real CallbackBatcher on its own: the shape of
/// the XFR middleware's (push limit, optional RR limit, optional "must fit
/// in one message"), batches are recorded as lists of record wire sizes.
pub struct RecCallbacks;
pub struct RecState {
    pub limit: Option<usize>,
    pub rr_limit: Option<u16>,
    pub must_fit: bool,
    pub batches: Mutex<Vec<Value>>,
}
#[derive(Debug)]
pub enum RecError {
    Push,
    MustFit,
}
impl From<PushError> for RecError {
    fn from(_: PushError) -> Self {
        RecError::Push
    }
}
impl Callbacks<Vec<u8>, Vec<u8>, Arc<RecState>> for RecCallbacks {
    type Error = RecError;
    fn batch_started(
        st: &Arc<RecState>,
        msg: &Message<Vec<u8>>,
    ) -> Result<AnswerBuilder<StreamTarget<Vec<u8>>>, PushError> {
        let mut b = mk_builder_for_target::<Vec<u8>>();
        if let Some(l) = st.limit {
            b.set_push_limit(l);
        }
        b.start_answer(msg, Rcode::NOERROR)
    }
    fn record_pushed(st: &Arc<RecState>, answer: &AnswerBuilder<StreamTarget<Vec<u8>>>) -> bool {
        match st.rr_limit {
            Some(l) => answer.counts().ancount() == l,
            None => false,
        }
    }
    fn batch_ready(
        st: &Arc<RecState>,
        answer: AnswerBuilder<StreamTarget<Vec<u8>>>,
        finished: bool,
    ) -> Result<(), RecError> {
        if !finished && st.must_fit {
            return Err(RecError::MustFit);
        }
        let msg = answer.as_message();
        let mut sizes = vec![];
        let mut total = 12usize;
        for q in msg.question().flatten() {
            total += q.qname().to_name::<Bytes>().compose_len() as usize + 4;
        }
        if let Ok(sec) = msg.answer() {
            for r in sec.flatten() {
                let n = r.owner().to_name::<Bytes>().compose_len() as usize + 10 + r.rdlen() as usize;
                sizes.push(n);
                total += n;
            }
        }
        st.batches.lock().unwrap().push(json!({
            "recs": sizes, "size": msg.as_slice().len(), "sum": total, "fin": finished,
            "anc": msg.header_counts().ancount(),
        }));
        Ok(())
    }
}

pub type RecBatcher = CallbackBatcher<Vec<u8>, Vec<u8>, RecCallbacks, Arc<RecState>>;

pub fn mk_batcher(limit: Option<usize>, rr_limit: Option<u16>, must_fit: bool) -> (RecBatcher, Arc<RecState>) {
    let mut b = MessageBuilder::new_vec();
    b.header_mut().set_id(REQ_ID);
    let mut q = b.question();
    q.push((apex(), Rtype::AXFR)).unwrap();
    let req = Arc::new(q.into_message());
    let st = Arc::new(RecState { limit, rr_limit, must_fit, batches: Mutex::new(vec![]) });
    (CallbackBatcher::new(req, st.clone()), st)
}

/// pushes a record of wire size `size` (>= 25, see txt_wire_size): owner `hKKK.example.` TXT
pub fn batcher_push(b: &mut RecBatcher, k: usize, size: usize) -> &'static str {
    // TXT rdata: character strings of <= 255 octets; rdlen = pad + ceil(pad/255) (>= 1)
    let want_rdlen = size - 24;
    // find pad with pad + max(1, ceil(pad/255)) = want_rdlen
    let mut pad = want_rdlen.saturating_sub(1);
    loop {
        let chunks = if pad == 0 { 1 } else { (pad + 254) / 255 };
        if pad + chunks == want_rdlen {
            break;
        }
        if pad + chunks < want_rdlen {
            // cannot hit exactly (boundary): caller avoids these sizes
            break;
        }
        pad -= 1;
    }
    let body: Vec<u8> = vec![b'x'; pad];
    let txt: Txt<Vec<u8>> = Txt::build_from_slice(&body).unwrap();
    match b.push((data_owner(k), Class::IN, Ttl::from_secs(TTL), txt)) {
        Ok(_) => "ok",
        Err(RecError::Push) => "err",
        Err(RecError::MustFit) => "mustfit",
    }
}

pub fn batcher_finish(b: &mut RecBatcher) -> &'static str {
    match b.finish() {
        Ok(()) => "ok",
        Err(RecError::Push) => "err",
        Err(RecError::MustFit) => "mustfit",
    }
}

/// wire size the record pushed by `batcher_push(_, _, size)` really has
pub fn txt_wire_size(size: usize) -> usize {
    let want_rdlen = size - 24;
    let mut pad = want_rdlen.saturating_sub(1);
    loop {
        let chunks = if pad == 0 { 1 } else { (pad + 254) / 255 };
        if pad + chunks <= want_rdlen {
            return 24 + pad + chunks;
        }
        pad -= 1;
    }
}

//------------ running one abstract case ----------------------------------------

pub const S_CUR: u32 = 10;
pub const S_MID: u32 = 7;
pub const S_OLD: u32 = 5;
pub const S_GAP: u32 = 3;
pub const S_NEW: u32 = 11;
pub const S_HINT: u32 = 77;

pub fn serial_of_tag(tag: &str, base: u32) -> Option<u32> {
    let k = match tag {
        "cur" => S_CUR,
        "mid" => S_MID,
        "old" => S_OLD,
        "gap" => S_GAP,
        "new" => S_NEW,
        "hint" => S_HINT,
        _ => return None,
    };
    Some(base.wrapping_add(k))
}
pub fn tag_of_serial(serial: u32, base: u32) -> String {
    for t in ["cur", "mid", "old", "gap", "new", "hint"] {
        if serial_of_tag(t, base) == Some(serial) {
            return t.to_string();
        }
    }
    format!("?{}", serial)
}

pub struct World {
    pub logs: Logs,
    pub stack: Stack,
    pub gate: Arc<WalkGate>,
    pub diff_gate: Arc<tokio::sync::Semaphore>,
    pub base: u32,
    pub r: usize,
}

/// cfg = {needKey, avail, broken, compat, store, K, R, d1:{rem,add}, d2:{rem,add}[, base, conc]}
pub fn mk_world(cfg: &Value, diff_gate: Option<Arc<tokio::sync::Semaphore>>) -> World {
    let base: u32 = cfg["base"].as_u64().unwrap_or(0) as u32;
    let r = cfg["R"].as_u64().unwrap_or(29) as usize;
    let k = cfg["K"].as_u64().unwrap_or(3) as usize;
    assert!(r >= 25 && r < 25 + 255);
    let pads: Vec<usize> = vec![r - 25; k];
    let inner = build_zone(base.wrapping_add(S_CUR), &pads, Class::IN);
    let gate = Arc::new(WalkGate::default());
    let zone = match cfg["store"].as_str().unwrap_or("sync") {
        "async" => Zone::new(GateZone { inner, gate: gate.clone(), asynchronous: true }),
        "gated" => Zone::new(GateZone { inner, gate: gate.clone(), asynchronous: false }),
        _ => inner,
    };
    let mut zt = ZoneTree::new();
    zt.insert_zone(zone).unwrap();
    let logs = Logs::default();
    let dg = diff_gate.unwrap_or_else(open_gate);
    let cnt = |v: &Value, f: &str| v[f].as_u64().unwrap_or(0) as usize;
    let mk = |start: u32, end: u32, d: &Value, off: usize| {
        let rem: Vec<(usize, usize)> = (0..cnt(d, "rem")).map(|i| (off + i, r - 25)).collect();
        let add: Vec<(usize, usize)> = (0..cnt(d, "add")).map(|i| (off + 300 + i, r - 25)).collect();
        mk_diff(base.wrapping_add(start), base.wrapping_add(end), &rem, &add, dg.clone())
    };
    let diffs = vec![mk(S_OLD, S_MID, &cfg["d1"], 100), mk(S_MID, S_CUR, &cfg["d2"], 200)];
    let provider = Provider {
        logs: logs.clone(),
        zones: Arc::new(zt),
        need_key: cfg["needKey"].as_bool().unwrap_or(false),
        avail: cfg["avail"].as_bool().unwrap_or(true),
        compat: cfg["compat"].as_bool().unwrap_or(false),
        diffs,
    };
    let conc = cfg["conc"].as_u64().unwrap_or(4) as usize;
    let stack = mk_stack(&logs, provider, cfg["broken"].as_bool().unwrap_or(false), conc);
    World { logs, stack, gate, diff_gate: dg, base, r }
}

/// abstract request of the model -> the JSON build_request understands
pub fn concrete_request(req: &Value, base: u32) -> Value {
    let mut r = req.clone();
    if r["an"].as_str() == Some("soa") {
        r["ans"] = json!(serial_of_tag("hint", base).unwrap());
    }
    let ns = r["ns"].as_str().unwrap_or("none").to_string();
    if let Some(s) = serial_of_tag(&ns, base) {
        r["ns"] = json!("soa");
        r["nss"] = json!(s);
    }
    r
}

fn name_tag(n: &str) -> String {
    match n.trim_end_matches('.') {
        "example" => "known".into(),
        "b.example" => "deep".into(),
        "unknown" => "unknown".into(),
        o => format!("?{}", o),
    }
}

fn project_msg(m: &Value, w: &World) -> Value {
    if m.get("short").is_some() {
        return json!({"k": "msg", "short": true});
    }
    let recs = |v: &Value| -> Vec<Value> {
        v.as_array().map(|a| a.iter().map(|x| {
            let s = x.as_str().unwrap_or("");
            if let Some(n) = s.strip_prefix("soa:") {
                json!(format!("S:{}", tag_of_serial(n.parse().unwrap_or(0), w.base)))
            } else if let Some(n) = s.strip_prefix("txt:") {
                if n.parse::<usize>().ok() == Some(w.r) { json!("T") } else { json!(format!("T?{}", n)) }
            } else if s == "a" { json!("A") } else { json!(s) }
        }).collect()).unwrap_or_default()
    };
    let hdr_ok = m["qr"] == json!(true) && m["id"] == json!(true) && m["tc"] == json!(false)
        && m["ra"] == json!(false);
    json!({"k": "msg", "rc": m["rc"], "aa": m["aa"], "op": m["op"],
           "hdr": if hdr_ok { "ok" } else { "bad" }, "q": m["q"], "an": recs(&m["an"]), "nsc": m["nsc"]})
}

/// Runs one request on the world's stack on the *current* runtime and
/// projects the observation onto the model's outcome.
pub async fn call_projected(w: &World, req_abs: &Value) -> Value {
    let creq = concrete_request(req_abs, w.base);
    let req = build_request(&creq);
    let octets = req.message().as_slice().to_vec();
    let udp = creq["udp"].as_bool().unwrap_or(false);
    let rsv = req.num_reserved_bytes();
    let stack = w.stack.clone();
    let fut = async {
        let stream = stack.call(req).await;
        collect_stream(stream, &octets).await
    };
    let res = futures_util::FutureExt::catch_unwind(std::panic::AssertUnwindSafe(async {
        tokio::time::timeout(std::time::Duration::from_secs(86400), fut).await
    }))
    .await;
    let rs: Vec<Value> = match res {
        Err(_) => vec![json!({"k": "panic"})],
        Ok(Err(_)) => vec![json!({"k": "hang"})],
        Ok(Ok(items)) => items
            .iter()
            .filter(|x| !(udp && x.get("fb").is_some()))
            .map(|x| {
                if let Some(fb) = x.get("fb") {
                    json!({"k": "fb", "v": fb})
                } else if x.get("err").is_some() {
                    json!({"k": "svcerr"})
                } else {
                    project_msg(x, w)
                }
            })
            .collect(),
    };
    let (cb, pv, nx) = w.logs.take();
    let cb: Vec<Value> = cb.iter().map(|c| {
        let s = match c["s"].as_str() { Some("none") => "none".to_string(),
            Some(n) => tag_of_serial(n.parse().unwrap_or(0), w.base), None => "?".into() };
        let mut o = json!({"c": c["c"], "n": name_tag(c["n"].as_str().unwrap_or("")), "s": s});
        if c["src"] != json!("192.0.2.53") { o["src"] = c["src"].clone(); }
        o
    }).collect();
    let qt_is_ixfr = req_abs["qt"].as_str() == Some("IXFR");
    let pv: Vec<Value> = pv.iter().map(|p| {
        let from = if !qt_is_ixfr { "-".to_string() } else {
            match p["from"].as_str() { Some("none") => "none".to_string(),
                Some(n) => tag_of_serial(n.parse().unwrap_or(0), w.base), None => "?".into() } };
        let mut o = json!({"qt": p["qt"], "from": from,
                           "key": p["key"].as_str().unwrap_or("none")});
        if p["udp"] != json!(udp) { o["udp"] = p["udp"].clone(); }
        o
    }).collect();
    let nx: Vec<Value> = nx.iter().map(|n| {
        let mut o = json!({"meta": n["meta"].as_str().unwrap_or("none")});
        if n["msg"] != json!(octets) || n["udp"] != json!(udp) || n["rsv"] != json!(rsv)
            || n["addr"] != json!("192.0.2.53:5353") {
            o["changed"] = json!(true);
        }
        o
    }).collect();
    json!({"cb": cb, "pv": pv, "nx": nx, "rs": rs})
}

pub fn new_runtime() -> tokio::runtime::Runtime {
    tokio::runtime::Builder::new_current_thread()
        .enable_all()
        .start_paused(true)
        .build()
        .unwrap()
}

/// one "call" case of the grid: fresh world, fresh runtime
pub fn run_call_case(input: &Value) -> Value {
    let w = mk_world(&input["cfg"], None);
    let rt = new_runtime();
    let obs = rt.block_on(call_projected(&w, &input["req"]));
    drop(rt);
    // where the specification admits alternatives, report the specified one
    if let Some(alts) = input["alts"].as_array() {
        if alts.iter().any(|a| a == &obs) {
            return input["ideal"].clone();
        }
    }
    obs
}

//------------ concurrency scenarios ------------------------------------------------

type StackStream = <Stack as Service<Vec<u8>, Meta>>::Stream;

/// Takes what is available on a response stream without waiting.
/// Returns (items, ended).
fn drain_available(s: &mut StackStream, octets: &[u8], acc: &mut Vec<Value>) -> bool {
    loop {
        match futures_util::FutureExt::now_or_never(s.next()) {
            None => return false,
            Some(None) => return true,
            Some(Some(item)) => match item {
                Err(e) => acc.push(json!({"err": format!("{e}")})),
                Ok(cr) => {
                    if let Some(fb) = cr.feedback() {
                        acc.push(json!({"fb": match fb {
                            ServiceFeedback::BeginTransaction => "begin",
                            ServiceFeedback::EndTransaction => "end",
                            _ => "reconf",
                        }}));
                    }
                    if let Some(b) = cr.into_inner().0 {
                        let o: Vec<u8> = b.as_message().as_slice().to_vec();
                        acc.push(abstract_response(&o, octets));
                    }
                }
            },
        }
    }
}

async fn settle(rounds: usize) {
    for _ in 0..rounds {
        tokio::task::yield_now().await;
    }
}

fn stream_complete(items: &[Value], want_recs: usize) -> bool {
    let msgs: Vec<&Value> = items.iter().filter(|x| x.get("rc").is_some()).collect();
    let recs: Vec<String> = msgs
        .iter()
        .flat_map(|m| m["an"].as_array().cloned().unwrap_or_default())
        .map(|v| v.as_str().unwrap_or("").to_string())
        .collect();
    items.first() == Some(&json!({"fb": "begin"}))
        && items.last() == Some(&json!({"fb": "end"}))
        && msgs.iter().all(|m| m["rc"] == json!(0))
        && recs.len() == want_recs
        && recs.first().map(|s| s.starts_with("soa:")).unwrap_or(false)
        && recs.first() == recs.last()
}

/// A "conc" scenario: in = {n, xfr: "axfr"|"ixfr", k, drops: [indices 1..k]}.
/// Phase 1: k transfers are started while the harness holds every zone walk
/// (axfr) / every difference stream (ixfr); at rest, `active` = number of
/// walks inside the store (axfr) or of responders that have produced a
/// message (ixfr).  Phase 2: the listed streams are dropped, the gate is
/// opened, the others are read to their end; then one more transfer.
/// Returns {active, completed, fresh} and an event log for the recorder.
pub fn run_conc(input: &Value, log: &mut Vec<Value>) -> Value {
    let n = input["n"].as_u64().unwrap() as usize;
    let k = input["k"].as_u64().unwrap() as usize;
    let axfr = input["xfr"].as_str() == Some("axfr");
    let drops: Vec<usize> = input["drops"].as_array().map(|a| a.iter().map(|x| x.as_u64().unwrap() as usize).collect()).unwrap_or_default();
    let zone_k = input["zone_k"].as_u64().unwrap_or(3);
    let cfg = json!({"needKey": false, "avail": true, "broken": false, "compat": false,
                     "store": if axfr { "gated" } else { "sync" }, "K": zone_k, "R": 29,
                     "d1": {"rem": 1, "add": 2}, "d2": {"rem": 2, "add": 1}, "conc": n});
    let dgate = Arc::new(tokio::sync::Semaphore::new(0));
    let w = mk_world(&cfg, if axfr { None } else { Some(dgate.clone()) });
    if axfr {
        w.gate.set_closed(true);
    }
    let req_abs = if axfr {
        json!({"op": "QUERY", "qr": false, "qd": 1, "qt": "AXFR", "qc": "IN", "zn": "known",
               "udp": false, "hint": 0, "rsv": 0, "an": "none", "ns": "none", "key": "none"})
    } else {
        json!({"op": "QUERY", "qr": false, "qd": 1, "qt": "IXFR", "qc": "IN", "zn": "known",
               "udp": false, "hint": 0, "rsv": 65435, "an": "none", "ns": "old", "key": "none"})
    };
    let want_recs = if axfr { zone_k as usize + 2 } else { 12 };
    let rt = new_runtime();
    let obs = rt.block_on(async {
        let creq = concrete_request(&req_abs, w.base);
        let octets = build_message(&creq);
        let mut streams: Vec<Option<StackStream>> = vec![];
        let mut items: Vec<Vec<Value>> = vec![];
        let mut ended: Vec<bool> = vec![];
        for t in 0..k {
            let s = w.stack.call(build_request(&creq)).await;
            streams.push(Some(s));
            items.push(vec![]);
            ended.push(false);
            log.push(json!({"ev": "start", "t": t + 1, "kind": if axfr { "axfr" } else { "ixfr" }}));
        }
        // ---- rest
        let want_min = k.min(n);
        let t0 = std::time::Instant::now();
        let mut last_change = std::time::Instant::now();
        let mut seen = 0usize;
        loop {
            settle(50).await;
            for t in 0..k {
                if let Some(s) = streams[t].as_mut() {
                    ended[t] = drain_available(s, &octets, &mut items[t]) || ended[t];
                }
            }
            let now_seen = if axfr {
                w.gate.snapshot().2
            } else {
                items.iter().filter(|v| v.iter().any(|x| x.get("rc").is_some())).count()
            };
            if now_seen != seen {
                seen = now_seen;
                last_change = std::time::Instant::now();
            }
            if !axfr || seen >= k {
                break; // async path: deterministic after settling; or every walk is inside
            }
            let idle = last_change.elapsed().as_millis();
            if (seen >= want_min && idle > 200) || t0.elapsed().as_millis() > 10_000 {
                break;
            }
            std::thread::sleep(std::time::Duration::from_millis(2));
        }
        let active = if axfr { w.gate.snapshot().0 } else { seen };
        log.push(json!({"ev": "rest", "active": active}));
        // ---- phase 2
        for d in &drops {
            streams[*d - 1] = None;
            log.push(json!({"ev": "drop", "t": d}));
        }
        settle(20).await;
        if axfr {
            w.gate.set_closed(false);
        } else {
            dgate.add_permits(1_000_000);
        }
        log.push(json!({"ev": "open"}));
        let mut completed = 0usize;
        for t in 0..k {
            if let Some(mut s) = streams[t].take() {
                let fut = async {
                    while !ended[t] {
                        match s.next().await {
                            None => ended[t] = true,
                            Some(Ok(cr)) => {
                                if let Some(fb) = cr.feedback() {
                                    items[t].push(json!({"fb": match fb {
                                        ServiceFeedback::BeginTransaction => "begin",
                                        ServiceFeedback::EndTransaction => "end",
                                        _ => "reconf" }}));
                                }
                                if let Some(b) = cr.into_inner().0 {
                                    let o: Vec<u8> = b.as_message().as_slice().to_vec();
                                    items[t].push(abstract_response(&o, &octets));
                                }
                            }
                            Some(Err(e)) => items[t].push(json!({"err": format!("{e}")})),
                        }
                    }
                };
                let r = tokio::time::timeout(std::time::Duration::from_secs(86400), fut).await;
                let okc = r.is_ok() && stream_complete(&items[t], want_recs);
                if okc {
                    completed += 1;
                }
                log.push(json!({"ev": "read", "t": t + 1, "complete": okc, "hang": r.is_err()}));
            }
        }
        // ---- one more transfer afterwards
        let s = w.stack.call(build_request(&creq)).await;
        let r = tokio::time::timeout(std::time::Duration::from_secs(86400), collect_stream(s, &octets)).await;
        let fresh = match r {
            Ok(v) => stream_complete(&v, want_recs),
            Err(_) => false,
        };
        log.push(json!({"ev": "fresh", "complete": fresh}));
        json!({"active": active, "completed": completed, "fresh": fresh})
    });
    if axfr {
        let (_, _, entered, _) = w.gate.snapshot();
        w.gate.wait_finished(entered, 10_000);
    }
    drop(rt);
    obs
}

pub fn run_conc_case(input: &Value) -> Value {
    let mut log = vec![];
    run_conc(input, &mut log)
}
