//! X02 support code shared by replay_cookies / record_cookies: a settable
//! system clock, an independent SipHash-2-4 evaluator for the symbolic
//! server-cookie terms of spec/Cookies.tla, request construction from raw
//! octets, a recording service, and the projection of what the real
//! `CookiesMiddlewareSvc` did.
//!
//! Included with `#[path = "../cookies.rs"] mod cookies;` by the two
//! binaries (it defines the process-wide `clock_gettime` symbol, so it must
//! be linked exactly once per executable and never become part of the lib).
#![allow(dead_code)]

use std::future::{ready, Ready};
use std::net::{IpAddr, Ipv4Addr, Ipv6Addr, SocketAddr};
use std::sync::atomic::{AtomicBool, AtomicI64, Ordering};
use std::sync::{Arc, Mutex};

use domain::base::iana::Rcode;
use domain::base::message_builder::AdditionalBuilder;
use domain::base::name::Name;
use domain::base::record::Ttl;
use domain::base::{Message, StreamTarget};
use domain::net::server::message::{
    NonUdpTransportContext, Request, TransportSpecificContext, UdpTransportContext,
};
use domain::net::server::middleware::cookies::CookiesMiddlewareSvc;
use domain::net::server::service::{CallResult, Service, ServiceError, ServiceResult};
use domain::net::server::util::mk_builder_for_target;
use domain::rdata::A;
use futures_util::stream::{once, Once};
use futures_util::StreamExt;
use serde_json::{json, Value};

//------------ the clock -----------------------------------------------------
//
// `Serial::now()` is `SystemTime::now()` = clock_gettime(CLOCK_REALTIME).

static FROZEN: AtomicBool = AtomicBool::new(false);
static REAL_S: AtomicI64 = AtomicI64::new(0);

#[repr(C)]
pub struct Timespec {
    tv_sec: i64,
    tv_nsec: i64,
}

extern "C" {
    fn syscall(num: i64, ...) -> i64;
}

const SYS_CLOCK_GETTIME: i64 = 228; // x86_64
const CLOCK_REALTIME: i32 = 0;

/// Interposed libc symbol: std's `SystemTime::now()` ends up here.
#[no_mangle]
pub unsafe extern "C" fn clock_gettime(clk: i32, ts: *mut Timespec) -> i32 {
    if clk == CLOCK_REALTIME && FROZEN.load(Ordering::SeqCst) {
        (*ts).tv_sec = REAL_S.load(Ordering::SeqCst);
        (*ts).tv_nsec = 500_000_000;
        return 0;
    }
    syscall(SYS_CLOCK_GETTIME, clk as i64, ts) as i32
}

/// Set the wall clock so that `Serial::now()` is `serial`.  Values before
/// 2001-09-09 are given as their post-2106 representatives (the `as u32`
/// truncation in `Serial::now` is part of what is exercised).
pub fn set_now(serial: u32) {
    let mut s = serial as i64;
    if s < 1_000_000_000 {
        s += 1i64 << 32;
    }
    REAL_S.store(s, Ordering::SeqCst);
    FROZEN.store(true, Ordering::SeqCst);
}

/// Does the interposition work and does the library see it?
pub fn clock_selftest() -> bool {
    for v in [0u32, 1, 0x7fff_ffff, 0x8000_0000, 0xffff_ffff, 1_559_731_985] {
        set_now(v);
        if domain::base::Serial::now().into_int() != v {
            return false;
        }
    }
    true
}

//------------ SipHash-2-4 (independent of the siphasher crate) ----------------

fn sipround(v: &mut [u64; 4]) {
    v[0] = v[0].wrapping_add(v[1]);
    v[1] = v[1].rotate_left(13);
    v[1] ^= v[0];
    v[0] = v[0].rotate_left(32);
    v[2] = v[2].wrapping_add(v[3]);
    v[3] = v[3].rotate_left(16);
    v[3] ^= v[2];
    v[0] = v[0].wrapping_add(v[3]);
    v[3] = v[3].rotate_left(21);
    v[3] ^= v[0];
    v[2] = v[2].wrapping_add(v[1]);
    v[1] = v[1].rotate_left(17);
    v[1] ^= v[2];
    v[2] = v[2].rotate_left(32);
}

/// SipHash-2-4 of `data` under the 128-bit `key` (Aumasson & Bernstein),
/// output in the reference implementation's octet order (little endian).
pub fn siphash24(key: &[u8; 16], data: &[u8]) -> [u8; 8] {
    let k0 = u64::from_le_bytes(key[0..8].try_into().unwrap());
    let k1 = u64::from_le_bytes(key[8..16].try_into().unwrap());
    let mut v = [
        k0 ^ 0x736f6d6570736575,
        k1 ^ 0x646f72616e646f6d,
        k0 ^ 0x6c7967656e657261,
        k1 ^ 0x7465646279746573,
    ];
    let mut chunks = data.chunks_exact(8);
    for c in &mut chunks {
        let m = u64::from_le_bytes(c.try_into().unwrap());
        v[3] ^= m;
        sipround(&mut v);
        sipround(&mut v);
        v[0] ^= m;
    }
    let rem = chunks.remainder();
    let mut last = [0u8; 8];
    last[..rem.len()].copy_from_slice(rem);
    last[7] = data.len() as u8;
    let m = u64::from_le_bytes(last);
    v[3] ^= m;
    sipround(&mut v);
    sipround(&mut v);
    v[0] ^= m;
    v[2] ^= 0xff;
    for _ in 0..4 {
        sipround(&mut v);
    }
    (v[0] ^ v[1] ^ v[2] ^ v[3]).to_le_bytes()
}

pub fn ip_octets(ip: IpAddr) -> Vec<u8> {
    match ip {
        IpAddr::V4(a) => a.octets().to_vec(),
        IpAddr::V6(a) => a.octets().to_vec(),
    }
}

/// The value of the term Hash(secret, cc, ver, rsv, ts, ip) (RFC 9018 4.2).
pub fn term_hash(secret: &[u8; 16], cc: &[u8; 8], ver: u8, rsv: [u8; 3], ts: u32, ip: IpAddr) -> [u8; 8] {
    let mut d = Vec::with_capacity(32);
    d.extend_from_slice(cc);
    d.push(ver);
    d.extend_from_slice(&rsv);
    d.extend_from_slice(&ts.to_be_bytes());
    d.extend_from_slice(&ip_octets(ip));
    siphash24(secret, &d)
}

fn hex(s: &str) -> Vec<u8> {
    (0..s.len() / 2)
        .map(|i| u8::from_str_radix(&s[2 * i..2 * i + 2], 16).unwrap())
        .collect()
}

/// The evaluator against the SipHash paper's vector and RFC 9018 Appendix A.
pub fn hash_selftest() -> bool {
    let key: [u8; 16] = core::array::from_fn(|i| i as u8);
    let msg: Vec<u8> = (0u8..15).collect();
    if siphash24(&key, &msg) != 0xa129ca6149be45e5u64.to_le_bytes() {
        return false;
    }
    let s: [u8; 16] = hex("e5e973e5a6b2a43f48e7dc849e37bfcf").try_into().unwrap();
    let cc1: [u8; 8] = hex("2464c4abcf10c957").try_into().unwrap();
    let cc2: [u8; 8] = hex("fc93fc62807ddb86").try_into().unwrap();
    let c1 = IpAddr::V4(Ipv4Addr::new(198, 51, 100, 100));
    let c2 = IpAddr::V4(Ipv4Addr::new(203, 0, 113, 203));
    let ok1 = term_hash(&s, &cc1, 1, [0; 3], 1559731985, c1).to_vec() == hex("1f8130c3eee29480");
    let ok2 = term_hash(&s, &cc1, 1, [0; 3], 1559734385, c1).to_vec() == hex("d4a564a1442aca77");
    let ok3 = term_hash(&s, &cc2, 1, [0xab, 0xcd, 0xef], 1559727985, c2).to_vec() == hex("a314227b6679ebf5");
    let old: [u8; 16] = hex("dd3bdf9344b678b185a6f5cb60fca715").try_into().unwrap();
    let cc6: [u8; 8] = hex("22681ab97d52c298").try_into().unwrap();
    let c6 = IpAddr::V6(Ipv6Addr::new(0x2001, 0xdb8, 0x220, 0x1, 0x59de, 0xd0f4, 0x8769, 0x82b8));
    let ok4 = term_hash(&old, &cc6, 1, [0; 3], 1559741817, c6).to_vec() == hex("26556bd0934c72f8");
    ok1 && ok2 && ok3 && ok4
}

//------------ the symbolic universe -------------------------------------------

pub const MOD_HALF: u64 = 1 << 31;
pub const PAST: i64 = 3600;
pub const FUTURE: i64 = 300;

pub fn secret_of(s: &str) -> [u8; 16] {
    match s {
        "s1" => hex("e5e973e5a6b2a43f48e7dc849e37bfcf").try_into().unwrap(),
        "s2" => hex("445536bcd2513298075a5d379663c962").try_into().unwrap(),
        _ => {
            // recorder: "s<n>" -> derived
            let n: u64 = s[1..].parse().unwrap_or(0);
            let mut k = [0u8; 16];
            k[..8].copy_from_slice(&n.wrapping_mul(0x9E3779B97F4A7C15).to_le_bytes());
            k[8..].copy_from_slice(&(n ^ 0xdead_beef).to_be_bytes());
            k
        }
    }
}
pub fn other_secret(s: &str) -> &'static str {
    if s == "s1" { "s2" } else { "s1" }
}
pub fn cc_of(c: &str) -> [u8; 8] {
    match c {
        "c1" => hex("2464c4abcf10c957").try_into().unwrap(),
        _ => hex("fc93fc62807ddb86").try_into().unwrap(),
    }
}
pub fn other_cc(c: &str) -> &'static str {
    if c == "c1" { "c2" } else { "c1" }
}
pub fn ip_of(i: &str) -> IpAddr {
    match i {
        "a" => IpAddr::V4(Ipv4Addr::new(198, 51, 100, 100)),
        "b" => IpAddr::V4(Ipv4Addr::new(203, 0, 113, 203)),
        _ => IpAddr::V6(Ipv6Addr::new(0x2001, 0xdb8, 0x220, 0x1, 0x59de, 0xd0f4, 0x8769, 0x82b8)),
    }
}
pub fn other_ip(i: &str) -> &'static str {
    if i == "a" { "b" } else { "a" }
}
pub fn rsv_of(r: i64) -> [u8; 3] {
    if r == 0 { [0, 0, 0] } else { [0xab, 0xcd, 0xef] }
}

/// h*2^31 + p*3600 + f*300 + k  modulo 2^32
pub fn eval_expr(e: &Value) -> u32 {
    let g = |k: &str| e[k].as_i64().unwrap_or(0);
    let v = g("h") * (MOD_HALF as i64) + g("p") * PAST + g("f") * FUTURE + g("k");
    v.rem_euclid(1i64 << 32) as u32
}

/// RFC 9018 4.3 at 2^32, for the consistency guard of symbolic cases.
pub fn in_window(now: u32, ts: u32) -> bool {
    (now.wrapping_sub(ts) as u64) <= PAST as u64 || (ts.wrapping_sub(now) as u64) <= FUTURE as u64
}

//------------ requests ----------------------------------------------------------

/// A concrete COOKIE option (the option data).
pub fn std_cookie(cc: &[u8; 8], ver: u8, rsv: [u8; 3], ts: u32, hash: &[u8; 8]) -> Vec<u8> {
    let mut d = cc.to_vec();
    d.push(ver);
    d.extend_from_slice(&rsv);
    d.extend_from_slice(&ts.to_be_bytes());
    d.extend_from_slice(hash);
    d
}

pub const QUESTION: [u8; 17] = [
    7, b'e', b'x', b'a', b'm', b'p', b'l', b'e', 3, b'c', b'o', b'm', 0, 0, 1, 0, 1,
];

/// Raw request: header, QDCOUNT questions, and (opt != "none") an OPT record
/// whose data is a padding option followed by the given COOKIE options
/// ("bad": the data ends inside an option, `Message::opt()` is None).
pub fn mk_request(id: u16, qd: u16, opt: &str, cookies: &[Vec<u8>]) -> Vec<u8> {
    let mut m = Vec::new();
    m.extend_from_slice(&id.to_be_bytes());
    m.extend_from_slice(&[0x01, 0x00]); // RD
    m.extend_from_slice(&qd.to_be_bytes());
    m.extend_from_slice(&[0, 0, 0, 0]);
    m.extend_from_slice(&(if opt == "none" { 0u16 } else { 1 }).to_be_bytes());
    for _ in 0..qd {
        m.extend_from_slice(&QUESTION);
    }
    if opt != "none" {
        let mut rd = Vec::new();
        rd.extend_from_slice(&[0, 12, 0, 2, 0, 0]); // padding(2)
        if opt == "bad" {
            rd.extend_from_slice(&[0, 10, 0, 24, 1, 2, 3, 4, 5, 6, 7, 8]);
        }
        for c in cookies {
            rd.extend_from_slice(&[0, 10]);
            rd.extend_from_slice(&(c.len() as u16).to_be_bytes());
            rd.extend_from_slice(c);
        }
        m.push(0);
        m.extend_from_slice(&[0, 41, 0x04, 0xd0, 0, 0, 0, 0]);
        m.extend_from_slice(&(rd.len() as u16).to_be_bytes());
        m.extend_from_slice(&rd);
    }
    m
}

pub fn mk_ctx(udp: bool) -> TransportSpecificContext {
    if udp {
        UdpTransportContext::new(Some(1232)).into()
    } else {
        NonUdpTransportContext::new(Some(std::time::Duration::from_secs(7))).into()
    }
}

//------------ the recording service ----------------------------------------------

#[derive(Default)]
pub struct Seen {
    pub calls: Vec<(Vec<u8>, SocketAddr, bool, u16)>,
}

#[derive(Clone)]
pub struct RecSvc {
    pub seen: Arc<Mutex<Seen>>,
    /// 0: plain answer, 1: answer with an OPT record (padding option), 2: SERVFAIL
    pub variant: Arc<Mutex<u8>>,
}

impl std::fmt::Debug for RecSvc {
    fn fmt(&self, f: &mut std::fmt::Formatter<'_>) -> std::fmt::Result {
        f.write_str("RecSvc")
    }
}

impl RecSvc {
    pub fn new() -> Self {
        RecSvc { seen: Default::default(), variant: Arc::new(Mutex::new(0)) }
    }
}

pub fn svc_response(
    msg: &Message<Vec<u8>>,
    variant: u8,
) -> Result<AdditionalBuilder<StreamTarget<Vec<u8>>>, ServiceError> {
    let b = mk_builder_for_target::<Vec<u8>>();
    if variant == 2 {
        let ans = b
            .start_answer(msg, Rcode::SERVFAIL)
            .map_err(|_| ServiceError::InternalError)?;
        return Ok(ans.additional());
    }
    let mut ans = b
        .start_answer(msg, Rcode::NOERROR)
        .map_err(|_| ServiceError::InternalError)?;
    ans.push((
        Name::root_ref(),
        domain::base::iana::Class::IN,
        Ttl::from_secs(60),
        A::from_octets(192, 0, 2, 1),
    ))
    .map_err(|_| ServiceError::InternalError)?;
    let mut add = ans.additional();
    add.push((
        Name::root_ref(),
        domain::base::iana::Class::IN,
        Ttl::from_secs(61),
        A::from_octets(192, 0, 2, 2),
    ))
    .map_err(|_| ServiceError::InternalError)?;
    if variant == 1 {
        add.opt(|o| {
            o.set_udp_payload_size(1400);
            o.padding(3)?;
            Ok(())
        })
        .map_err(|_| ServiceError::InternalError)?;
    }
    Ok(add)
}

impl Service<Vec<u8>, ()> for RecSvc {
    type Target = Vec<u8>;
    type Stream = Once<Ready<ServiceResult<Vec<u8>>>>;
    type Future = Ready<Self::Stream>;
    fn call(&self, request: Request<Vec<u8>, ()>) -> Self::Future {
        let udp = request.transport_ctx().is_udp();
        self.seen.lock().unwrap().calls.push((
            request.message().as_slice().to_vec(),
            request.client_addr(),
            udp,
            request.num_reserved_bytes(),
        ));
        let v = *self.variant.lock().unwrap();
        ready(once(ready(svc_response(request.message(), v).map(CallResult::new))))
    }
}

pub type Mw = CookiesMiddlewareSvc<Vec<u8>, RecSvc, ()>;

/// The configuration of the real object, read back from its `Debug` output
/// (the fields are private).
pub fn project_cfg(mw: &Mw) -> Value {
    let s = format!("{:?}", mw);
    let grab = |key: &str| -> String {
        match s.find(key) {
            None => "?".into(),
            Some(i) => {
                let rest = &s[i + key.len()..];
                if rest.starts_with('[') {
                    rest[1..rest.find(']').unwrap_or(1)].to_string()
                } else {
                    rest.chars().take_while(|c| c.is_alphanumeric()).collect()
                }
            }
        }
    };
    let secret: Vec<u8> = grab("server_secret: ")
        .split(',')
        .filter_map(|x| x.trim().parse().ok())
        .collect();
    let deny: Vec<String> = grab("ip_deny_list: ")
        .split(',')
        .map(|x| x.trim().to_string())
        .filter(|x| !x.is_empty())
        .collect();
    json!({"secret": secret, "deny": deny, "enabled": grab("enabled: ") == "true"})
}

//------------ raw message analysis (no library parser) ---------------------------

#[derive(Debug, Clone, PartialEq)]
pub struct RawRr {
    pub owner: Vec<u8>,
    pub rtype: u16,
    pub class: u16,
    pub ttl: u32,
    pub rdata: Vec<u8>,
}

#[derive(Debug, Clone)]
pub struct RawMsg {
    pub id: u16,
    pub flags: u16,
    pub counts: [u16; 4],
    pub question: Vec<u8>,
    pub sections: [Vec<RawRr>; 3],
}

fn skip_name(b: &[u8], mut i: usize) -> Option<usize> {
    loop {
        let l = *b.get(i)? as usize;
        if l & 0xc0 == 0xc0 {
            b.get(i + 1)?;
            return Some(i + 2);
        }
        if l == 0 {
            return Some(i + 1);
        }
        i += 1 + l;
    }
}

pub fn parse_raw(b: &[u8]) -> Option<RawMsg> {
    if b.len() < 12 {
        return None;
    }
    let u = |i: usize| u16::from_be_bytes([b[i], b[i + 1]]);
    let counts = [u(4), u(6), u(8), u(10)];
    let mut i = 12;
    for _ in 0..counts[0] {
        i = skip_name(b, i)?;
        if i + 4 > b.len() {
            return None;
        }
        i += 4;
    }
    let question = b[12..i].to_vec();
    let mut sections: [Vec<RawRr>; 3] = Default::default();
    for (s, sec) in sections.iter_mut().enumerate() {
        for _ in 0..counts[s + 1] {
            let j = skip_name(b, i)?;
            if j + 10 > b.len() {
                return None;
            }
            let rdlen = u(j + 8) as usize;
            if j + 10 + rdlen > b.len() {
                return None;
            }
            sec.push(RawRr {
                owner: b[i..j].to_vec(),
                rtype: u(j),
                class: u(j + 2),
                ttl: u32::from_be_bytes([b[j + 4], b[j + 5], b[j + 6], b[j + 7]]),
                rdata: b[j + 10..j + 10 + rdlen].to_vec(),
            });
            i = j + 10 + rdlen;
        }
    }
    if i != b.len() {
        return None;
    }
    Some(RawMsg { id: u(0), flags: u(2), counts, question, sections })
}

/// (code, data) of every option; None if the OPT data is not a TLV sequence
pub fn options(rdata: &[u8]) -> Option<Vec<(u16, Vec<u8>)>> {
    let mut out = vec![];
    let mut i = 0;
    while i < rdata.len() {
        if i + 4 > rdata.len() {
            return None;
        }
        let code = u16::from_be_bytes([rdata[i], rdata[i + 1]]);
        let len = u16::from_be_bytes([rdata[i + 2], rdata[i + 3]]) as usize;
        if i + 4 + len > rdata.len() {
            return None;
        }
        out.push((code, rdata[i + 4..i + 4 + len].to_vec()));
        i += 4 + len;
    }
    Some(out)
}

impl RawMsg {
    pub fn opt(&self) -> Option<&RawRr> {
        self.sections[2].iter().find(|r| r.rtype == 41)
    }
    /// header RCODE with the OPT record's extension
    pub fn rcode(&self) -> u16 {
        let low = self.flags & 0x000f;
        match self.opt() {
            Some(o) => ((o.ttl >> 24) as u16) << 4 | low,
            None => low,
        }
    }
    pub fn cookies(&self) -> Vec<Vec<u8>> {
        match self.opt().and_then(|o| options(&o.rdata)) {
            Some(os) => os.into_iter().filter(|(c, _)| *c == 10).map(|(_, d)| d).collect(),
            None => vec![],
        }
    }
    /// everything except the COOKIE option(s), RCODE bits and ARCOUNT
    fn rest(&self) -> Value {
        let rr = |r: &RawRr| json!([r.owner, r.rtype, r.class, r.ttl, r.rdata]);
        let non_opt: Vec<Value> = self.sections[2].iter().filter(|r| r.rtype != 41).map(rr).collect();
        let other_opts: Vec<(u16, Vec<u8>)> = self
            .opt()
            .and_then(|o| options(&o.rdata))
            .unwrap_or_default()
            .into_iter()
            .filter(|(c, _)| *c != 10)
            .collect();
        json!({
            "id": self.id, "flags": self.flags & 0xfff0, "q": self.question,
            "an": self.sections[0].iter().map(rr).collect::<Vec<_>>(),
            "ns": self.sections[1].iter().map(rr).collect::<Vec<_>>(),
            "ar": non_opt, "opts": other_opts,
        })
    }
}

/// "same": the final response is the service's response except for the
/// COOKIE option of its OPT record (an OPT record may have been created for it)
pub fn rest_same(svc: &RawMsg, fin: &RawMsg) -> bool {
    if svc.rest() != fin.rest() {
        return false;
    }
    match (svc.opt(), fin.opt()) {
        (Some(a), Some(b)) => a.class == b.class && (a.ttl & 0x00ff_ffff) == (b.ttl & 0x00ff_ffff) && a.owner == b.owner,
        (None, Some(b)) => !fin.cookies().is_empty() && b.owner == [0u8],
        (None, None) => true,
        (Some(_), None) => false,
    }
}

//------------ one call ---------------------------------------------------------

pub struct CallSpec {
    pub udp: bool,
    pub ip: IpAddr,
    pub qd: u16,
    pub opt: String,
    pub cookies: Vec<Vec<u8>>,
}

pub struct Observed {
    /// the projection the specification talks about
    pub obs: Value,
    /// COOKIE options of the final response
    pub cookies: Vec<Vec<u8>>,
    pub rcode: u16,
}

pub fn rcode_name(rc: u16, svc_rc: Option<u16>) -> String {
    if Some(rc) == svc_rc {
        return "svc".into();
    }
    match rc {
        0 => "NOERROR".into(),
        1 => "FORMERR".into(),
        5 => "REFUSED".into(),
        23 => "BADCOOKIE".into(),
        x => format!("rcode{}", x),
    }
}

/// What a fresh server cookie for this request must be, computed here.
pub fn expected_fresh(secret: &[u8; 16], cc: &[u8; 8], now: u32, ip: IpAddr) -> Vec<u8> {
    let h = term_hash(secret, cc, 1, [0; 3], now, ip);
    std_cookie(cc, 1, [0; 3], now, &h)
}

/// Perform one `Service::call` on the real middleware with the clock at `now`
/// and describe what happened.  `secret` is the harness's idea of the
/// configured secret (used only to recompute the expected fresh cookie).
pub fn do_call(
    rt: &tokio::runtime::Runtime,
    mw: &Mw,
    svc: &RecSvc,
    variant: u8,
    secret: &[u8; 16],
    now: u32,
    id: u16,
    c: &CallSpec,
) -> Observed {
    set_now(now);
    *svc.variant.lock().unwrap() = variant;
    svc.seen.lock().unwrap().calls.clear();
    let bytes = mk_request(id, c.qd, &c.opt, &c.cookies);
    let msg = Message::from_octets(bytes.clone()).expect("request has a header");
    let addr = SocketAddr::new(c.ip, 5300 + (id % 100));
    let (mut items, received_at) = rt.block_on(async {
        let at = tokio::time::Instant::now();
        let req = Request::new(addr, at, msg, mk_ctx(c.udp), ());
        let mut stream = mw.call(req).await;
        let mut items = vec![];
        while let Some(it) = stream.next().await {
            items.push(it);
            if items.len() > 3 {
                break;
            }
        }
        (items, at)
    });
    let _ = received_at;
    let seen = std::mem::take(&mut svc.seen.lock().unwrap().calls);
    let fwd = match seen.len() {
        0 => "none",
        1 => {
            let (m, a, u, rsv) = &seen[0];
            if *m == bytes && *a == addr && *u == c.udp && *rsv == 0 { "same" } else { "changed" }
        }
        _ => "multi",
    };
    if items.len() != 1 {
        return Observed { obs: json!({"items": items.len(), "fwd": fwd}), cookies: vec![], rcode: 0 };
    }
    let (resp, feedback) = match items.pop().unwrap() {
        Ok(cr) => cr.into_inner(),
        Err(_) => return Observed { obs: json!({"service_error": true, "fwd": fwd}), cookies: vec![], rcode: 0 },
    };
    let resp = match resp {
        Some(r) => r.finish().as_dgram_slice().to_vec(),
        None => return Observed { obs: json!({"no_response": true, "fwd": fwd}), cookies: vec![], rcode: 0 },
    };
    let fin = match parse_raw(&resp) {
        Some(m) => m,
        None => return Observed { obs: json!({"unparseable_response": resp, "fwd": fwd}), cookies: vec![], rcode: 0 },
    };
    let act = if fwd == "none" { "reply" } else { "pass" };
    // what the service answered (recomputed: the service is deterministic)
    let svc_raw = if fwd == "none" {
        None
    } else {
        let m = Message::from_octets(bytes.clone()).unwrap();
        svc_response(&m, variant).ok().and_then(|b| parse_raw(b.finish().as_dgram_slice()))
    };
    let rc = fin.rcode();
    let cookies = fin.cookies();
    let req_first_cc: Option<[u8; 8]> = if c.opt == "ok" {
        c.cookies.first().and_then(|d| d.get(0..8)).map(|s| s.try_into().unwrap())
    } else {
        None
    };
    let ck = match cookies.len() {
        0 => "none",
        1 => match req_first_cc {
            Some(cc) if cookies[0] == expected_fresh(secret, &cc, now, c.ip) => "fresh",
            _ => "other",
        },
        _ => "multi",
    };
    let echo_b = fin.id == id
        && fin.flags & 0x8000 != 0
        && fin.flags & 0x7800 == 0
        && fin.flags & 0x0100 != 0
        && fin.question == bytes[12..12 + 17 * c.qd as usize];
    let rname = rcode_name(rc, svc_raw.as_ref().map(|m| m.rcode()));
    let echo = if rname == "FORMERR" || rname == "REFUSED" { "any" } else if echo_b { "yes" } else { "no" };
    let rest = match &svc_raw {
        Some(s) => if rest_same(s, &fin) { "same" } else { "changed" },
        None => {
            let only_opt = fin.sections[2].iter().all(|r| r.rtype == 41) && fin.sections[2].len() <= 1;
            let opt_clean = fin
                .opt()
                .map(|o| options(&o.rdata).map(|os| os.iter().all(|(c, _)| *c == 10)).unwrap_or(false))
                .unwrap_or(true);
            if fin.sections[0].is_empty() && fin.sections[1].is_empty() && only_opt && opt_clean { "own" } else { "junk" }
        }
    };
    let mut obs = json!({
        "act": act, "rcode": rname, "tc": fin.flags & 0x0200 != 0, "ck": ck,
        "echo": echo, "fwd": fwd, "rest": rest,
    });
    if feedback.is_some() {
        obs["feedback"] = json!(true);
    }
    Observed { obs, cookies, rcode: rc }
}

pub fn new_mw(svc: &RecSvc, secret: [u8; 16]) -> Mw {
    CookiesMiddlewareSvc::new(svc.clone(), secret)
}

pub fn runtime() -> tokio::runtime::Runtime {
    tokio::runtime::Builder::new_current_thread().enable_time().build().expect("runtime")
}
