//! I->S recorder for C05: random record data of every type in the Layout
//! table (dumped by TLC from spec/Rdata.tla, so the table stays the single
//! source), at random sizes up to the RDATA limit, pushed through the real
//! library.  One event per value: the RDATA octets handed to the library
//! and everything it answered (accept/reject, re-composed octets, advertised
//! length, canonical form, internal inconsistencies).  Trace_Rdata.tla
//! recomputes every answer from the table.
//!
//! usage: record_rdata <trace.ndjson> <seed> <events> <layout.json>
#[path = "../rdata.rs"]
mod rdata;
use rdata::gen::{random_rdata, Gen};
use serde_json::{json, Value};
use verif_harness::common::*;

fn main() {
    quiet_panics();
    let args: Vec<String> = std::env::args().collect();
    let path = &args[1];
    let seed: u64 = args[2].parse().unwrap();
    let n: usize = args[3].parse().unwrap();
    let table: Value =
        serde_json::from_str(&std::fs::read_to_string(&args[4]).expect("layout file")).unwrap();
    let mut g = Gen { rng: Rng::new(seed), big: false, last_alg: None, soft_opt: false };
    let mut tw = TraceWriter::create(path);
    let owner = [1u8, b'x', 2, b'Y', b'z', 0];
    for i in 0..n {
        g.big = i % 40 == 7;
        if i % 20 == 3 {
            // the bitmap builder with an arbitrary sequence of add calls
            let n = 1 + g.rng.below(10);
            let mut adds: Vec<u16> = vec![];
            for _ in 0..n {
                let w = *g.rng.pick(&[0u16, 0, 1, 4, 255, 2, 77]);
                adds.push(w * 256 + g.rng.below(256) as u16);
                if g.rng.chance(1, 5) {
                    let d = *g.rng.pick(&adds);
                    adds.push(d);
                }
            }
            let octets = observe(|| json!(rdata::build_bitmap(&adds).as_slice()));
            tw.event(json!({"ev": "bm", "adds": adds, "octets": octets}));
            continue;
        }
        if i % 10 == 6 {
            // an OPT record assembled from constructor arguments (1 to 3 options)
            let n = 1 + g.rng.below(3);
            let pushes: Vec<Value> = (0..n).map(|_| rdata::optbuild::random_args(&mut g)).collect();
            let obs = observe(|| rdata::optbuild::observe_optbuild(&pushes));
            tw.event(json!({"ev": "optbuild", "pushes": pushes, "obs": obs}));
            continue;
        }
        let (code, may, mut rd) = random_rdata(&mut g, &table, 12);
        // damage some inputs
        let mut damaged = true;
        match g.rng.below(14) {
            0 => {
                let cut = g.rng.below(rd.len() as u64 + 1) as usize;
                rd.truncate(cut);
            }
            1 => {
                if rd.len() < 65000 {
                    let k = 1 + g.rng.below(3) as usize;
                    rd.extend(g.rng.bytes(k));
                }
            }
            2 => {
                if !rd.is_empty() {
                    let p = g.rng.below(rd.len().min(64) as u64) as usize;
                    rd[p] = rd[p].wrapping_add(1 + g.rng.below(3) as u8);
                }
            }
            _ => damaged = false,
        }
        let msg = rdata::one_record_msg(&owner, code, &rd);
        let obs = observe(|| rdata::observe_rdata(&msg, may, !damaged && !g.soft_opt));
        let mut ev = json!({"ev": "rd", "rtype": code, "rd": rd});
        for (k, v) in obs.as_object().unwrap() {
            ev[k] = v.clone();
        }
        if obs.get("panic").is_some() {
            ev["parse"] = json!("panic");
        }
        tw.event(ev);
    }
    let n = tw.finish();
    println!("{}", json!({"events": n}));
}
