//! S->I executor for X13 (spec/ValidatorConc.tla, Atomic = TRUE).
//!
//! A case is a whole behaviour of the specification: a schedule
//! `ops = [{op: start|adv|tick|release, i, q, k}]` for N validations on ONE
//! real `ValidationContext`, and after every op the events the specification
//! says become observable (`issue i t z`: validation i sends that fetch
//! upstream; `done i verdict`).  The validations' futures are polled by hand
//! on one thread; every upstream fetch blocks at a gate until the schedule
//! releases it, so the interleaving is exactly the specification's.  The
//! observation is the same list computed from the real run.
//!
//! `--probe '<json in>'` runs one schedule and prints the observation.

#[path = "../validator.rs"]
mod validator;
#[path = "../valconc.rs"]
mod valconc;

use serde_json::{json, Value};
use std::collections::HashMap;
use std::sync::{Arc, Mutex};
use std::task::{Context, Poll};
use valconc::*;
use validator::*;
use verif_harness::common::{arg_value, quiet_panics, run_cases};

fn run_schedule(worlds: &mut Worlds, input: &Value) -> Value {
    let w = the_world(worlds);
    let sh = Arc::new(Mutex::new(Shared::new()));
    let up = Upstream { world: w.clone(), sh: sh.clone(), free: None };
    let rt = tokio::runtime::Builder::new_current_thread().enable_time().build().expect("rt");
    let _g = rt.enter();
    let ctx = Arc::new(new_context(&w, up));
    let mut futs: HashMap<usize, VFut> = HashMap::new();
    let waker = futures_util::task::noop_waker();
    let mut obs: Vec<Value> = Vec::new();
    let mut ticks = 0i64;
    let ops = input["ops"].as_array().cloned().unwrap_or_default();
    // poll validation i until it waits at a closed gate or is finished
    let mut drive = |i: usize, futs: &mut HashMap<usize, VFut>| {
        let mut spins = 0;
        loop {
            let Some(f) = futs.get_mut(&i) else { return };
            CURVID.with(|c| c.set(i));
            let mut cx = Context::from_waker(&waker);
            match f.as_mut().poll(&mut cx) {
                Poll::Ready(v) => {
                    futs.remove(&i);
                    sh.lock().unwrap().events.push(json!({"ev": "done", "i": i, "a": v, "b": "-"}));
                    return;
                }
                Poll::Pending => {
                    let waiting = sh.lock().unwrap().pending.get(&i).map(|p| !p.released).unwrap_or(false);
                    spins += 1;
                    if waiting {
                        return;
                    }
                    if spins > 10_000 {
                        sh.lock().unwrap().events.push(json!({"ev": "hang", "i": i, "a": "", "b": "-"}));
                        futs.remove(&i);
                        return;
                    }
                }
            }
        }
    };
    for op in &ops {
        let i = op["i"].as_u64().unwrap_or(0) as usize;
        let k = op["k"].as_str().unwrap_or("none");
        match op["op"].as_str().unwrap_or("") {
            "start" => {
                let msg = answer_msg(&w, op["q"].as_str().unwrap_or(""), k);
                futs.insert(i, Box::pin(validation(ctx.clone(), msg)));
                drive(i, &mut futs);
            }
            "adv" => {
                let mut s = sh.lock().unwrap();
                if let Some(p) = s.pending.get_mut(&i) {
                    p.resp = Some(fetch_response(&w, &p.qname, p.qtype, &p.t, &p.z, k));
                } else {
                    s.events.push(json!({"ev": "nofetch", "i": i, "a": "", "b": "-"}));
                }
            }
            "tick" => {
                tick(&mut sh.lock().unwrap());
                ticks += 1;
            }
            "release" => {
                let ok = {
                    let mut s = sh.lock().unwrap();
                    match s.pending.get_mut(&i) {
                        Some(p) => {
                            p.released = true;
                            true
                        }
                        None => {
                            s.events.push(json!({"ev": "nofetch", "i": i, "a": "", "b": "-"}));
                            false
                        }
                    }
                };
                if ok {
                    drive(i, &mut futs);
                }
            }
            other => panic!("op {}", other),
        }
        // what became observable with this op
        let evs: Vec<Value> = sh
            .lock()
            .unwrap()
            .events
            .drain(..)
            .map(|e| {
                if e["ev"] == "issue" {
                    json!({"ev": "issue", "i": e["i"], "a": e["t"], "b": e["z"]})
                } else {
                    e
                }
            })
            .collect();
        obs.push(Value::Array(evs));
    }
    drop(futs);
    // the next case starts at the same (shifted) time
    advance_clock(-TICK_S * ticks);
    Value::Array(obs)
}

fn main() {
    let mut worlds = Worlds::new();
    if let Some(p) = arg_value("--probe") {
        if std::env::var("VERIF_DEBUG").is_err() {
            quiet_panics();
        }
        let input: Value = serde_json::from_str(&p).expect("json");
        println!("obs={}", run_schedule(&mut worlds, &input));
        return;
    }
    if !clock_selftest() {
        println!("CLOCK {}", json!({"ok": false}));
    }
    advance_clock(-100);
    run_cases(|input| run_schedule(&mut worlds, input));
}
