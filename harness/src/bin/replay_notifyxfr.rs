//! S->I executor for X05 (spec/NotifyXfrReq.tla, NotifyXfrReqConc.tla,
//! Batcher.tla).  Case kinds (field `in.kind`):
//!
//! * "call":  one request into the real Notify(Xfr(next)) stack built from
//!   `in.cfg`; the observation is the model's outcome record
//!   {cb, pv, nx, rs} (callback log, provider log, next-service log,
//!   response stream).  A panic of the stack is `rs = [{"k":"panic"}]`.
//! * "batch": a behaviour push* [finish] on the real CallbackBatcher; the
//!   observation is the list of {res, out} after every call.
//! * "conc":  a schedule of concurrent transfers against a middleware with
//!   `max_concurrency` N (NotifyXfrReqConc.tla): start / release / drop
//!   steps with the projected state after every step.
#[path = "../notifyxfr.rs"]
mod notifyxfr;

use notifyxfr::*;
use serde_json::{json, Value};
use verif_harness::common::*;

fn run_batch_case(input: &Value) -> Value {
    let p = &input["prm"];
    assert_eq!(p["H"].as_u64(), Some(FIXED as u64), "the harness question gives H = 25");
    let l = p["L"].as_u64().unwrap() as usize;
    let rr = p["RR"].as_u64().unwrap() as u16;
    let mf = p["MF"].as_bool().unwrap();
    let (mut b, st) = mk_batcher(Some(l), if rr == 0 { None } else { Some(rr) }, mf);
    let mut out = vec![];
    for (k, op) in input["ops"].as_array().unwrap().iter().enumerate() {
        let s = op.as_u64().unwrap() as usize;
        let res = if s == 0 {
            match batcher_finish(&mut b) {
                "ok" => "fin",
                o => o,
            }
        } else {
            assert_eq!(txt_wire_size(s), s, "size {} cannot be built", s);
            batcher_push(&mut b, k, s)
        };
        let batches: Vec<Value> = st
            .batches
            .lock()
            .unwrap()
            .iter()
            .map(|x| {
                let mut o = json!({"recs": x["recs"], "fin": x["fin"]});
                // a batch whose octet count is not header + question + records
                if x["size"] != x["sum"] || x["anc"].as_u64() != x["recs"].as_array().map(|a| a.len() as u64) {
                    o["bad"] = x.clone();
                }
                o
            })
            .collect();
        out.push(json!({"res": res, "out": batches}));
    }
    Value::Array(out)
}

fn main() {
    run_cases(|input| match input["kind"].as_str() {
        Some("call") => run_call_case(input),
        Some("batch") => run_batch_case(input),
        Some("conc") => run_conc_case(input),
        _ => json!({"unknown_kind": true}),
    });
}
