//! I->S recorder for HeaderAlg.tla: long random operation sequences on the
//! real header types (owned values, views over message octets, through
//! `Message::header_mut`) and on a `MessageBuilder` in all its stages
//! (header_mut at every stage, pushes, OPT records through `OptBuilder`,
//! start_answer / start_error / request_axfr), with arguments over the full
//! ranges.  One event per public call with the call's result and the complete
//! projected state; `message` events additionally log what a `Message` made
//! from the octets built so far reports.
//! usage: record_headeralg <out.ndjson> <seed> <max-events>
#[path = "../headeralg.rs"]
mod headeralg;

use domain::base::Message;
use headeralg::*;
use serde_json::{json, Value};
use verif_harness::common::*;

fn event(k: &str, a: &[i64], proj: Value) -> Value {
    let mut e = proj;
    e["ev"] = json!(k);
    e["a"] = json!(a);
    e
}

fn edge16(rng: &mut Rng) -> i64 {
    match rng.below(8) {
        0 => 0,
        1 => 65535,
        2 => 65534,
        3 => 1,
        4 => 255,
        5 => 256,
        _ => rng.below(65536) as i64,
    }
}

fn header_op(rng: &mut Rng) -> (String, Vec<i64>) {
    let bits = ["set_qr", "set_aa", "set_tc", "set_rd", "set_ra", "set_z", "set_ad", "set_cd"];
    match rng.below(14) {
        0..=7 => (rng.pick(&bits).to_string(), vec![rng.below(2) as i64]),
        8 => ("set_id".into(), vec![edge16(rng)]),
        9 | 10 => {
            // mostly real opcodes, sometimes values that do not fit the field
            let v = if rng.chance(1, 6) { rng.below(256) as i64 } else { rng.below(16) as i64 };
            ("set_opcode".into(), vec![v])
        }
        11 | 12 => ("set_rcode".into(), vec![rng.below(16) as i64]),
        _ => ("set_flags".into(), vec![rng.below(128) as i64]),
    }
}

fn plain_run(w: &mut TraceWriter, rng: &mut Rng, steps: u64) {
    let h: Vec<u8> = match rng.below(4) {
        0 => vec![0; 12],
        1 => vec![255; 12],
        _ => rng.bytes(12),
    };
    let o: Vec<u8> = if rng.chance(1, 2) { vec![0, 0, 41, 0, 0, 0, 0, 0, 0] } else { rng.bytes(9) };
    let mut p = Plain::new(&h, &o);
    let mut e = p.project(0);
    e["ev"] = json!("reset");
    w.event(e);
    for _ in 0..steps {
        let (k, a): (String, Vec<i64>) = match rng.below(10) {
            0..=3 => header_op(rng),
            4 => {
                let k = if rng.chance(1, 2) { "set_count" } else { "set_ucount" };
                (k.into(), vec![rng.below(4) as i64, edge16(rng)])
            }
            5 | 6 => ("inc".into(), vec![rng.below(4) as i64]),
            7 => ("dec".into(), vec![rng.below(4) as i64]),
            8 => {
                if rng.chance(1, 3) {
                    ("set_counts".into(), rng.bytes(8).iter().map(|b| *b as i64).collect())
                } else {
                    ("dec".into(), vec![rng.below(4) as i64])
                }
            }
            _ => match rng.below(4) {
                0 => ("oh_udp".into(), vec![edge16(rng)]),
                1 => ("oh_rcode".into(), vec![rng.below(4096) as i64]),
                2 => ("oh_version".into(), vec![rng.below(256) as i64]),
                _ => ("oh_do".into(), vec![rng.below(2) as i64]),
            },
        };
        let r = if rng.chance(1, 3) { p.apply_via_message(&k, &a) } else { p.apply(&k, &a) };
        w.event(event(&k, &a, p.project(r)));
    }
}

fn builder_run(w: &mut TraceWriter, rng: &mut Rng, steps: u64) {
    let mut b = Builder::new();
    let mut e = b.project(0, &[]);
    e["ev"] = json!("reset");
    w.event(e);
    for _ in 0..steps {
        let g = b.stage_no();
        let (k, a): (String, Vec<i64>) = match rng.below(12) {
            0..=2 => header_op(rng),
            3 => ("goto".into(), vec![rng.below(5) as i64]),
            4 => ("goto".into(), vec![(g + 1).min(4)]),
            5 | 6 if g >= 1 => ("push".into(), vec![if rng.chance(1, 5) { 0 } else { 1 }]),
            7..=9 if g == 4 => {
                let mut a = vec![if rng.chance(1, 5) { 1 } else { 0 }, if rng.chance(1, 6) { 0 } else { 1 }];
                for _ in 0..rng.below(5) {
                    match rng.below(4) {
                        0 => a.extend_from_slice(&[1, edge16(rng)]),
                        1 => a.extend_from_slice(&[2, rng.below(4096) as i64]),
                        2 => a.extend_from_slice(&[3, rng.below(256) as i64]),
                        _ => a.extend_from_slice(&[4, rng.below(2) as i64]),
                    }
                }
                ("opt".into(), a)
            }
            10 | 11 if g == 0 => {
                if rng.chance(1, 5) {
                    ("request_axfr".into(), vec![if rng.chance(1, 4) { 0 } else { 1 }, 0])
                } else {
                    let nq = rng.below(4) as i64;
                    let fit = if rng.chance(1, 3) { rng.below(4) as i64 } else { 9 };
                    if rng.chance(1, 2) {
                        ("start_answer".into(), vec![rng.below(65536) as i64, edge16(rng), nq, rng.below(16) as i64, fit])
                    } else {
                        // the rcode start_error reports when a question does not
                        // fit is not documented: only SERVFAIL is recorded there
                        let rc = if fit < nq { 2 } else { rng.below(16) as i64 };
                        ("start_error".into(), vec![rng.below(65536) as i64, edge16(rng), nq, rc, fit])
                    }
                }
            }
            _ => {
                if g > 0 && rng.chance(1, 3) {
                    ("goto".into(), vec![0])
                } else {
                    header_op(rng)
                }
            }
        };
        let (r, c) = b.apply(&k, &a);
        let mut a = a;
        let mut c = c;
        if k == "request_axfr" {
            // log the id that was drawn (apply() has already normalised the
            // header to a[1] = 0: put the drawn id back)
            if let Some(d) = c.first().copied() {
                a[1] = d;
                let mut h = bytes_of(&b.project(0, &[])["h"]);
                h[0] = (d >> 8) as u8;
                h[1] = d as u8;
                b.rebase(&h);
            }
            c = vec![];
        }
        w.event(event(&k, &a, b.project(r, &c)));
        if rng.chance(1, 8) {
            // what an independent Message over the same octets says
            let full: Vec<u8> = match &b.stage {
                Stage::None => vec![],
                Stage::B(x) => x.as_slice().to_vec(),
                Stage::Q(x) => x.as_slice().to_vec(),
                Stage::An(x) => x.as_slice().to_vec(),
                Stage::Au(x) => x.as_slice().to_vec(),
                Stage::Ad(x) => x.as_slice().to_vec(),
            };
            let m = Message::from_octets(full).unwrap();
            let mut hh = m.header().as_slice().to_vec();
            hh.extend_from_slice(m.header_counts().as_slice());
            w.event(json!({"ev": "message", "h": jb(&hh), "rc": m.opt_rcode().to_int(),
                           "ne": m.no_error() as i64, "has": m.opt().is_some() as i64}));
        }
    }
}

fn main() {
    quiet_panics();
    let args: Vec<String> = std::env::args().collect();
    let mut w = TraceWriter::create(&args[1]);
    let mut rng = Rng::new(args[2].parse().unwrap_or(1));
    let max: u64 = args[3].parse().unwrap_or(3000);
    while w.n < max {
        let steps = 20 + rng.below(200);
        if rng.chance(1, 2) {
            plain_run(&mut w, &mut rng, steps);
        } else {
            builder_run(&mut w, &mut rng, steps);
        }
    }
    let n = w.finish();
    println!("{}", json!({"events": n}));
}
