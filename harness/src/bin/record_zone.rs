//! I->S recorder for spec/ZoneStore.tla (properties C08, C09).
//!
//!   record_zone seq <trace.ndjson> <seed> <n_ops>
//!       single-threaded random history over a 21-name universe (zone file
//!       -> builder, then ZoneUpdater / write-interface sessions with
//!       commits, aborts and full replacements) with interleaved queries
//!       and walks by held and fresh readers.  One event per public call.
//!   record_zone threads <trace.ndjson> <seed> <n_readers> <n_sessions>
//!       real threads: reader threads and writer threads run random scripts
//!       on one shared Zone; the linearization events come from the
//!       `#[cfg(domain_verif)]` hooks in the library (sequence numbers drawn
//!       inside the protecting lock), the harness adds the results.
#[path = "../zone.rs"]
mod zone;

use serde_json::{json, Value};
use std::collections::BTreeSet;
use verif_harness::common::*;
use zone::*;

type MName = Vec<Vec<u8>>;
type MRec = (MName, String, u64);

const LA: u8 = 97;
const LB: u8 = 98;
const LC: u8 = 99;
const STAR: u8 = 42;

fn universe() -> Vec<MName> {
    // labels a, b, * ("*" only leftmost), depth <= 3  (Nodes_trace)
    let ab = [LA, LB];
    let first = [LA, LB, STAR];
    let mut v = vec![];
    for x in first {
        v.push(vec![vec![x]]);
        for y in ab {
            v.push(vec![vec![x], vec![y]]);
            for z in ab {
                v.push(vec![vec![x], vec![y], vec![z]]);
            }
        }
    }
    v
}

fn qnames() -> Vec<MName> {
    // QNames_small of MC_ZoneStore.tla
    vec![
        vec![],
        vec![vec![LA]],
        vec![vec![STAR]],
        vec![vec![LC]],
        vec![vec![LA], vec![LA]],
        vec![vec![STAR], vec![LA]],
        vec![vec![LC], vec![LA]],
        vec![vec![LA], vec![LC]],
        vec![vec![LC], vec![LA], vec![LA]],
        vec![vec![LB]],
        vec![vec![LA], vec![LB]],
        vec![vec![LC], vec![LB]],
        vec![vec![STAR], vec![LB]],
        vec![vec![LA], vec![LA], vec![LB]],
        vec![vec![LC], vec![LA], vec![LB]],
    ]
}

fn jname(n: &MName) -> Value {
    json!(n)
}

fn ns_target_m(x: u64) -> MName {
    match x {
        1 => vec![vec![LA], vec![LA]],
        2 => vec![vec![111]],
        _ => vec![vec![LB]],
    }
}

fn is_suffix(s: &MName, n: &MName) -> bool {
    s.len() <= n.len() && n[n.len() - s.len()..] == s[..]
}

/// ValidZone of spec/ZoneAbstract.tla
fn valid_zone(c: &BTreeSet<MRec>) -> bool {
    let owners: BTreeSet<&MName> = c.iter().map(|r| &r.0).collect();
    let types_at = |n: &MName| -> BTreeSet<&str> { c.iter().filter(|r| &r.0 == n).map(|r| r.1.as_str()).collect() };
    let count = |n: &MName, t: &str| c.iter().filter(|r| &r.0 == n && r.1 == t).count();
    let apex: MName = vec![];
    if c.iter().any(|r| r.1 == "SOA" && !r.0.is_empty()) || count(&apex, "SOA") > 1 {
        return false;
    }
    if count(&apex, "CNAME") > 0 || count(&apex, "DS") > 0 {
        return false;
    }
    let cuts: Vec<&MName> = owners.iter().filter(|n| !n.is_empty() && count(n, "NS") > 0).cloned().collect();
    for n in &owners {
        let ts = types_at(n);
        if count(n, "CNAME") > 1 || (count(n, "CNAME") > 0 && ts.len() != 1) {
            return false;
        }
        if count(n, "DS") > 0 && count(n, "NS") == 0 {
            return false;
        }
        if cuts.contains(n) {
            if !ts.iter().all(|t| ["NS", "DS", "A", "AAAA"].contains(t)) || n[0] == vec![STAR] {
                return false;
            }
        }
        for cu in &cuts {
            if is_suffix(cu, n) && n.len() > cu.len() {
                if !ts.iter().all(|t| *t == "A" || *t == "AAAA") {
                    return false;
                }
                if !c.iter().any(|r| &&r.0 == cu && r.1 == "NS" && &ns_target_m(r.2) == *n) {
                    return false;
                }
            }
        }
    }
    true
}

const QTYPES: [&str; 8] = ["NS", "A", "AAAA", "CNAME", "DS", "TXT", "ANY", "SOA"];
const TYPES: [&str; 7] = ["SOA", "NS", "A", "AAAA", "CNAME", "DS", "TXT"];

fn query_all(h: &ZoneHarness, reader: Option<&str>, qn: &MName) -> Value {
    let q = jname(qn);
    Value::Array(
        QTYPES
            .iter()
            .map(|qt| json!([qt, match reader { Some(r) => h.reader_query(r, &q, qt), None => h.fresh_query(&q, qt) }]))
            .collect(),
    )
}

fn pick_rec(rng: &mut Rng, uni: &[MName]) -> MRec {
    // owner: the apex now and then, else a universe name (short names more often)
    let n = if rng.chance(1, 8) { vec![] } else {
        let k = rng.pick(uni).clone();
        if k.len() == 3 && rng.chance(1, 2) { k[1..].to_vec() } else { k }
    };
    let t = match rng.below(11) {
        0..=3 => "A",
        10 => "AAAA",
        4..=5 => "TXT",
        6..=7 => "NS",
        8 => "CNAME",
        _ => "DS",
    };
    let x = 1 + rng.below(3);
    (n, t.to_string(), x)
}

fn run_seq(path: &str, seed: u64, n_ops: u64) {
    let mut rng = Rng::new(seed);
    let mut tw = TraceWriter::create(path);
    let uni = universe();
    let qn = qnames();
    let mut h = ZoneHarness::new();
    let ev = |tw: &mut TraceWriter, h: &mut ZoneHarness, op: Value| -> bool {
        let res = h.apply(&op);
        if !res.is_null() {
            eprintln!("action failed: {} -> {}", op, res);
            return false;
        }
        tw.event(op);
        true
    };
    // ---- zone file
    let mut committed: BTreeSet<MRec> = BTreeSet::new();
    committed.insert((vec![], "SOA".into(), 1));
    let nzf = 3 + rng.below(10);
    // most zones carry a delegation with in-domain glue (a. NS a.a., a.a. A) and
    // sometimes a DS, so that referrals, DS-at-cut and glue are exercised
    let mut planned: Vec<MRec> = vec![];
    if seed % 4 != 3 {
        planned.push((vec![vec![LA]], "NS".into(), 1));
        // a.a. is dual-stack in most zones; a second server b. with one family
        if rng.chance(3, 4) {
            planned.push((vec![vec![LA], vec![LA]], "A".into(), 1 + rng.below(3)));
        }
        planned.push((vec![vec![LA], vec![LA]], "AAAA".into(), 1 + rng.below(3)));
        if rng.chance(1, 2) {
            planned.push((vec![vec![LA]], "NS".into(), 3));
            planned.push((vec![vec![LB]], (if rng.chance(1, 2) { "A" } else { "AAAA" }).into(), 1));
        }
        if rng.chance(1, 2) {
            planned.push((vec![vec![LA]], "DS".into(), 1));
        }
    }
    if rng.chance(1, 3) {
        planned.push((vec![vec![STAR], vec![LB]], "CNAME".into(), 2));
    }
    for i in 0..(nzf + planned.len() as u64) {
        let r = if (i as usize) < planned.len() { planned[i as usize].clone() } else { pick_rec(&mut rng, &uni) };
        if committed.contains(&r) {
            continue;
        }
        let mut c2 = committed.clone();
        c2.insert(r.clone());
        if !valid_zone(&c2) {
            continue;
        }
        committed = c2;
        ev(&mut tw, &mut h, json!({"a": "ZfInsert", "n": jname(&r.0), "t": r.1, "x": r.2}));
    }
    ev(&mut tw, &mut h, json!({"a": "Build"}));
    // names whose NS/DS/CNAME live in a Cut/Cname special (builder-made)
    let special_names = |c: &BTreeSet<MRec>| -> BTreeSet<MName> {
        c.iter().filter(|r| (r.1 == "CNAME") || (!r.0.is_empty() && (r.1 == "NS" || r.1 == "DS"))).map(|r| r.0.clone()).collect()
    };
    let mut sp_committed = special_names(&committed);
    let mut sp_pending = sp_committed.clone();
    let mut pending = committed.clone();
    // nodes that exist in the tree (needed for the write-interface guards)
    let mut nodes: BTreeSet<MName> = BTreeSet::new();
    let add_nodes = |nodes: &mut BTreeSet<MName>, n: &MName| {
        for k in 1..=n.len() {
            nodes.insert(n[n.len() - k..].to_vec());
        }
    };
    for r in &committed {
        add_nodes(&mut nodes, &r.0);
    }
    let mut version = 0u64;
    let mut session: Option<&str> = None; // "W" | "U"
    let mut open = false;
    let mut held: Vec<(String, bool)> = vec![("r1".into(), false), ("r2".into(), false), ("r3".into(), false), ("r4".into(), false)];
    let mut done = 0u64;
    while done < n_ops {
        done += 1;
        let roll = rng.below(100);
        if roll < 22 {
            // reader activity
            let i = rng.below(held.len() as u64) as usize;
            let (r, is_held) = held[i].clone();
            if !is_held {
                ev(&mut tw, &mut h, json!({"a": "ReaderAcquire", "r": r, "v": version}));
                held[i].1 = true;
            } else if rng.chance(1, 6) {
                ev(&mut tw, &mut h, json!({"a": "ReaderRelease", "r": r}));
                held[i].1 = false;
            } else if rng.chance(1, 5) {
                let res = h.reader_walk(&r);
                tw.event(json!({"a": "ReaderWalk", "r": r, "res": res}));
            } else {
                let q = rng.pick(&qn).clone();
                let res = query_all(&h, Some(&r), &q);
                tw.event(json!({"a": "ReaderQuery", "r": r, "qn": jname(&q), "res": res}));
            }
            continue;
        }
        if roll < 30 {
            let q = rng.pick(&qn).clone();
            let res = query_all(&h, None, &q);
            tw.event(json!({"a": "FreshQuery", "qn": jname(&q), "res": res}));
            continue;
        }
        match session {
            None => {
                if version >= 80 {
                    continue;
                }
                let kind = if rng.chance(2, 3) { "U" } else { "W" };
                ev(&mut tw, &mut h, json!({"a": "AcquireWriteLock", "w": "w1", "kind": kind}));
                ev(&mut tw, &mut h, json!({"a": "Open", "w": "w1"}));
                session = Some(kind);
                open = true;
                pending = committed.clone();
                sp_pending = sp_committed.clone();
            }
            Some(kind) => {
                if !open {
                    // after a commit: re-open or leave
                    if rng.chance(1, 2) && version < 80 {
                        ev(&mut tw, &mut h, json!({"a": "Open", "w": "w1"}));
                        open = true;
                        pending = committed.clone();
                        sp_pending = sp_committed.clone();
                    } else {
                        ev(&mut tw, &mut h, json!({"a": "DropWriter", "w": "w1"}));
                        session = None;
                        tw.event(json!({"a": "FreshWalk", "res": h.fresh_walk()}));
                    }
                    continue;
                }
                let r2 = rng.below(100);
                if r2 < 10 {
                    // commit
                    if kind == "U" && rng.chance(1, 2) {
                        // the documented end of an update: Finished(soa) = SOA + commit + close
                        let sx = 1 + rng.below(3);
                        let res = h.apply(&json!({"a": "U_Finished", "w": "w1", "x": sx}));
                        if !res.is_null() {
                            eprintln!("Finished failed: {}", res);
                            std::process::exit(2);
                        }
                        pending.retain(|r| r.1 != "SOA");
                        pending.insert((vec![], "SOA".into(), sx));
                        tw.event(json!({"a": "U_Soa", "w": "w1", "x": sx}));
                        tw.event(json!({"a": "CommitUpdateCurrent", "w": "w1", "bump": false}));
                        tw.event(json!({"a": "CommitPushVersion", "w": "w1"}));
                        tw.event(json!({"a": "DropWriter", "w": "w1"}));
                        session = None;
                    } else {
                        // write-interface sessions commit with commit(true) half of the time:
                        // the published SOA, serial + 1, becomes content of the NEW version
                        // unless the writer replaced the SOA itself
                        let bump = kind == "W" && rng.chance(3, 4);
                        if bump {
                            let old: Vec<u64> = committed.iter().filter(|r| r.1 == "SOA").map(|r| r.2).collect();
                            let new: Vec<u64> = pending.iter().filter(|r| r.1 == "SOA").map(|r| r.2).collect();
                            if !old.is_empty() && (new.is_empty() || new == old) {
                                pending.retain(|r| r.1 != "SOA");
                                pending.insert((vec![], "SOA".into(), old[0] + 1));
                            }
                        }
                        ev(&mut tw, &mut h, json!({"a": "CommitUpdateCurrent", "w": "w1", "bump": bump}));
                        ev(&mut tw, &mut h, json!({"a": "CommitPushVersion", "w": "w1"}));
                    }
                    // readers held across the commit: the apex (SOA) and a walk again
                    for (r, is_held) in held.iter() {
                        if *is_held {
                            let res = query_all(&h, Some(r.as_str()), &vec![]);
                            tw.event(json!({"a": "ReaderQuery", "r": r, "qn": jname(&vec![]), "res": res}));
                            tw.event(json!({"a": "ReaderWalk", "r": r, "res": h.reader_walk(r)}));
                        }
                    }
                    committed = pending.clone();
                    sp_committed = sp_pending.clone();
                    version += 1;
                    open = false;
                    // C08: every query against the new version
                    for q in &qn {
                        let res = query_all(&h, None, q);
                        tw.event(json!({"a": "FreshQuery", "qn": jname(q), "res": res}));
                    }
                    tw.event(json!({"a": "FreshWalk", "res": h.fresh_walk()}));
                } else if r2 < 15 {
                    // abandon
                    ev(&mut tw, &mut h, json!({"a": "DropWriter", "w": "w1"}));
                    session = None;
                    for q in &qn {
                        let res = query_all(&h, None, q);
                        tw.event(json!({"a": "FreshQuery", "qn": jname(q), "res": res}));
                    }
                    tw.event(json!({"a": "FreshWalk", "res": h.fresh_walk()}));
                } else {
                    // a write operation that keeps the pending version a valid zone
                    for _try in 0..20 {
                        let (n, t, x) = pick_rec(&mut rng, &uni);
                        let touches_special = ["NS", "DS", "CNAME"].contains(&t.as_str()) && sp_pending.contains(&n);
                        let mut p2 = pending.clone();
                        let op;
                        if kind == "U" {
                            match rng.below(12) {
                                0 => {
                                    p2.clear();
                                    op = json!({"a": "U_DeleteAll", "w": "w1"});
                                }
                                1 => {
                                    let sx = 1 + rng.below(3);
                                    p2.retain(|r| r.1 != "SOA");
                                    p2.insert((vec![], "SOA".into(), sx));
                                    op = json!({"a": "U_Soa", "w": "w1", "x": sx});
                                }
                                2..=5 => {
                                    // delete (mostly of existing records)
                                    let (n, t, x) = if !pending.is_empty() && rng.chance(4, 5) {
                                        let k = rng.below(pending.len() as u64) as usize;
                                        pending.iter().nth(k).unwrap().clone()
                                    } else {
                                        (n.clone(), t.clone(), x)
                                    };
                                    if ["NS", "DS", "CNAME"].contains(&t.as_str()) && sp_pending.contains(&n) {
                                        continue;
                                    }
                                    p2.remove(&(n.clone(), t.clone(), x));
                                    op = json!({"a": "U_DeleteRecord", "w": "w1", "n": jname(&n), "t": t, "x": x});
                                    if valid_zone(&p2) {
                                        add_nodes(&mut nodes, &n);
                                    }
                                }
                                _ => {
                                    if touches_special || pending.contains(&(n.clone(), t.clone(), x)) {
                                        continue;
                                    }
                                    if t == "SOA" {
                                        continue;
                                    }
                                    p2.insert((n.clone(), t.clone(), x));
                                    op = json!({"a": "U_AddRecord", "w": "w1", "n": jname(&n), "t": t, "x": x});
                                    if valid_zone(&p2) {
                                        add_nodes(&mut nodes, &n);
                                    }
                                }
                            }
                        } else {
                            match rng.below(10) {
                                0 => {
                                    if n.is_empty() || nodes.contains(&n) {
                                        continue;
                                    }
                                    op = json!({"a": "W_UpdateChild", "w": "w1", "n": jname(&n)});
                                    add_nodes(&mut nodes, &n);
                                }
                                1 => {
                                    if !(n.is_empty() || nodes.contains(&n)) {
                                        continue;
                                    }
                                    p2.retain(|r| !is_suffix(&n, &r.0));
                                    op = json!({"a": "W_RemoveAll", "w": "w1", "n": jname(&n)});
                                    if valid_zone(&p2) {
                                        sp_pending.retain(|m| !is_suffix(&n, m));
                                    }
                                }
                                2..=4 => {
                                    if !(n.is_empty() || nodes.contains(&n)) || touches_special {
                                        continue;
                                    }
                                    p2.retain(|r| !(r.0 == n && r.1 == t));
                                    op = json!({"a": "W_RemoveRrset", "w": "w1", "n": jname(&n), "t": t});
                                }
                                _ => {
                                    if !(n.is_empty() || nodes.contains(&n)) || touches_special || t == "SOA" {
                                        continue;
                                    }
                                    let xs: Vec<u64> = if rng.chance(1, 3) { vec![x, 1 + (x % 3)] } else { vec![x] };
                                    p2.retain(|r| !(r.0 == n && r.1 == t));
                                    for y in &xs {
                                        p2.insert((n.clone(), t.clone(), *y));
                                    }
                                    op = json!({"a": "W_UpdateRrset", "w": "w1", "n": jname(&n), "t": t, "xs": xs});
                                }
                            }
                        }
                        if !valid_zone(&p2) {
                            continue;
                        }
                        if op["a"] == "U_DeleteAll" {
                            sp_pending.clear();
                        }
                        if ev(&mut tw, &mut h, op) {
                            pending = p2;
                        }
                        break;
                    }
                }
            }
        }
    }
    let _ = TYPES;
    let n = tw.finish();
    println!("{{\"events\":{},\"versions\":{}}}", n, version);
}

fn main() {
    quiet_panics();
    let args: Vec<String> = std::env::args().collect();
    let mode = args.get(1).map(|s| s.as_str()).unwrap_or("seq");
    let path = args.get(2).cloned().unwrap_or_else(|| "trace.ndjson".into());
    let seed: u64 = args.get(3).and_then(|s| s.parse().ok()).unwrap_or_else(seed);
    match mode {
        "seq" => {
            let n: u64 = args.get(4).and_then(|s| s.parse().ok()).unwrap_or(300);
            run_seq(&path, seed, n);
        }
        _ => {
            eprintln!("unknown mode {}", mode);
            std::process::exit(2);
        }
    }
}
