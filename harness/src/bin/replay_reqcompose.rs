//! X15 S->I: behaviours of spec/MC_ReqCompose.tla (GenSpec) performed on the
//! real RequestMessage / RequestMessageMulti.  A case is a source message,
//! the request kind and a list of setter calls; after the constructor and
//! after EVERY call the executor composes through every route (twice),
//! reads the getters and asks is_answer about the response family, and the
//! result must be the specification's projection.
#[path = "../reqcompose.rs"]
mod reqcompose;

use reqcompose::{build_source, observe, Req};
use serde_json::{json, Value};
use verif_harness::common::run_cases;

fn main() {
    run_cases(|input: &Value| {
        let src = &input["src"];
        let octets = build_source(src);
        let src_id = src["h"]["id"].as_u64().unwrap_or(0) as u16;
        let kind = input["kind"].as_str().unwrap_or("single");
        let mut req = match Req::new(kind, octets) {
            None => return json!({"new": 0}),
            Some(r) => r,
        };
        let init = observe(&req, src_id, &src["q"]);
        let mut steps = vec![];
        for op in input["ops"].as_array().cloned().unwrap_or_default() {
            req.apply(&op);
            steps.push(observe(&req, src_id, &src["q"]));
        }
        json!({"new": 1, "init": init, "steps": steps})
    });
}
