//! S->I executor for C14 (spec/Validator.tla).
//!
//! Each case is one scenario of the specification: hierarchy shape, denial
//! flavour, query kind and the adversary's rewrites (`adv`), with the set of
//! validation states the specification admits (`allow`, first element =
//! `exp.state`).  The scenario is performed against the real validator
//! (`ValidationContext::validate_msg`, and `net::client::validator::Connection`
//! with `--conn`) over a really signed hierarchy; the observation is the
//! returned state, or `{"panic":true}` / `{"hang":true}` / `{"error":..}`.
//!
//! `--trace <path>` additionally records, per scenario, the sequence of
//! upstream fetches the validator performed (I->S, Trace_Validator.tla).
//! `--probe '<json in>'` runs one scenario and prints the observation.

#[path = "../validator.rs"]
mod validator;

use serde_json::{json, Value};
use validator::*;
use verif_harness::common::{arg_value, has_flag, quiet_panics, run_cases, TraceWriter};

fn canonical(input: &Value, obs: Value) -> Value {
    // the specification admits a set of states; report its representative
    // when the observed state is a member
    if let (Some(st), Some(allow)) = (obs.get("state").and_then(|s| s.as_str()), input["allow"].as_array()) {
        if allow.iter().any(|a| a.as_str() == Some(st)) {
            return json!({"state": allow[0].clone()});
        }
    }
    obs
}

fn main() {
    let mut worlds = Worlds::new();
    let with_conn = has_flag("--conn");
    if let Some(p) = arg_value("--probe") {
        if std::env::var("VERIF_DEBUG").is_err() {
            quiet_panics();
        }
        let input: Value = serde_json::from_str(&p).expect("json");
        let o = run_scenario(&mut worlds, &input, true);
        println!("obs={} conn={:?} fetches={:?}", o.obs, o.conn, o.fetches);
        return;
    }
    if !clock_selftest() {
        println!("CLOCK {}", json!({"ok": false}));
    }
    // the specification's view of what a Connection must show, per validation
    // state and request flags (emitted by TLC: ConnView in Validator.tla)
    let mut connview: std::collections::HashMap<String, Value> = std::collections::HashMap::new();
    if let Some(pth) = arg_value("--connview") {
        for l in std::fs::read_to_string(&pth).expect("connview").lines() {
            if let Ok(v) = serde_json::from_str::<Value>(l) {
                let i = &v["in"];
                connview.insert(format!("{}:{}:{}:{}", i["state"].as_str().unwrap_or(""), i["cd"], i["ad"], i["do"]), v["exp"].clone());
            }
        }
    }
    let conn_ok = |state: &str, cd: bool, ad: bool, d: bool, seen: &Value| -> bool {
        match connview.get(&format!("{}:{}:{}:{}", state, cd, ad, d)) {
            None => true,
            Some(e) => {
                seen["servfail"] == e["servfail"]
                    && seen["ad"] == e["ad"]
                    && (e["stripped"] != json!(true) || seen["servfail"] == json!(true) || seen["dnssec"] == json!(false))
            }
        }
    };
    let mut trace = arg_value("--trace").map(|p| TraceWriter::create(&p));
    let mut conn_bad: u64 = 0;
    let mut conn_n: u64 = 0;
    let mut exact: u64 = 0;
    let mut total: u64 = 0;
    let mut noops: u64 = 0;
    let mut fetch_same: u64 = 0;
    let mut fetch_diff_shown = 0;
    run_cases(|input| {
        let o = run_scenario(&mut worlds, input, with_conn);
        // left out of the I->S trace: scenarios of (formerly) deviating
        // behaviour - bad NSEC3 labels, Inject (open deviation), and TTL 0 on
        // a fetch (nodes expire at once and are legitimately re-fetched per
        // group, which the machine's cache does not model)
        let dev_scn = input["adv"].as_array().map(|a| a.iter().any(|s| {
            let act = s["act"].as_str().unwrap_or("");
            act.starts_with("BadNsec3Label") || act == "Inject" || (act == "ZeroTtl" && s["t"] != "ANS")
        })).unwrap_or(false);
        if o.noop {
            noops += 1;
        }
        // (the smallest node cache evicts: more fetches than the machine's cache)
        let dev_scn = dev_scn || input["cfg"] == "tiny";
        if let (Some(t), false) = (trace.as_mut(), dev_scn || o.noop || input["runs"].as_array().map(|r| r.len() > 1).unwrap_or(false)) {
            t.event(json!({"ev": "start", "shape": input["shape"], "denial": input["denial"],
                           "qk": input["qk"], "adv": input["adv"],
                           "anc": input["anc"].as_str().unwrap_or("dnskey"),
                           "cfg": input["cfg"].as_str().unwrap_or("default")}));
            for (qt, z) in &o.fetches {
                t.event(json!({"ev": "fetch", "t": qt, "z": z}));
            }
            let st = o.obs.get("state").and_then(|s| s.as_str()).unwrap_or("abort");
            t.event(json!({"ev": "done", "state": st}));
        }
        total += 1;
        if let Some(a) = input["allow"].as_array() {
            if !a.is_empty() && o.obs.get("state") == Some(&a[0]) {
                exact += 1;
            }
        }
        if let Some(f) = input["fetches"].as_array() {
            let want: Vec<(String, String)> = f
                .iter()
                .map(|x| (x["t"].as_str().unwrap_or("").to_string(), x["z"].as_str().unwrap_or("").to_string()))
                .collect();
            if want == o.fetches {
                fetch_same += 1;
            } else if o.obs.get("state").is_some() && fetch_diff_shown < 5 && has_flag("--show-fetch-diff") {
                fetch_diff_shown += 1;
                println!("FETCHDIFF {}", json!({"in": input, "obs": format!("{:?}", o.fetches)}));
            }
        }
        let mut obs = canonical(input, o.obs.clone());
        if let (Some(c), Some(st)) = (o.conn, o.obs.get("state").and_then(|s| s.as_str())) {
            conn_n += 1;
            if !conn_ok(st, false, false, true, &c) {
                conn_bad += 1;
                obs = json!({"state": st, "conn": c, "flags": "cd=0 ad=0 do=1"});
            }
            // all eight request flag combinations on a sub-grid
            let small = matches!(input["shape"].as_str(), Some("secure3") | Some("insecure3"))
                && matches!(input["denial"].as_str(), Some("nsec") | Some("nsec3"))
                && input["adv"].as_array().map(|a| a.len() <= 1).unwrap_or(true)
                && input["qk"] != "ds";
            if small {
                let shape = parse_shape(input["shape"].as_str().unwrap());
                let denial = parse_denial(input["denial"].as_str().unwrap());
                let pair = worlds.pair(shape, denial);
                let plan = parse_adv(&input["adv"]);
                let (qn, qt) = question(&pair.0, input["qk"].as_str().unwrap_or(""), &plan);
                for (cd, ad, d, seen) in conn_matrix(&pair, &plan, &qn, qt,
                        input["anc"].as_str().unwrap_or(""), input["cfg"].as_str().unwrap_or("")) {
                    conn_n += 1;
                    if !conn_ok(st, cd, ad, d, &seen) {
                        conn_bad += 1;
                        obs = json!({"state": st, "conn": seen, "flags": format!("cd={} ad={} do={}", cd, ad, d)});
                    }
                }
            }
        }
        obs
    });
    println!("EXACT {}", json!({"n": total, "machine_verdict_matched": exact, "machine_fetch_sequence_matched": fetch_same, "noop_rewrites": noops}));
    if with_conn {
        println!("CONN {}", json!({"n": conn_n, "mismatch": conn_bad}));
    }
    if let Some(t) = trace {
        let n = t.finish();
        println!("TRACE {}", json!({"events": n}));
    }
}
