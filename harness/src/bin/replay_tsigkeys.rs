//! S->I executor for the behaviours generated from spec/MC_TsigKeys.tla: the
//! key-configuration space of TSIG and the names of algorithms.
//!
//! `key_new`   Key::new / Key::generate with the given (algorithm,
//!             min_mac_len, signing_len) - in and out of range; observes the
//!             result and the lengths the key reports
//! `k_sign`    the key signs a request (ClientTransaction::request); the MAC on
//!             the wire must have signing_len octets and equal the independent
//!             HMAC of the specification's term
//! `present`   a peer that holds the secret sends the key holder a request
//!             (ServerTransaction::request) / the answer to its request
//!             (ClientTransaction::answer) whose MAC - the independent HMAC of
//!             the specification's term - has n octets
//! `from_name` / `from_str` / `to_name`   Algorithm's conversions
#[path = "../tsig.rs"]
mod tsig;

use domain::base::{Message, Name};
use domain::rdata::tsig::Time48;
use domain::tsig::{Algorithm, ClientTransaction, GenerateKeyError, Key, KeyName, NewKeyError, ServerTransaction};
use serde_json::{json, Value};
use std::panic::{catch_unwind, AssertUnwindSafe};
use std::str::FromStr;
use tsig::*;
use verif_harness::common::*;

struct Run {
    terms: Terms,
    key: Option<Key>,
    alg: String,
    cli: Option<ClientTransaction<Key>>,
}

fn alg_tag(a: Algorithm) -> &'static str {
    match a {
        Algorithm::Sha1 => "sha1",
        Algorithm::Sha256 => "sha256",
        Algorithm::Sha384 => "sha384",
        Algorithm::Sha512 => "sha512",
    }
}

fn allow(op: &Value, res: &str) -> String {
    if let Some(a) = op.get("allow").and_then(|a| a.as_array()) {
        let names: Vec<&str> = a.iter().filter_map(|x| x.as_str()).collect();
        if names.contains(&res) {
            return names.join("|");
        }
    }
    res.to_string()
}

impl Run {
    fn step(&mut self, op: &Value) -> Value {
        match op["op"].as_str().unwrap_or("") {
            "key_new" => {
                let a = op["alg"].as_str().unwrap_or("sha256");
                let opt = |v: &Value| -> Option<usize> { let n = v.as_i64().unwrap_or(-1); if n < 0 { None } else { Some(n as usize) } };
                let (mm, sl) = (opt(&op["min"]), opt(&op["sign"]));
                let name = KeyName::from_str(KEYNAME_S).unwrap();
                let native = lib_alg(a).native_len();
                let r: Result<Key, &'static str> = if op["gen"].as_bool().unwrap_or(false) {
                    let rng = ring::rand::SystemRandom::new();
                    match Key::generate(lib_alg(a), &rng, name, mm, sl) {
                        Ok((k, bytes)) => if bytes.len() == native { Ok(k) } else { Err("SecretLength") },
                        Err(GenerateKeyError::BadMinMacLen) => Err("BadMinMacLen"),
                        Err(GenerateKeyError::BadSigningLen) => Err("BadSigningLen"),
                        Err(GenerateKeyError::GenerationFailed) => Err("GenerationFailed"),
                    }
                } else {
                    Key::new(lib_alg(a), SECRET, name, mm, sl).map_err(|e| match e {
                        NewKeyError::BadMinMacLen => "BadMinMacLen",
                        NewKeyError::BadSigningLen => "BadSigningLen",
                    })
                };
                self.alg = a.to_string();
                match r {
                    Ok(k) => {
                        let o = json!({"res": "Ok", "minlen": k.min_mac_len(), "slen": k.signing_len(), "native": k.native_len()});
                        if alg_tag(k.algorithm()) != a {
                            return json!({"res": "WrongAlgorithm"});
                        }
                        self.key = Some(k);
                        o
                    }
                    Err(e) => json!({"res": allow(op, e), "minlen": 0, "slen": 0, "native": native}),
                }
            }
            "k_sign" => {
                let key = match &self.key { Some(k) => k.clone(), None => return json!({"diverged": true}) };
                let (b, id) = (op["b"].as_u64().unwrap(), op["id"].as_u64().unwrap() as u16);
                let fudge = op["fudge"].as_u64().unwrap() as u16;
                let now = op["now"].as_u64().unwrap();
                let mut bld = match msg_builder(id, 0, 0, b) { Ok(x) => x, Err(e) => return json!({"harness": e}) };
                let pre = bld.as_slice().to_vec();
                match ClientTransaction::request_with_fudge(key, &mut bld, Time48::from_u64(now), fudge) {
                    Ok(c) => self.cli = Some(c),
                    Err(_) => return json!({"res": "PushError"}),
                }
                let wire = bld.finish();
                let (rr, end) = match TsigRr::parse_at(&wire, pre.len()) { Some(x) => x, None => return json!({"res": "Ok", "mac": "norr", "rr": "unparseable"}) };
                let want = TsigRr { x: Shape::default(), name: name_wire(KEYNAME_S), alg: alg_wire(&self.alg), time: now, fudge, mac: rr.mac.clone(), oid: id, err: 0, other: vec![] };
                let rrs = if end != wire.len() { "trailing" } else if get_ar(&wire) != get_ar(&pre) + 1 { "arcount" }
                          else if wire[12..pre.len()] != pre[12..] { "prefix" } else if rr != want { "fields" } else { "ok" };
                let (j, n) = (op["macref"]["j"].as_u64().unwrap_or(0) as usize, op["macref"]["n"].as_u64().unwrap_or(0) as usize);
                let mac = if rr.mac.len() != n { "length" } else {
                    match self.terms.mac(j, n) { Ok(m) if m == rr.mac => "ideal", Ok(_) => "other", Err(_) => "noterm" }
                };
                json!({"res": "Ok", "mac": mac, "rr": rrs})
            }
            "present" => {
                let key = match &self.key { Some(k) => k.clone(), None => return json!({"diverged": true}) };
                let (j, n) = (op["mac"].as_u64().unwrap() as usize, op["n"].as_u64().unwrap() as usize);
                let id = op["id"].as_u64().unwrap() as u16;
                let now = op["now"].as_u64().unwrap();
                let full = match self.terms.full(j) { Ok(f) => f, Err(e) => return json!({"harness": e}) };
                let mut mac = full[..n.min(full.len())].to_vec();
                while mac.len() < n {
                    mac.push(0xa5);
                }
                let srv = op["side"] == "srv";
                let pre = if srv { msg_octets(id, 0, 0, 1) } else { msg_octets(id, 0x80, 0, 3) };
                let rr = TsigRr { x: Shape::default(), name: name_wire(KEYNAME_S), alg: alg_wire(&self.alg), time: now,
                                  fudge: op["fudge"].as_u64().unwrap() as u16, mac, oid: id, err: 0, other: vec![] };
                let mut wire = pre.clone();
                wire.extend(rr.encode());
                let ar = get_ar(&wire);
                set_ar(&mut wire, ar + 1);
                let mut msg = match Message::from_octets(wire) { Ok(m) => m, Err(_) => return json!({"res": "ShortMessage"}) };
                let res = if srv {
                    match ServerTransaction::request(&key, &mut msg, Time48::from_u64(now)) {
                        Ok(Some(_)) => "Ok".to_string(),
                        Ok(None) => "Unsigned".to_string(),
                        Err(e) => tsig_rcode_name(e.error().to_int()).to_string(),
                    }
                } else {
                    let cli = match &self.cli { Some(c) => c, None => return json!({"diverged": true}) };
                    match cli.answer(&mut msg, Time48::from_u64(now)) { Ok(()) => "Ok".to_string(), Err(e) => verr(&e).to_string() }
                };
                if res == "Ok" && msg.as_slice()[..pre.len()] != pre[..] {
                    return json!({"res": "NotRestored"});
                }
                json!({"res": allow(op, &res)})
            }
            "from_name" => {
                let name = match Name::from_octets(bytes_of(&op["name"])) { Ok(n) => n, Err(_) => return json!({"harness": "not a name"}) };
                let r = Algorithm::from_name(&name);
                if let Some(a) = r {
                    // a name that maps to an algorithm is (a spelling of) that algorithm's name
                    if a.to_name() != name {
                        return json!({"res": format!("{}-but-to_name-differs", alg_tag(a))});
                    }
                }
                json!({"res": allow(op, r.map(alg_tag).unwrap_or("none"))})
            }
            "from_str" => {
                let s = String::from_utf8(bytes_of(&op["s"])).unwrap_or_default();
                let r = Algorithm::from_str(&s);
                json!({"res": allow(op, r.map(alg_tag).unwrap_or("none"))})
            }
            "to_name" => {
                let a = lib_alg(op["alg"].as_str().unwrap_or(""));
                let back = Algorithm::from_name(&a.to_name()) == Some(a) && Algorithm::from_str(&a.to_string()).ok() == Some(a);
                if !back {
                    return json!({"res": "no-round-trip"});
                }
                json!({"name": json_bytes(a.to_name().as_slice()), "str": json_bytes(a.to_string().as_bytes()), "native": a.native_len()})
            }
            other => json!({"harness": format!("unknown op {}", other)}),
        }
    }
}

fn main() {
    run_cases(|input| {
        let mut run = Run { terms: Terms::new(&input["terms"]["ideal"]), key: None, alg: String::new(), cli: None };
        let mut obs = vec![];
        for op in input["ops"].as_array().cloned().unwrap_or_default() {
            let o = match catch_unwind(AssertUnwindSafe(|| run.step(&op))) {
                Ok(v) => v,
                Err(_) => json!({"res": "panic"}),
            };
            let stop = o.get("harness").is_some() || o.get("diverged").is_some() || o["res"] == "panic";
            obs.push(o);
            if stop {
                break;
            }
        }
        Value::Array(obs)
    });
}
