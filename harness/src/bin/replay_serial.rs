//! S->I executor for Serial.tla cases (property C17).
//!
//! Every case is a k-bit evaluation made by TLC.  It is lifted to 32 bits by
//! the embedding phi_c(x) = x * 2^(32-k) + c (0 <= c < 2^(32-k)), which is an
//! exact homomorphism for RFC 1982 comparison (differences are scaled, the
//! undefined distance 2^(k-1) maps to 2^31) and, with the addend lifted as
//! n * 2^(32-k) + d (c + d < 2^(32-k)), for addition including the documented
//! panic threshold.  The lifted case is executed at several offsets on every
//! comparison site of the real library; for pairs that are neither equal nor
//! at the undefined distance also with different offsets on the two sides.
#[path = "../serial_ref.rs"]
mod serial_ref;

use domain::base::iana::{Class, SecurityAlgorithm};
use domain::base::name::Name;
use domain::base::{Record, Serial, Ttl};
use domain::crypto::sign::{SignError, SignRaw, Signature};
use domain::dnssec::sign::keys::SigningKey;
use domain::dnssec::sign::records::Rrset;
use domain::dnssec::sign::signatures::rrsigs::sign_rrset;
use domain::rdata::dnssec::Timestamp;
use domain::rdata::{Dnskey, A};
use serde_json::{json, Value};
use serial_ref::*;
use std::str::FromStr;
use verif_harness::common::*;

thread_local! {
    static RT: tokio::runtime::Runtime = tokio::runtime::Builder::new_current_thread()
        .enable_all()
        .build()
        .expect("runtime");
}

/// A key that "signs" with a constant: only the validity-period decision of
/// `sign_rrset` (`expiration < inception` in serial arithmetic) is observed.
#[derive(Debug)]
struct DummyKey;

impl SignRaw for DummyKey {
    fn algorithm(&self) -> SecurityAlgorithm {
        SecurityAlgorithm::ED25519
    }
    fn dnskey(&self) -> Dnskey<Vec<u8>> {
        Dnskey::new(256, 3, SecurityAlgorithm::ED25519, vec![7u8; 32]).unwrap()
    }
    fn sign_raw(&self, _data: &[u8]) -> Result<Signature, SignError> {
        Ok(Signature::Ed25519(Box::new([0u8; 64])))
    }
}

/// `sign_rrset` with the given validity period: "accept" (and the produced
/// RRSIG carries exactly these times) or "reject".  At distance exactly 2^31
/// RFC 1982 leaves the order undefined, so either outcome is admissible
/// there ("any"; the guard is on the inputs, not on a library result).
fn sign_decision(expiration: u32, inception: u32) -> &'static str {
    if expiration.wrapping_sub(inception) == 0x8000_0000 {
        return "any";
    }
    let apex = Name::<Vec<u8>>::from_str("example.").unwrap();
    let key = SigningKey::new(apex, 256, DummyKey);
    let owner = Name::<Vec<u8>>::from_str("www.example.").unwrap();
    let recs = vec![Record::new(
        owner,
        Class::IN,
        Ttl::from_secs(300),
        A::new(std::net::Ipv4Addr::new(192, 0, 2, 1)),
    )];
    let rrset = Rrset::new_from_owned(&recs).unwrap();
    match sign_rrset(&key, &rrset, Timestamp::from(inception), Timestamp::from(expiration)) {
        Ok(rr) => {
            if rr.data().expiration().into_int() == expiration
                && rr.data().inception().into_int() == inception
            {
                "accept"
            } else {
                "accept_but_times_changed"
            }
        }
        Err(_) => "reject",
    }
}

fn offsets(k: u32, a: u64, b: u64) -> Vec<u32> {
    let s: u64 = 1u64 << (32 - k);
    let mut r = Rng::new(seed() ^ (a << 20) ^ (b << 4) ^ (k as u64) << 40);
    let mut v = vec![0u32, (s - 1) as u32, r.below(s) as u32];
    if s > 1 {
        v.push(1);
    }
    v.sort();
    v.dedup();
    v
}

fn cmp_case(k: u32, a: u64, b: u64) -> Value {
    let sh = 32 - k;
    let s: u64 = 1u64 << sh;
    let mut first: Option<Value> = None;
    // equal offsets on both sides: exact for every k-bit pair
    let mut offs: Vec<(u32, u32)> = offsets(k, a, b).into_iter().map(|c| (c, c)).collect();
    // different offsets on the two sides move the 32-bit difference by less
    // than 2^(32-k) in either direction; that cannot change the result when
    // the k-bit difference is neither 0 nor 2^(k-1) (the lifted difference
    // stays strictly inside (0, 2^31) or (2^31, 2^32)).  This reaches the
    // distances 2^31 - 1 and 2^31 + 1 (and 1, 2^32 - 1) exactly.
    let dk = (b + (1u64 << k) - a) % (1u64 << k);
    if dk != 0 && dk != (1u64 << (k - 1)) && s > 1 {
        let mut r = Rng::new(seed() ^ (a << 22) ^ (b << 6) ^ (k as u64) << 42);
        offs.push((0, (s - 1) as u32));
        offs.push(((s - 1) as u32, 0));
        offs.push((r.below(s) as u32, r.below(s) as u32));
    }
    for (c, cb) in offs {
        let aa = ((a << sh) as u32).wrapping_add(c);
        let bb = ((b << sh) as u32).wrapping_add(cb);
        let (sa, sb) = (Serial(aa), Serial(bb));
        let (ta, tb) = (Timestamp::from(aa), Timestamp::from(bb));
        // Timestamp's comparison operators must agree with its partial_cmp
        let ts = lib_ts_cmp(aa, bb);
        let ts_ops_ok = (ta < tb) == (ts == "LT")
            && (ta > tb) == (ts == "GT")
            && (ta <= tb) == (ts == "LT" || ts == "EQ")
            && (ta >= tb) == (ts == "GT" || ts == "EQ")
            && (ta == tb) == (ts == "EQ");
        // the conversion routes that carry a serial / signature times must
        // all hand on the same value (the zone-file text routes on a part of
        // the cases: all of the 5-bit ones, every 16th otherwise)
        let text = k <= 5 || (a * 31 + b) % 16 == 0;
        let soa = match (serial_routes(aa), serial_routes(bb),
                         soa_serial_routes(aa, text), soa_serial_routes(bb, text)) {
            (Ok(x), Ok(y), Ok(sx), Ok(sy)) if x == sx && y == sy => {
                ord_str(Serial(sx).partial_cmp(&Serial(sy))).to_string()
            }
            (x, y, sx, sy) => format!("ROUTES: {x:?} {y:?} {sx:?} {sy:?}"),
        };
        let rrsig = match rrsig_times_routes(aa, bb) {
            Ok((e, i)) => ord_str(Timestamp::from(e).partial_cmp(&Timestamp::from(i))).to_string(),
            Err(e) => format!("ROUTES: {e}"),
        };
        let obs = json!({
            "serial": lib_cmp(aa, bb),
            "ops": {"lt": sa < sb, "le": sa <= sb, "gt": sa > sb, "ge": sa >= sb,
                    "eq": sa == sb},
            "rev": lib_cmp(bb, aa),
            "timestamp": if ts_ops_ok { ts } else { "OPS_INCONSISTENT" },
            "soa": soa,
            "rrsig": rrsig,
            "sign": sign_decision(aa, bb),
            "diff": if aa.wrapping_sub(bb) == 0x8000_0000 { "any" } else { diff_decision(aa, bb) },
            // IXFR request of a client at serial aa to a server at serial bb
            "ixfr": if aa.wrapping_sub(bb) == 0x8000_0000 {
                "any".to_string()
            } else {
                RT.with(|rt| ixfr_decision(rt, aa, bb))
            },
            // the same request to a provider that has no diffs
            "ixfrnodiffs": if aa.wrapping_sub(bb) == 0x8000_0000 {
                "any".to_string()
            } else {
                RT.with(|rt| ixfr_decision_with(rt, aa, bb, false))
            },
            "newserial": lib_new_cmp(aa, bb),
            "newts": lib_newts_cmp(aa, bb),
            "ref": ref_cmp(32, aa as u64, bb as u64),
            "refk": ref_cmp(k, a, b),
        });
        match &first {
            None => first = Some(obs),
            Some(f) if *f != obs => {
                return json!({"offsets_disagree": {"c": c, "cb": cb, "a32": aa, "b32": bb,
                                                   "first": f, "this": obs}});
            }
            _ => {}
        }
    }
    first.unwrap_or(json!({"no_offsets": true}))
}

fn add_res(r: Option<u32>, k: u32, off: u32) -> Value {
    let sh = 32 - k;
    match r {
        None => json!({"panic": true}),
        Some(v) => {
            let base = v.wrapping_sub(off);
            if sh < 32 && (base as u64) % (1u64 << sh) == 0 {
                json!({"ok": (base as u64) >> sh})
            } else {
                json!({"badlift": v})
            }
        }
    }
}

fn add_case(k: u32, a: u64, n: u64) -> Value {
    let sh = 32 - k;
    let s: u64 = 1u64 << sh;
    let mut r = Rng::new(seed() ^ (a << 21) ^ (n << 5) ^ (k as u64) << 41);
    let c_r = r.below(s);
    let d_r = r.below(s - c_r);
    let mut pairs = vec![(0u64, 0u64), (s - 1, 0), (0, s - 1), (c_r, d_r)];
    pairs.sort();
    pairs.dedup();
    let mut first: Option<Value> = None;
    for (c, d) in pairs {
        let aa = ((a << sh) as u32).wrapping_add(c as u32);
        let nn = ((n << sh) as u32).wrapping_add(d as u32);
        let off = (c + d) as u32;
        let lib = lib_add(aa, nn);
        let refr = match (ref_add(32, aa as u64, nn as u64), ref_add(k, a, n)) {
            (Some(x), Some(y)) if add_res(Some(x as u32), k, off) == json!({"ok": y}) => {
                json!({"ok": y})
            }
            (None, None) => json!({"panic": true}),
            (x, y) => json!({"ref_widths_disagree": [x, y]}),
        };
        let obs = json!({
            "serial": add_res(lib, k, off),
            "newserial": add_res(lib_new_inc(aa, nn), k, off),
            "ref": refr,
            // the lifted k-bit claim Cmp(a, Add(a, n)) = LT: both sides at offset c + d
            "grew": match lib {
                Some(v) => Serial(aa.wrapping_add(d as u32)) < Serial(v),
                None => false,
            },
        });
        match &first {
            None => first = Some(obs),
            Some(f) if *f != obs => {
                return json!({"offsets_disagree": {"c": c, "d": d, "a32": aa, "n32": nn,
                                                   "first": f, "this": obs}});
            }
            _ => {}
        }
    }
    first.unwrap_or(json!({"no_offsets": true}))
}

/// `Timestamp::to_system_time`: the k-bit case (reference time ref = era *
/// 2^k + r, serial ts) is lifted with independent offsets on the reference
/// (c_r) and on the serial (c_ts): the lifted signed distance is
/// 2^(32-k) * d_k + (c_ts - c_r), which stays strictly inside (-2^31, 2^31)
/// whenever the k-bit distance d_k is not 2^(k-1), so the placed time is
/// exactly Place_k * 2^(32-k) + c_ts.  Cases the spec leaves unconstrained
/// (distance exactly half a cycle, placement before the epoch) carry
/// free = true and are executed for totality only.
fn place_case(k: u32, refk: u64, ts: u64, free: bool, tie: bool) -> Value {
    let sh = 32 - k;
    let s: u64 = 1u64 << sh;
    let (era, r) = (refk >> k, refk & ((1u64 << k) - 1));
    let mut rng = Rng::new(seed() ^ (refk << 23) ^ (ts << 7) ^ (k as u64) << 43);
    let mut offs: Vec<(u64, u64)> = vec![(0, 0), (s - 1, s - 1)];
    if tie {
        // the serial is exactly half a cycle from the reference: only equal
        // offsets keep the 32-bit pair at distance exactly 2^31 (the distances
        // 2^31 - 1 and 2^31 + 1 are reached from the k-bit neighbours below)
        let c = rng.below(s);
        offs.extend_from_slice(&[(1 % s, 1 % s), (c, c)]);
    } else if !free {
        offs.extend_from_slice(&[(1 % s, 0), (0, 1 % s), (s - 1, 0), (0, s - 1),
                                 (rng.below(s), rng.below(s))]);
    }
    offs.sort();
    offs.dedup();
    let mut first: Option<Value> = None;
    for (c_r, c_ts) in offs {
        let ref32 = (era << 32) + (r << sh) + c_r;
        let ts32 = ((ts << sh) + c_ts) as u32;
        let mut obs = json!({});
        for (site, placed) in [("timestamp", lib_place(ts32, ref32)),
                               ("newts", lib_newts_place(ts32, ref32))] {
            obs[site] = if free {
                // totality and requirement 1 of the documentation only
                match placed {
                    Some(t) if t as u32 == ts32 => json!("any"),
                    other => json!({"free_case_broken": other}),
                }
            } else {
                match placed {
                    Some(t) if t >= c_ts && (t - c_ts) % s == 0 => json!({"t": (t - c_ts) >> sh}),
                    other => json!({"badlift": other, "ref32": ref32, "ts32": ts32}),
                }
            };
        }
        match &first {
            None => first = Some(obs),
            Some(f) if *f != obs => {
                return json!({"offsets_disagree": {"c_r": c_r, "c_ts": c_ts, "ref32": ref32,
                                                   "ts32": ts32, "first": f, "this": obs}});
            }
            _ => {}
        }
    }
    first.unwrap_or(json!({"no_offsets": true}))
}

/// Text entry points: the k-bit times t1, t2 (any era) are lifted to real
/// times era * 2^32 + (t mod 2^k) * 2^(32-k) + c, rendered as real dates and
/// as integers, read through FromStr, Timestamp::scan and the zone-file
/// reader (RRSIG expiration = t1, inception = t2); the field values are
/// unlifted and the two scanned timestamps are compared.  Different offsets
/// for the two times are used when the k-bit distance is neither 0 nor half
/// a cycle (the comparison is then unaffected, see cmp_case).
fn text_case(k: u32, t1: u64, t2: u64) -> Value {
    let sh = 32 - k;
    let s: u64 = 1u64 << sh;
    let m: u64 = 1u64 << k;
    let lift = |t: u64, c: u64| ((t >> k) << 32) + ((t & (m - 1)) << sh) + c;
    let mut rng = Rng::new(seed() ^ (t1 << 24) ^ (t2 << 8) ^ (k as u64) << 44);
    let r = rng.below(s);
    let mut offs: Vec<(u64, u64)> = vec![(0, 0), (s - 1, s - 1), (r, r)];
    let dk = (t2 + m * 4 - t1) % m;
    if dk != 0 && dk != m / 2 {
        offs.extend_from_slice(&[(0, s - 1), (s - 1, 0), (rng.below(s), rng.below(s))]);
    }
    offs.sort();
    offs.dedup();
    let mut first: Option<Value> = None;
    for (c1, c2) in offs {
        let (a, b) = (lift(t1, c1), lift(t2, c2));
        let obs = match text_entry_points(a, b) {
            Err(e) => json!({"entry_points": e, "t1": a, "t2": b}),
            Ok((v1, v2)) => {
                let un = |v: u32, c: u64| {
                    let base = (v as u64).wrapping_sub(c);
                    if (v as u64) >= c && base % s == 0 { json!(base >> sh) } else { json!({"badlift": v}) }
                };
                json!({
                    "v1": un(v1, c1), "v2": un(v2, c2),
                    "cmp": lib_ts_cmp(v1, v2),
                    "written": match text_written_ok(v1, v2) { Ok(()) => json!(true), Err(e) => json!(e) },
                })
            }
        };
        match &first {
            None => first = Some(obs),
            Some(f) if *f != obs => {
                return json!({"offsets_disagree": {"c1": c1, "c2": c2, "t1": a, "t2": b,
                                                   "first": f, "this": obs}});
            }
            _ => {}
        }
    }
    first.unwrap_or(json!({"no_offsets": true}))
}

/// Validity windows: the k-bit triple (lo, hi, x) is lifted with equal
/// offsets on all three (exact for every triple) and -- where no two of the
/// quantities that the decision compares coincide -- with independent
/// offsets: with d = (x - lo) mod 2^k and w = (hi - lo) mod 2^k the lifted
/// decision d32 < w32 equals d < w whenever d is neither 0 nor w and w is not
/// 0 (then d*S + c_x < w*S + c_hi follows from d < w and conversely, and
/// neither lifted difference wraps).  Ill-formed windows (w >= 2^(k-1)) are
/// executed for totality; the spec leaves their answer open ("any").
fn window_case(k: u32, lo: u64, hi: u64, x: u64) -> Value {
    let sh = 32 - k;
    let s: u64 = 1u64 << sh;
    let m: u64 = 1u64 << k;
    let d = (x + m - lo) % m;
    let w = (hi + m - lo) % m;
    let well_formed = w < m / 2;
    let mut rng = Rng::new(seed() ^ (lo << 25) ^ (hi << 13) ^ (x << 3) ^ (k as u64) << 45);
    let r = rng.below(s);
    let mut offs: Vec<(u64, u64, u64)> = vec![(0, 0, 0), (s - 1, s - 1, s - 1), (r, r, r)];
    if well_formed && d != 0 && d != w && w != 0 {
        offs.extend_from_slice(&[(0, s - 1, 0), (s - 1, 0, s - 1), (0, 0, s - 1), (s - 1, s - 1, 0),
                                 (rng.below(s), rng.below(s), rng.below(s))]);
    }
    offs.sort();
    offs.dedup();
    let mut first: Option<Value> = None;
    for (c_lo, c_hi, c_x) in offs {
        let lo32 = ((lo << sh) + c_lo) as u32;
        let hi32 = ((hi << sh) + c_hi) as u32;
        let x32 = ((x << sh) + c_x) as u32;
        let mut obs = window_sites(lo32, hi32, x32);
        if !well_formed {
            for site in ["cookie", "newrange", "range", "tsrange", "newtsrange"] {
                if obs[site] == "accept" || obs[site] == "reject" {
                    obs[site] = json!("any");
                }
            }
        }
        match &first {
            None => first = Some(obs),
            Some(f) if *f != obs => {
                return json!({"offsets_disagree": {"lo32": lo32, "hi32": hi32, "x32": x32,
                                                   "first": f, "this": obs}});
            }
            _ => {}
        }
    }
    first.unwrap_or(json!({"no_offsets": true}))
}

/// Instants: the k-bit instants t1, t2 (negative: before the epoch) are
/// lifted to era * 2^32 + (t mod 2^k) * 2^(32-k) + c with era = floor(t /
/// 2^k), handed to the library as `jiff::Timestamp`s and converted into
/// serials; the serials are unlifted and compared, and where t2 is 0 ..
/// 2^(k-1)-1 seconds after t1 the first serial is advanced by the elapsed
/// (lifted) seconds with `Serial::add`.
fn instant_case(k: u32, t1: i64, t2: i64) -> Value {
    let sh = 32 - k;
    let s: i64 = 1i64 << sh;
    let m: i64 = 1i64 << k;
    let lift = |t: i64, c: i64| (t.div_euclid(m) << 32) + (t.rem_euclid(m) << sh) + c;
    let mut rng = Rng::new(seed() ^ ((t1 + 4 * m) as u64) << 26 ^ ((t2 + 4 * m) as u64) << 9
                           ^ (k as u64) << 46);
    let r = rng.below(s as u64) as i64;
    let mut offs: Vec<(i64, i64)> = vec![(0, 0), (s - 1, s - 1), (r, r)];
    let dk = (t2 - t1).rem_euclid(m);
    let adv = (0..m / 2).contains(&(t2 - t1));
    if dk != 0 && dk != m / 2 {
        offs.extend_from_slice(&[(0, s - 1), (s - 1, 0),
                                 (rng.below(s as u64) as i64, rng.below(s as u64) as i64)]);
    }
    offs.sort();
    offs.dedup();
    let mut first: Option<Value> = None;
    for (c1, c2) in offs {
        let (a, b) = (lift(t1, c1), lift(t2, c2));
        let obs = match (lib_instant(a), lib_instant(b)) {
            (Ok(v1), Ok(v2)) => {
                let un = |v: u32, c: i64| {
                    let base = (v as i64) - c;
                    if base >= 0 && base % s == 0 { json!(base >> sh) } else { json!({"badlift": v}) }
                };
                json!({
                    "v1": un(v1, c1), "v2": un(v2, c2),
                    "cmp": lib_cmp(v1, v2),
                    "adv": if adv {
                        match lib_add(v1, (b - a) as u32) {
                            Some(v) => json!({"ok": un(v, c2)}),
                            None => json!({"panic": true}),
                        }
                    } else {
                        json!({"na": true})
                    },
                })
            }
            (x, y) => json!({"conversion": [format!("{x:?}"), format!("{y:?}")], "t1": a, "t2": b}),
        };
        match &first {
            None => first = Some(obs),
            Some(f) if *f != obs => {
                return json!({"offsets_disagree": {"c1": c1, "c2": c2, "t1": a, "t2": b,
                                                   "first": f, "this": obs}});
            }
            _ => {}
        }
    }
    first.unwrap_or(json!({"no_offsets": true}))
}

thread_local! {
    static RIG: std::cell::RefCell<FreshRig> = std::cell::RefCell::new(FreshRig::new());
}

fn unlimb(v: &Value) -> Option<u32> {
    let hi = v.get(0)?.as_u64()?;
    let lo = v.get(1)?.as_u64()?;
    if hi > 0xFFFF || lo > 0xFFFF {
        return None;
    }
    Some(((hi << 16) | lo) as u32)
}

/// Freshness of a cookie timestamp at a clock value: TLC has lifted the
/// k-bit pair to 32 bits itself (limb form) because the site's window
/// constants are fixed numbers of seconds; the case is executed as given.
/// Where the specification leaves the decision open ("any": the timestamp is
/// exactly at an end of the window) the sites are executed for totality.
fn fresh_case(input: &Value, exp_any: bool) -> Value {
    let (Some(now), Some(ts)) = (unlimb(&input["now"]), unlimb(&input["ts"])) else {
        return json!({"bad_case": true});
    };
    let mut obs = RIG.with(|r| r.borrow_mut().sites(now, ts));
    if exp_any {
        for site in ["mwprefetch", "mwdenied", "optcookie"] {
            if obs[site] == "accept" || obs[site] == "reject" {
                obs[site] = json!("any");
            }
        }
    }
    obs
}

/// The sites this executor drives, by kind, with the operator of Serial.tla
/// each is compared against; must be the specification's table.
fn sites_case() -> Value {
    json!({
        "cmp": {"serial": "Cmp", "timestamp": "Cmp", "newserial": "Cmp", "newts": "Cmp",
                "soa": "Cmp", "rrsig": "Cmp", "sign": "ValidityPeriod", "diff": "NewerSerial",
                "ixfr": "IxfrUpToDate", "ixfrnodiffs": "IxfrUpToDate"},
        "add": {"serial": "Add", "newserial": "Add"},
        "window": {"cookie": "InWindow", "newrange": "InWindow", "range": "InWindow",
                   "tsrange": "InWindow", "newtsrange": "InWindow"},
        "fresh": {"mwprefetch": "Fresh", "mwdenied": "Fresh", "optcookie": "Fresh"},
        "place": {"timestamp": "Place", "newts": "Place"},
    })
}

fn a_or(input: &Value, key: &str) -> u64 {
    input[key].as_u64().unwrap_or(0)
}

fn main() {
    if !RIG.with(|r| r.borrow().selftest()) {
        eprintln!("clock interposition or hash self-test failed");
        std::process::exit(2);
    }
    run_cases(|input| {
        let k = input["k"].as_u64().unwrap_or(0) as u32;
        if !(2..=31).contains(&k) {
            return json!({"bad_case": true});
        }
        let a = input["a"].as_u64().unwrap_or(0);
        match input["kind"].as_str() {
            Some("sites") => sites_case(),
            Some("fresh") => {
                // whether the timestamp sits exactly at an end of the window is
                // decided on the inputs
                let at_end = match (unlimb(&input["now"]), unlimb(&input["ts"])) {
                    (Some(now), Some(ts)) => {
                        ts.wrapping_sub(now) == FUTURE || now.wrapping_sub(ts) == PAST
                    }
                    _ => false,
                };
                fresh_case(input, at_end)
            }
            Some("cmp") => cmp_case(k, a, input["b"].as_u64().unwrap_or(0)),
            Some("add") => add_case(k, a, input["n"].as_u64().unwrap_or(0)),
            Some("text") => text_case(
                k,
                input["t1"].as_u64().unwrap_or(0),
                input["t2"].as_u64().unwrap_or(0),
            ),
            Some("window") => window_case(
                k,
                a_or(input, "lo"),
                a_or(input, "hi"),
                a_or(input, "x"),
            ),
            Some("instant") => instant_case(
                k,
                input["t1"].as_i64().unwrap_or(0),
                input["t2"].as_i64().unwrap_or(0),
            ),
            Some("place") => place_case(
                k,
                input["ref"].as_u64().unwrap_or(0),
                input["ts"].as_u64().unwrap_or(0),
                input["free"].as_bool().unwrap_or(false),
                input["tie"].as_bool().unwrap_or(false),
            ),
            _ => json!({"bad_case": true}),
        }
    });
}
