// scratch probe (to be replaced by the executor)
use std::time::Duration;

use domain::base::iana::{Class, Opcode, OptRcode, Rcode};
use domain::base::message_builder::AdditionalBuilder;
use domain::base::name::Name;
use domain::base::opt::UnknownOptData;
use domain::base::rdata::UnknownRecordData;
use domain::base::record::Ttl;
use domain::base::{Message, MessageBuilder, Rtype, StreamTarget};
use domain::net::server::adapter::SingleServiceToService;
use domain::net::server::message::{
    NonUdpTransportContext, Request, TransportSpecificContext, UdpTransportContext,
};
use domain::net::server::middleware::edns::EdnsMiddlewareSvc;
use domain::net::server::middleware::mandatory::MandatoryMiddlewareSvc;
use domain::net::server::qname_router::QnameRouter;
use domain::net::server::service::{CallResult, Service, ServiceResult};
use domain::net::server::single_service::ReplyMessage;
use domain::net::server::util::{add_edns_options, mk_builder_for_target, service_fn};
use futures_util::StreamExt;

fn mkreq(opcode: Opcode, qd: usize, opt: Option<(u16, u8)>, udp: bool) -> Request<Vec<u8>, ()> {
    let mut b = MessageBuilder::new_vec();
    b.header_mut().set_id(0x1234);
    b.header_mut().set_opcode(opcode);
    let mut q = b.question();
    for _ in 0..qd {
        q.push((Name::<Vec<u8>>::from_chars("a.example.com".chars()).unwrap(), Rtype::A))
            .unwrap();
    }
    let mut a = q.additional();
    if let Some((size, ver)) = opt {
        a.opt(|o| {
            o.set_udp_payload_size(size);
            o.set_version(ver);
            Ok(())
        })
        .unwrap();
    }
    let msg = a.into_message();
    let ctx: TransportSpecificContext = if udp {
        UdpTransportContext::new(Some(1232)).into()
    } else {
        NonUdpTransportContext::new(Some(Duration::from_secs(30))).into()
    };
    Request::new("127.0.0.1:5353".parse().unwrap(), tokio::time::Instant::now(), msg, ctx, ())
}

fn svc(req: Request<Vec<u8>, ()>, _m: ()) -> ServiceResult<Vec<u8>> {
    let b = mk_builder_for_target();
    let a = b.start_answer(req.message(), Rcode::NOERROR).unwrap();
    Ok(CallResult::new(a.additional()))
}

fn show(tag: &str, r: &AdditionalBuilder<StreamTarget<Vec<u8>>>) {
    let m = Message::from_octets(r.as_slice().to_vec()).unwrap();
    println!(
        "{tag}: rcode={} optrcode={} opt={:?} ar={} len={}",
        m.header().rcode(),
        m.opt_rcode(),
        m.opt().map(|o| (
            o.udp_payload_size(),
            o.version(),
            o.opt().iter::<UnknownOptData<_>>().map(|x| x.unwrap().code().to_int()).collect::<Vec<_>>()
        )),
        m.header_counts().arcount(),
        r.as_slice().len()
    );
}

fn main() {
    let rt = tokio::runtime::Builder::new_current_thread().enable_time().build().unwrap();
    rt.block_on(async {
        // A: mandatory FORMERR / NOTIMP for a non-EDNS request
        let stack = MandatoryMiddlewareSvc::new(EdnsMiddlewareSvc::new(service_fn(svc, ())));
        for (tag, req) in [
            ("A iquery noedns udp", mkreq(Opcode::IQUERY, 1, None, true)),
            ("A qd2 noedns udp", mkreq(Opcode::QUERY, 2, None, true)),
            ("A iquery edns udp", mkreq(Opcode::IQUERY, 1, Some((1232, 0)), true)),
            ("E badvers tcp", mkreq(Opcode::QUERY, 1, Some((1232, 1)), false)),
            ("E badvers udp", mkreq(Opcode::QUERY, 1, Some((1232, 1)), true)),
            ("ok tcp", mkreq(Opcode::QUERY, 1, Some((1232, 0)), false)),
        ] {
            let mut s = stack.call(req).await;
            let item = s.next().await.unwrap().unwrap();
            let (r, _) = item.into_inner();
            show(tag, &r.unwrap());
        }
        // B/D: router
        let mut router: QnameRouter<Vec<u8>, Vec<u8>, (), ReplyMessage> = QnameRouter::new();
        let inner: QnameRouter<Vec<u8>, Vec<u8>, (), ReplyMessage> = QnameRouter::new();
        router.add(Name::<Vec<u8>>::from_chars("example.org".chars()).unwrap(), inner);
        let rs = SingleServiceToService::new(router);
        let mut s = rs.call(mkreq(Opcode::QUERY, 1, None, true)).await;
        let item = s.next().await.unwrap().unwrap();
        show("D nomatch noedns", &item.into_inner().0.unwrap());
        let r = std::panic::catch_unwind(std::panic::AssertUnwindSafe(|| {
            let _ = rs.call(mkreq(Opcode::QUERY, 0, None, true));
        }));
        println!("B qd0 panic={}", r.is_err());
        // C: add_edns_options atomicity
        let req = mkreq(Opcode::QUERY, 1, Some((1232, 0)), true);
        let b = mk_builder_for_target::<Vec<u8>>();
        let mut a = b.start_answer(req.message(), Rcode::NOERROR).unwrap().additional();
        a.opt(|o| {
            o.set_rcode(OptRcode::BADCOOKIE);
            o.set_udp_payload_size(1400);
            o.padding(4)
        })
        .unwrap();
        show("C before", &a);
        let l = a.as_slice().len();
        a.set_push_limit(l + 10);
        let res = add_edns_options(&mut a, |o| o.padding(40));
        println!("C res={:?}", res);
        show("C after", &a);
        let _ = (Class::IN, Ttl::from_secs(0), UnknownRecordData::from_octets(Rtype::A, vec![0u8; 4]));
    });
}
