//! X11 S->I executor: every case TLC generated from spec/ServerEdns.tla and
//! spec/ServerRouting.tla is performed on the real stacks / helpers of
//! domain::net::server and the complete observation compared.
#[path = "../srvmw.rs"]
mod srvmw;

use verif_harness::common::run_cases;

fn main() {
    run_cases(|input| srvmw::run_case(input));
}
