//! S->I executor for Gen_Cache.tla behaviours: performs every operation of a
//! generated behaviour on the real `cache::Connection` (scripted upstream,
//! tokio's paused clock) and reports, after every operation, what the client
//! was served and whether upstream was consulted.
#[path = "../cache.rs"]
mod cache;

use cache::*;
use serde_json::{json, Value};
use std::time::Duration;
use verif_harness::common::*;

fn run_behaviour(input: &Value) -> Value {
    if input["kind"].as_str() == Some("config") {
        // Config::new() [+ one setter], read back through Debug
        let cfg = config_after_set(input["field"].as_str().unwrap_or("none"), &input["value"]);
        return config_fields(&cfg);
    }
    let rt = runtime();
    rt.block_on(async {
        let mut drv = Driver::new(&input["cfg"]);
        let mut tab = RdTable::default();
        let mut obs = vec![];
        let t0 = tokio::time::Instant::now();
        let mut model_ms: u64 = 0;
        for op in input["ops"].as_array().cloned().unwrap_or_default() {
            match op["op"].as_str() {
                Some("tick") => {
                    let d = op["d"].as_u64().unwrap_or(0);
                    tokio::time::advance(Duration::from_millis(d)).await;
                    model_ms += d;
                    // the virtual clock must be exactly where the model's is
                    let real = t0.elapsed().as_millis() as u64;
                    if real != model_ms {
                        obs.push(json!({"clock_skew": [real, model_ms]}));
                    } else {
                        obs.push(json!({"tick": d}));
                    }
                }
                Some("query") => {
                    let q = &op["q"];
                    let up = build_response(&op["up"], drv.next_id, &mut tab);
                    let out = drv.query(q, up).await;
                    let mut o = json!({
                        "served": project_resp(&out.served, Some(&tab)),
                        "upstream": !out.upstream.is_empty(),
                    });
                    // the cache must forward the client's request unchanged
                    // and at most once
                    if out.upstream.len() > 1 {
                        o["upstream_calls"] = json!(out.upstream.len());
                    }
                    if let Some(m) = out.upstream.first() {
                        let fwd = project_request(m);
                        if fwd != expected_forward(q) {
                            o["forwarded"] = fwd;
                        }
                    }
                    obs.push(o);
                }
                _ => obs.push(json!({"bad_op": true})),
            }
        }
        Value::Array(obs)
    })
}

fn main() {
    run_cases(run_behaviour);
}
