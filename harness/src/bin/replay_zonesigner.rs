//! S->I executor for ZoneSigner.tla / SortedRecords.tla (X07).
//!
//! kind "sign": one explored (zone, configuration): the zone is signed by the
//! real `sign_zone` (recording SignRaw keys with the model's public key
//! octets) from two different assemblies of the collection; the observation
//! is the full list of RRSIG projections, the denial records, whether the
//! remainder is untouched, whether both assemblies gave the same signed
//! zone, and (cases flagged `closure`, real Ed25519 keys, validity period
//! around the present) whether every RRSIG verifies with
//! `RrsigExt::verify_signed_data` and honest answers drawn from the signed
//! zone validate Secure in `ValidationContext`.
//! kind "sorted": a behaviour of a SortedRecords collection, op by op.
//! kind "mixed_ttl": does signing a zone with an RRset of differing TTLs panic.
#[path = "../dnssec.rs"]
mod dnssec;
#[path = "../zonesigner.rs"]
mod zonesigner;

use bytes::Bytes;
use dnssec::*;
use domain::dnssec::sign::keys::SigningKey;
use domain::dnssec::sign::records::SortedRecords;
use serde_json::{json, Value};
use verif_harness::common::{has_flag, observe, run_cases};
use zonesigner::*;


fn be32(v: &Value) -> u32 {
    let b = bytes_of(v);
    u32::from_be_bytes([b[0], b[1], b[2], b[3]])
}

fn sign_case(input: &Value, counter: u64, rt: &tokio::runtime::Runtime, closure_all: bool) -> Value {
    let apex = name_of(&input["apex"]);
    let mode = input["mode"].as_str().unwrap_or("inplace");
    let den = input["den"].as_str().unwrap_or("none");
    let soa_min = input["soa"]["min"].as_u64().unwrap_or(300) as u32;
    let salt = bytes_of(&input["salt"]);
    let iters = input["iters"].as_u64().unwrap_or(0) as u16;
    let recs = match records_of_rrsets(&input["rrsets"], soa_min) {
        Ok(r) => r,
        Err(e) => return json!({"bad_zone": e}),
    };
    let hmap = hash_names(&input["names"]);
    let (inc, exp) = (be32(&input["inc"]), be32(&input["exp"]));
    // recording keys carrying the model's DNSKEY octets
    let keys: Vec<SigningKey<Bytes, RecKey>> = input["keys"]
        .as_array()
        .cloned()
        .unwrap_or_default()
        .iter()
        .map(|k| {
            SigningKey::new(name_of(&k["owner"]), k["flags"].as_u64().unwrap_or(256) as u16, RecKey::of_json(k))
        })
        .collect();
    let keyrefs: Vec<&SigningKey<Bytes, RecKey>> = keys.iter().collect();
    let tags: Vec<(u8, u16)> =
        keys.iter().map(|k| (k.algorithm().to_int(), k.dnskey().key_tag())).collect();
    let model_tags: Vec<u16> = tags.iter().map(|t| t.1).collect();

    let run = |how: usize| {
        let zone = assemble(&recs, how);
        let before = zone.iter().cloned().collect::<Vec<_>>();
        let dcfg = match denial_config(den, &salt, iters) {
            Ok(c) => c,
            Err(e) => return Err(e),
        };
        let (res, after, out) = run_sign(zone, &apex, mode, dcfg, inc, exp, &keyrefs);
        Ok((res, before, after, out))
    };
    let (res, before, after, out) = match run(0) {
        Ok(x) => x,
        Err(e) => return json!({"bad_config": e}),
    };
    // the original records are intact whatever happened
    let generated: &[SRecord] = if mode == "into" { &out } else { &after };
    let proj = match project(generated, &hmap, &tags, &model_tags) {
        Ok(p) => p,
        Err(e) => return json!({"projection": e}),
    };
    let rest_ok = if mode == "into" {
        same_records(&before, &after) && before.len() == after.len() && proj.rest.is_empty()
            && same_records(&before, &recs)
    } else {
        same_records(&proj.rest, &recs) && proj.rest.len() == before.len()
    } && is_canonical(&after) && is_canonical(&out);
    if res.is_err() {
        return json!({"err": true, "rest": rest_ok});
    }
    // P3: a different assembly of the same content gives the same signed zone
    let how2 = 1 + (counter as usize % 3);
    let order_independent = match run(how2) {
        Ok((r2, b2, a2, o2)) => {
            r2.is_ok() && same_records(&b2, &before) && a2.len() == after.len() && o2.len() == out.len()
                && a2.iter().map(tuple).eq(after.iter().map(tuple))
                && o2.iter().map(tuple).eq(out.iter().map(tuple))
        }
        Err(_) => false,
    };
    // P4
    let mut verified = json!(true);
    if closure_all || input["closure"] == true {
        let ask: Vec<(SName, u16)> = input["ask"].as_array().cloned().unwrap_or_default().iter()
            .map(|q| (name_of(&q["n"]), q["t"].as_u64().unwrap_or(0) as u16)).collect();
        let v = closure(&recs, &apex, mode, den, &salt, iters,
                        input["keys"].as_array().map(|a| a.len()).unwrap_or(1), &ask, rt);
        if v != json!(true) && std::env::var("VERIF_DEBUG").is_ok() {
            eprintln!("closure: {v}");
        }
        verified = json!(v == json!(true));
    }
    json!({"err": false, "sigs": proj.sigs, "den": proj.den, "rest": rest_ok,
           "order_independent": order_independent, "verified": verified})
}

/// sign once more with real Ed25519 keys and a validity period around now
fn closure(recs: &[SRecord], apex: &SName, mode: &str, den: &str, salt: &[u8], iters: u16, nkeys: usize,
           ask: &[(SName, u16)], rt: &tokio::runtime::Runtime) -> Value {
    let now = domain::rdata::dnssec::Timestamp::now().into_int();
    let rks: Vec<RealKey> = (0..nkeys).map(|i| real_key(apex, if i == 0 { 257 } else { 256 })).collect();
    let krefs: Vec<&SigningKey<Bytes, _>> = rks.iter().map(|k| &k.key).collect();
    let dcfg = match denial_config(den, salt, iters) {
        Ok(c) => c,
        Err(e) => return json!({"bad_config": e}),
    };
    let zone: Coll = SortedRecords::from(recs.to_vec());
    let (res, after, out) = run_sign(zone, apex, mode, dcfg, now.wrapping_sub(3600), now.wrapping_add(86400), &krefs);
    if let Err(e) = res {
        return json!({"sign_error": e});
    }
    let mut signed = after;
    signed.extend(out);
    let rrefs: Vec<&RealKey> = rks.iter().collect();
    let nsig = match verify_all(&signed, &rrefs) {
        Ok(n) => n,
        Err(e) => return json!({"verify": e}),
    };
    if nsig == 0 && nkeys > 0 && mode != "into" {
        return json!({"verify": "no signatures"});
    }
    match validate_all(rt, &signed, apex, &rks[0], ask) {
        Ok(_) => json!(true),
        Err(e) => json!({"validator": e}),
    }
}

fn sorted_case(input: &Value) -> Value {
    let apex = name_of(&input["apex"]);
    let mut c: Coll = SortedRecords::default();
    let mut steps = vec![];
    for op in input["ops"].as_array().cloned().unwrap_or_default() {
        let step = observe(|| {
            let res = apply_op(&mut c, &op);
            json!({"res": res, "state": coll_state(&c, &apex)})
        });
        let stop = step.get("panic").is_some();
        steps.push(step);
        if stop {
            break;
        }
    }
    json!({"steps": steps})
}

fn mixed_ttl_case(input: &Value) -> Value {
    let apex = name_of(&input["apex"]);
    let recs: Vec<SRecord> = input["recs"].as_array().cloned().unwrap_or_default().iter().map(rec_of).collect();
    let what = input["call"].as_str().unwrap_or("sign_zone").to_string();
    let r = std::panic::catch_unwind(std::panic::AssertUnwindSafe(|| {
        let zone: Coll = SortedRecords::from(recs);
        match what.as_str() {
            "rrsets" => {
                let _ = zone.rrsets().count();
            }
            _ => {
                let key = SigningKey::new(apex.clone(), 257, RecKey::new(257, 3, 15, vec![7; 32]));
                let _ = run_sign(zone, &apex, "inplace", denial_config("nsec", &[], 0).unwrap(), 0, 100, &[&key]);
            }
        }
    }));
    json!({"panic": r.is_err()})
}

fn main() {
    let rt = tokio::runtime::Builder::new_current_thread().enable_time().build().expect("rt");
    let closure_all = has_flag("--closure-all");
    let mut counter: u64 = 0;
    run_cases(|input| {
        counter += 1;
        match input["kind"].as_str().unwrap_or("") {
            "sign" => sign_case(input, counter, &rt, closure_all),
            "sorted" => sorted_case(input),
            "mixed_ttl" => mixed_ttl_case(input),
            k => json!({"unknown_kind": k}),
        }
    });
}
