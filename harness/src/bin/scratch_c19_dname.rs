//! scratch (temporary): does new::rdata::DName compress its target when built into a message?
use domain::new::base::build::{MessageBuilder as NewBuilder, NameCompressor};
use domain::new::base::name::{Name as NewName, NameBuf, RevNameBuf};
use domain::new::base::parse::MessageParser;
use domain::new::base::wire::U16;
use domain::new::base::{HeaderFlags, QClass, QType, RClass, RType, TTL};
use domain::new::rdata as nrd;
use std::str::FromStr;

fn main() {
    let mut buffer = vec![0u8; 512];
    let mut compressor = NameCompressor::default();
    let mut flags = HeaderFlags::default();
    flags.set_qr(true);
    let mut b = NewBuilder::new(&mut buffer, &mut compressor, U16::new(0x1234), flags);
    let rn = |x: &str| RevNameBuf::from_str(x).unwrap();
    b.push_question(&domain::new::base::Question { qname: rn("www.example.com."), qtype: QType::A, qclass: QClass::IN }).unwrap();
    let target = NameBuf::from_str("example.com.").unwrap();
    let tref: &NewName = &target;
    let rdata: nrd::RecordData<'_, &NewName> = nrd::RecordData::DName(nrd::DName::new(tref));
    let rec = domain::new::base::Record { rname: rn("x.example.org."), rtype: RType::from(39u16), rclass: RClass::IN, ttl: TTL::from(60), rdata };
    b.push_answer(&rec).unwrap();
    let msg = b.finish();
    let mut out = vec![];
    out.extend_from_slice(domain::new::base::wire::AsBytes::as_bytes(&msg.header));
    out.extend_from_slice(&msg.contents);
    println!("built {} octets: {:02x?}", out.len(), &out[12..]);
    let p = MessageParser::new(&out).unwrap();
    for it in p {
        println!("new reads: {:?}", it.map(|_| "ok"));
    }
    let m = domain::base::Message::from_octets(&out[..]).unwrap();
    for r in m.answer().unwrap() {
        let r = r.unwrap();
        println!("old reads: {:?}", r.to_any_record::<domain::rdata::AllRecordData<_, domain::base::name::ParsedName<_>>>().map(|r| r.data().to_string()));
    }
}
