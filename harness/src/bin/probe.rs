fn main() { verif_harness::common::hello(); println!("ok"); }
