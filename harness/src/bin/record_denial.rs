//! I->S recorder for C13.
//!   record_denial <out.ndjson> <seed> <n-zones> <max-names>
//! Random zones; one event per zone with both generated chains.
#[path = "../denial.rs"]
mod denial;

use verif_harness::common::quiet_panics;

fn main() {
    quiet_panics();
    let args: Vec<String> = std::env::args().collect();
    if args.len() < 2 {
        eprintln!("usage: record_denial <out> <seed> <n-zones> [max-names]");
        std::process::exit(2);
    }
    let num = |i: usize, d: u64| args.get(i).and_then(|s| s.parse().ok()).unwrap_or(d);
    denial::record(&args[1], num(2, 1), num(3, 5), num(4, 100));
}
