//! I->S recorder for property C09 with REAL THREADS (needs the hook
//! /verif/hooks/zonetree_trace.diff: `domain::verif_trace`).
//!
//!   record_zone_threads <trace.ndjson> <seed> <n_readers> <n_sessions>
//!
//! N reader threads and two writer threads run random scripts on one shared
//! `Zone`.  Events are ordered by sequence numbers drawn from the library's
//! counter: the linearization events (ReaderAcquire under versions.read(),
//! CommitUpdateCurrent / CommitPushVersion under versions.write(),
//! DropWriter before the update lock is released) are emitted by the
//! library's hooks *inside* the protecting lock; the harness adds
//! AcquireWriteLock / Open (drawn while it holds the update lock), the
//! begin and end of every write operation and of every query / walk.
//! No wall clock is involved.  Trace_ZoneStore.tla accepts a query result
//! if it is what the transcription yields in one of the store states that
//! existed between the query's begin and end.
#[path = "../zone.rs"]
mod zone;

use domain::verif_trace as vt;
use serde_json::{json, Value};
use std::collections::BTreeSet;
use std::sync::{Arc, Mutex};
use verif_harness::common::*;
use zone::*;

type MName = Vec<Vec<u8>>;
type MRec = (MName, String, u64);
const LA: u8 = 97;
const LB: u8 = 98;
const LC: u8 = 99;
const STAR: u8 = 42;
const QTYPES: [&str; 5] = ["A", "TXT", "NS", "ANY", "SOA"];

struct Shared {
    /// harness-side events (seq, json)
    log: Mutex<Vec<(u64, Value)>>,
    /// abstract content of the current version and the set of tree nodes;
    /// only touched by the thread that holds the zone's update lock
    content: Mutex<(BTreeSet<MRec>, BTreeSet<MName>)>,
    /// the bump flag of each commit, in commit order (commits are serialised by the lock)
    bumps: Mutex<Vec<bool>>,
}

fn log(sh: &Shared, v: Value) {
    let seq = vt::next_seq();
    sh.log.lock().unwrap().push((seq, v));
}

fn names() -> Vec<MName> {
    vec![
        vec![vec![LA]], vec![vec![LB]], vec![vec![STAR]],
        vec![vec![LA], vec![LA]], vec![vec![LB], vec![LA]], vec![vec![STAR], vec![LA]],
        vec![vec![LA], vec![LB]], vec![vec![LA], vec![LA], vec![LA]],
    ]
}

fn qnames() -> Vec<MName> {
    let mut v = names();
    v.push(vec![]);
    v.push(vec![vec![LC]]);
    v.push(vec![vec![LC], vec![LA]]);
    v.push(vec![vec![LC], vec![LB]]);
    v
}

fn reader_thread(zone: domain::zonetree::Zone, sh: Arc<Shared>, idx: u64, seed: u64, rounds: u64) {
    vt::set_tag(100 + idx);
    let r = format!("r{}", idx);
    let mut rng = Rng::new(seed);
    let qn = qnames();
    for _ in 0..rounds {
        // the ReaderAcquire event comes from the hook inside ZoneApex::read
        let rd = zone.read();
        let k = 1 + rng.below(5);
        for _ in 0..k {
            log(&sh, json!({"a": "QBegin", "r": r}));
            if rng.chance(1, 6) {
                let res = walk(rd.as_ref());
                log(&sh, json!({"a": "ReaderWalk", "r": r, "res": res}));
            } else {
                let q = json!(rng.pick(&qn));
                let res: Vec<Value> = QTYPES.iter().map(|qt| json!([qt, query(rd.as_ref(), &q, qt)])).collect();
                log(&sh, json!({"a": "ReaderQuery", "r": r, "qn": q, "res": res}));
            }
            if rng.chance(1, 3) {
                std::thread::yield_now();
            }
        }
        drop(rd);
        log(&sh, json!({"a": "ReaderRelease", "r": r}));
    }
}

fn writer_thread(zone: domain::zonetree::Zone, sh: Arc<Shared>, idx: u64, seed: u64, sessions: u64) {
    vt::set_tag(200 + idx);
    let w = format!("w{}", idx);
    let mut rng = Rng::new(seed);
    let uni = names();
    let mut h = ZoneHarness::from_zone(zone);
    for _ in 0..sessions {
        let kind = if rng.chance(1, 2) { "U" } else { "W" };
        // blocks until the other writer has dropped its WriteZone
        let op = json!({"a": "AcquireWriteLock", "w": w, "kind": kind});
        h.apply(&op);
        log(&sh, op); // drawn while the update lock is held
        let op = json!({"a": "Open", "w": w});
        h.apply(&op);
        log(&sh, op);
        let (mut pending, mut nodes) = sh.content.lock().unwrap().clone();
        let nops = 1 + rng.below(6);
        let mut committed_any = false;
        for _ in 0..nops {
            // granular operations: at most one node is created per call
            let n = rng.pick(&uni).clone();
            let parent_ok = n.len() == 1 || nodes.contains(&n[1..].to_vec());
            let exists = nodes.contains(&n);
            let t = if rng.chance(2, 3) { "A" } else { "TXT" };
            let x = 1 + rng.below(2);
            let mut p2 = pending.clone();
            let op = if kind == "U" {
                if !parent_ok {
                    continue;
                }
                if rng.chance(1, 12) {
                    p2.clear();
                    json!({"a": "U_DeleteAll", "w": w})
                } else if rng.chance(1, 3) {
                    p2.remove(&(n.clone(), t.to_string(), x));
                    nodes.insert(n.clone());
                    json!({"a": "U_DeleteRecord", "w": w, "n": n, "t": t, "x": x})
                } else {
                    if pending.contains(&(n.clone(), t.to_string(), x)) {
                        continue;
                    }
                    p2.insert((n.clone(), t.to_string(), x));
                    nodes.insert(n.clone());
                    json!({"a": "U_AddRecord", "w": w, "n": n, "t": t, "x": x})
                }
            } else if !exists {
                if !parent_ok {
                    continue;
                }
                nodes.insert(n.clone());
                json!({"a": "W_UpdateChild", "w": w, "n": n})
            } else if rng.chance(1, 8) {
                p2.retain(|r| !(r.0.len() >= n.len() && r.0[r.0.len() - n.len()..] == n[..]));
                json!({"a": "W_RemoveAll", "w": w, "n": n})
            } else if rng.chance(1, 3) {
                p2.retain(|r| !(r.0 == n && r.1 == t));
                json!({"a": "W_RemoveRrset", "w": w, "n": n, "t": t})
            } else {
                p2.retain(|r| !(r.0 == n && r.1 == t));
                p2.insert((n.clone(), t.to_string(), x));
                json!({"a": "W_UpdateRrset", "w": w, "n": n, "t": t, "xs": [x]})
            };
            log(&sh, op.clone()); // begin of the write operation
            let res = h.apply(&op);
            log(&sh, json!({"a": "WEnd", "w": w}));
            if !res.is_null() {
                eprintln!("write op failed: {} {}", op, res);
                std::process::exit(2);
            }
            pending = p2;
            if rng.chance(1, 3) {
                std::thread::yield_now();
            }
        }
        if rng.chance(2, 3) {
            // write-interface sessions use commit(true) half of the time
            let bump = kind == "W" && rng.chance(3, 4);
            if bump {
                let committed = sh.content.lock().unwrap().0.clone();
                let old: Vec<u64> = committed.iter().filter(|r| r.1 == "SOA").map(|r| r.2).collect();
                let new: Vec<u64> = pending.iter().filter(|r| r.1 == "SOA").map(|r| r.2).collect();
                if !old.is_empty() && (new.is_empty() || new == old) {
                    pending.retain(|r| r.1 != "SOA");
                    pending.insert((vec![], "SOA".into(), old[0] + 1));
                }
            }
            sh.bumps.lock().unwrap().push(bump);
            // the commit events come from the hooks inside versions.write()
            h.apply(&json!({"a": "CommitUpdateCurrent", "w": w, "bump": bump}));
            committed_any = true;
        }
        if committed_any {
            *sh.content.lock().unwrap() = (pending.clone(), nodes.clone());
        } else {
            // nodes are never removed, not even by a rollback
            sh.content.lock().unwrap().1 = nodes.clone();
        }
        // the DropWriter event comes from the hook in Drop for WriteZone
        h.apply(&json!({"a": "DropWriter", "w": w}));
    }
}

fn main() {
    let args: Vec<String> = std::env::args().collect();
    let path = args.get(1).cloned().unwrap_or_else(|| "trace.ndjson".into());
    let seed: u64 = args.get(2).and_then(|s| s.parse().ok()).unwrap_or_else(seed);
    let n_readers: u64 = args.get(3).and_then(|s| s.parse().ok()).unwrap_or(3);
    let n_sessions: u64 = args.get(4).and_then(|s| s.parse().ok()).unwrap_or(20);

    // initial zone (built before recording starts; logged as zone-file events)
    let zf: Vec<Value> = vec![
        json!([[], "SOA", 1]),
        json!([[[LA]], "A", 1]),
        json!([[[STAR]], "TXT", 1]),
    ];
    let zone = build_zone(&zf).expect("zone");
    let mut content: BTreeSet<MRec> = BTreeSet::new();
    content.insert((vec![], "SOA".into(), 1));
    content.insert((vec![vec![LA]], "A".into(), 1));
    content.insert((vec![vec![STAR]], "TXT".into(), 1));
    let mut nodes: BTreeSet<MName> = BTreeSet::new();
    nodes.insert(vec![vec![LA]]);
    nodes.insert(vec![vec![STAR]]);
    let sh = Arc::new(Shared { log: Mutex::new(vec![]), content: Mutex::new((content, nodes)), bumps: Mutex::new(vec![]) });

    let _ = vt::take();
    vt::enable(true);
    let mut hs = vec![];
    for i in 1..=n_readers {
        let (z, s) = (zone.clone(), sh.clone());
        hs.push(std::thread::spawn(move || reader_thread(z, s, i, seed * 1000 + i, n_sessions * 3)));
    }
    for i in 1..=2u64 {
        let (z, s) = (zone.clone(), sh.clone());
        hs.push(std::thread::spawn(move || writer_thread(z, s, i, seed * 1000 + 500 + i, n_sessions)));
    }
    for h in hs {
        h.join().expect("thread");
    }
    vt::enable(false);

    // merge library events and harness events by sequence number
    let mut all: Vec<(u64, Value)> = sh.log.lock().unwrap().clone();
    for e in vt::take() {
        let who = if e.tag >= 200 { format!("w{}", e.tag - 200) } else { format!("r{}", e.tag - 100) };
        let v = match e.kind {
            "ReaderAcquire" => json!({"a": "ReaderAcquire", "r": who, "v": e.a}),
            "CommitUpdateCurrent" => json!({"a": "CommitUpdateCurrent", "w": who, "v": e.a}),
            "CommitPushVersion" => json!({"a": "CommitPushVersion", "w": who, "v": e.a}),
            "DropWriter" => json!({"a": "DropWriter", "w": who, "v": e.a, "dirty": e.b}),
            k => json!({"a": k, "who": who}),
        };
        all.push((e.seq, v));
    }
    all.sort_by_key(|x| x.0);
    let mut tw = TraceWriter::create(&path);
    for r in &zf[1..] {
        tw.event(json!({"a": "ZfInsert", "n": r[0], "t": r[1], "x": r[2]}));
    }
    tw.event(json!({"a": "Build"}));
    let mut commits = 0;
    let bumps = sh.bumps.lock().unwrap().clone();
    for (_, mut v) in all {
        if v["a"] == "CommitUpdateCurrent" {
            v["bump"] = json!(bumps.get(commits).copied().unwrap_or(false));
            commits += 1;
        }
        tw.event(v);
    }
    let n = tw.finish();
    println!("{{\"events\":{},\"commits\":{}}}", n, commits);
}
