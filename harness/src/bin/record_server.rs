//! I->S recorder for C16: hostile input into the real stream and datagram
//! servers (middleware stack Mandatory(Edns(Cookies(echo service)))); the
//! echo service assembles its answer by a builder route / recipe / layout
//! that follows from the request id (Server.tla part 1c), requests carry
//! COOKIE options of every kind (part 1b).
//!
//! Random / mutated request octets, random frame fragmentation, several
//! connections interleaved, peers that vanish mid-frame.  One event per
//! stimulus with everything the peer can see afterwards: the new response
//! frames (id, rcode, well-formed?), left-over octets that are not a whole
//! frame, whether the server closed the connection, and whether the server
//! tasks are still alive (no panic anywhere).  Validated by Trace_Server.tla.
//!
//! usage: record_server <out.ndjson> <seed> <max-events>
#[path = "../server.rs"]
mod server;

use std::net::SocketAddr;
use std::sync::Arc;

use domain::net::server::buf::VecBufSource;
use domain::net::server::dgram::DgramServer;
use domain::net::server::stream::{self, StreamServer};
use serde_json::{json, Value};
use server::*;
use verif_harness::common::*;

/// One request body: valid, mutated, random, short, reply ...
fn body(rng: &mut Rng, ip: std::net::IpAddr) -> Vec<u8> {
    let id = rng.next() as u16;
    let qlen = 5 + [0usize, 4, 12, 40, 250][rng.below(5) as usize];
    let edns = match rng.below(4) {
        0 => None,
        1 => Some(0),
        2 => Some(1232),
        _ => Some(rng.next() as u16),
    };
    let mut b = if rng.chance(1, 4) {
        // a COOKIE option of any kind: client cookie only, any length
        // (RFC 7873 5.2.2 forbids most), a server cookie in the standard
        // layout with a timestamp anywhere on the serial-number circle
        // (around the clock, around the far side of it, anywhere) and a
        // right or a wrong hash, a server cookie in some other layout
        let d: u32 = match rng.below(6) {
            0 => rng.below(7300) as u32,
            1 => 0u32.wrapping_sub(rng.below(7300) as u32),
            2 => (1u32 << 31).wrapping_add(rng.below(7300) as u32),
            3 => (1u32 << 31).wrapping_sub(rng.below(7300) as u32),
            _ => rng.next() as u32,
        };
        let ck = match rng.below(8) {
            0 => json!({"form": "client"}),
            1 => json!({"form": "len", "n": rng.below(48)}),
            2 => json!({"form": "nonstd"}),
            k => json!({"form": "std", "hash": if k % 2 == 0 { "ok" } else { "bad" },
                        "d": [d >> 16, d & 0xffff]}),
        };
        let mut options = vec![];
        if rng.chance(1, 4) {
            options.push((12u16, vec![0u8; rng.below(20) as usize])); // padding first
        }
        options.push((10u16, cookie_data(&ck, ip, &SECRET).unwrap_or_default()));
        mk_query_raw(&RawReq {
            id,
            qlen,
            qd: if rng.chance(1, 5) { 0 } else { 1 },
            opcode: 0,
            qr: false,
            opts: vec![(edns.unwrap_or(1232), 0, options)],
        })
    } else {
        mk_query(id, qlen, edns, false)
    };
    match rng.below(20) {
        0..=7 => {}
        8 | 9 => b[2] |= 0x80, // a reply
        10 | 11 => {
            // flip a few octets anywhere
            for _ in 0..1 + rng.below(4) {
                let i = rng.below(b.len() as u64) as usize;
                b[i] = rng.next() as u8;
            }
        }
        12 => {
            // counts that promise more than there is
            let i = 4 + rng.below(8) as usize;
            b[i] = rng.next() as u8;
        }
        13 => {
            // cut somewhere behind the header
            let n = 12 + rng.below((b.len() - 12) as u64) as usize;
            b.truncate(n);
        }
        14 => {
            let n = rng.below(12) as usize; // shorter than a header
            b = rng.bytes(n)
        }
        15 | 16 => {
            let n = 12 + rng.below(50) as usize;
            b = rng.bytes(n)
        }
        _ => {
            // opcode / flags noise with an intact question
            b[2] = rng.next() as u8 & 0x7f;
            b[3] = rng.next() as u8;
        }
    }
    b
}

fn frames_json(frames: &[Vec<u8>]) -> Vec<Value> {
    frames
        .iter()
        .map(|f| {
            let d = describe(f);
            let good = d["parses"] == json!(true) && d["qr"] == json!(true);
            json!([d["id"].as_u64().unwrap_or(70000), d["rcode"].as_u64().unwrap_or(99), good])
        })
        .collect()
}

struct Conn {
    c: u64,
    io: IoHandle,
    pending: Vec<u8>,
    seen: usize,
}

fn main() {
    count_panics();
    let args: Vec<String> = std::env::args().collect();
    let mut w = TraceWriter::create(&args[1]);
    let mut rng = Rng::new(args[2].parse().unwrap_or(1));
    let max: u64 = args[3].parse().unwrap_or(600);
    let rt = tokio::runtime::Builder::new_current_thread()
        .enable_time()
        .start_paused(true)
        .build()
        .unwrap();
    let n = rt.block_on(async move {
        let listener = MockListener::default();
        // at most 3 peers are connected at any time, so a limit of 3 must
        // never refuse anybody -- whatever happened to earlier connections
        let mut cfg = stream::Config::new();
        cfg.set_max_concurrent_connections(3);
        let srv = Arc::new(StreamServer::with_config(
            listener.clone(),
            VecBufSource,
            Arc::new(stack(ScriptSvc::<Vec<u8>>::echo_varied())),
            cfg,
        ));
        let srv_task = {
            let s = srv.clone();
            tokio::spawn(async move { s.run().await })
        };
        let sock = MockDgram::default();
        let dsrv = Arc::new(DgramServer::new(
            sock.clone(),
            VecBufSource,
            Arc::new(stack(ScriptSvc::<Vec<u8>>::echo_varied())),
        ));
        let dsrv_task = {
            let s = dsrv.clone();
            tokio::spawn(async move { s.run().await })
        };
        settle().await;
        let from: SocketAddr = "192.0.2.7:4444".parse().unwrap();
        let mut conns: Vec<Conn> = vec![];
        let mut next_c = 0u64;
        let mut dg_seen = 0usize;
        while w.n < max {
            let alive_now = |_: ()| panics() == 0 && !srv_task.is_finished() && !dsrv_task.is_finished();
            let pick = rng.below(10);
            if conns.is_empty() || (pick == 0 && conns.len() < 3) {
                next_c += 1;
                // a transport that takes writes in pieces of 1, 2, 3 or 64
                // octets, or whole
                let chunk = [1usize, 2, 3, 64, 0][rng.below(5) as usize];
                let (io, h) = mock_io_chunked(None, chunk);
                let addr: SocketAddr = format!("192.0.2.1:{}", 1000 + next_c).parse().unwrap();
                if rng.chance(1, 5) {
                    // connection setup (handshake) fails: no connection
                    listener.connect_with(io, addr, false);
                    settle().await;
                    w.event(json!({"ev": "openfail", "c": next_c, "cl": h.is_closed(),
                                   "alive": alive_now(())}));
                    continue;
                }
                listener.connect(io, addr);
                // what this peer is going to send: a train of bodies, framed
                let mut stream = vec![];
                let train = if rng.chance(1, 6) { 12 + rng.below(10) } else { 1 + rng.below(10) };
                for _ in 0..train {
                    let b = body(&mut rng, addr.ip());
                    if rng.chance(1, 25) {
                        // a length prefix that promises more than will come
                        stream.extend_from_slice(&((b.len() + 200) as u16).to_be_bytes());
                        stream.extend_from_slice(&b);
                    } else {
                        stream.extend_from_slice(&frame(&b));
                    }
                }
                conns.push(Conn { c: next_c, io: h, pending: stream, seen: 0 });
                settle().await;
                w.event(json!({"ev": "open", "c": next_c, "chunk": chunk, "cl": conns[conns.len() - 1].io.is_closed(),
                               "alive": alive_now(())}));
                continue;
            }
            if pick == 9 && rng.chance(1, 3) {
                // accept() itself fails; the listener stays healthy
                listener.accept_error();
                settle().await;
                w.event(json!({"ev": "accepterr", "alive": alive_now(())}));
                continue;
            }
            if pick <= 2 {
                // a datagram
                let mut b = body(&mut rng, from.ip());
                if rng.chance(1, 12) {
                    let n = 900 + rng.below(300) as usize;
                    b = rng.bytes(n);
                }
                if rng.chance(1, 6) {
                    // false-positive readiness before the datagram arrives
                    sock.spurious_readable();
                    settle().await;
                }
                sock.deliver(&b, from);
                settle().await;
                let sent = sock.sent();
                let new: Vec<Vec<u8>> = sent[dg_seen..].iter().map(|x| x.0.clone()).collect();
                let dest_ok = sent[dg_seen..].iter().all(|x| x.1 == from);
                dg_seen = sent.len();
                w.event(json!({"ev": "dgram", "data": json_bytes(&b[..b.len().min(1024)]),
                               "w": frames_json(&new), "dest_ok": dest_ok,
                               "alive": alive_now(())}));
                continue;
            }
            let i = rng.below(conns.len() as u64) as usize;
            let done = conns[i].pending.is_empty();
            let abort = done || rng.chance(1, 30);
            let ev;
            let mut data = vec![];
            if abort {
                conns[i].io.abort();
                ev = "abort";
            } else {
                let n = match rng.below(6) {
                    0 => 1 + rng.below(3),
                    1 | 2 => 1 + rng.below(40),
                    3 | 4 => 1 + rng.below(400),
                    _ => 1 + rng.below(3000),
                } as usize;
                let n = n.min(conns[i].pending.len());
                data = conns[i].pending.drain(..n).collect();
                conns[i].io.push(&data);
                ev = "chunk";
            }
            settle().await;
            let (frames, left) = deframe(&conns[i].io.written());
            let new = frames[conns[i].seen..].to_vec();
            conns[i].seen = frames.len();
            w.event(json!({"ev": ev, "c": conns[i].c, "data": json_bytes(&data),
                           "w": frames_json(&new), "left": left,
                           "cl": conns[i].io.is_closed(), "alive": alive_now(())}));
            if abort {
                conns.remove(i);
            }
        }
        w.finish()
    });
    println!("events {}", n);
}
