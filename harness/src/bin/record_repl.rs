//! I->S recorder for X08: the fully real stack on both sides.
//!
//! A real zone with random content (universe of 32 records) goes through
//! 2-4 committed changes; it is served by the real
//! `TsigMiddlewareSvc(ReserveSvc(XfrMiddlewareSvc(zone + diffs)))`.  A real
//! secondary (tsig::Connection over the in-memory transport, interpreter,
//! updater) requests AXFR or IXFR from an earlier version with a good / wrong
//! / unknown / no key; 0-2 random adversary actions are applied to the real
//! response octets.  One event per transfer: the stream the primary really
//! sent (abstracted), the adversary's actions, and the secondary's verdict,
//! status and visible zone after every get_response().
//!
//! usage: record_repl <trace.ndjson> <seed> <rounds>
#[path = "../repl.rs"]
mod repl;

use bytes::Bytes;
use domain::base::iana::Class;
use domain::base::{Message, ParsedName, Record, Ttl};
use domain::rdata::ZoneRecordData;
use domain::zonetree::types::ZoneUpdate;
use domain::zonetree::update::ZoneUpdater;
use domain::zonetree::{InMemoryZoneDiff, StoredName};
use repl::xfr::*;
use repl::*;
use serde_json::{json, Value};
use std::collections::BTreeSet;
use std::sync::{Arc, Mutex};
use verif_harness::common::*;

fn abstract_msg(w: &[u8]) -> Value {
    let m = Message::from_octets(Bytes::copy_from_slice(w)).unwrap();
    let h = m.header();
    let c = m.header_counts();
    let mut qd = vec![];
    for q in m.question().flatten() {
        let wrong = if q.qname() == &apex() { 0 } else { 1 };
        qd.push(json!([wrong, q.qtype().to_int()]));
    }
    let mut an = vec![];
    if let Ok(sec) = m.answer() {
        for r in sec.limit_to::<ZoneRecordData<Bytes, ParsedName<Bytes>>>() {
            match r {
                Ok(r) => an.push(parsed_id(&r, MAX_N)),
                Err(_) => an.push(-1),
            }
        }
    }
    json!({"id": if h.id() == REQ_ID {1} else {0}, "qr": h.qr() as u8, "op": h.opcode().to_int(),
           "rc": h.rcode().to_int(), "tc": h.tc() as u8, "qd": qd, "qdc": c.qdcount(),
           "an": an, "anc": c.ancount(), "nsc": c.nscount()})
}

fn rec(id: i64) -> Record<StoredName, StoredData> {
    Record::new(owner_of(id), Class::IN, Ttl::from_secs(TTL), data_of(id))
}

fn ancount(w: &[u8]) -> usize {
    u16::from_be_bytes([w[6], w[7]]) as usize
}

/// picks an adversary action that is applicable to the stream as it stands
fn pick_fault(rng: &mut Rng, wire: &[Wire]) -> Option<Value> {
    let n = wire.len();
    if n == 0 {
        return None;
    }
    for _ in 0..20 {
        let i = 1 + rng.below(n as u64) as usize;
        let w = &wire[i - 1].w;
        let signed = tsig_off(w).is_some();
        let f = match rng.below(10) {
            0 => json!({"k": "drop", "i": i, "j": 0}),
            1 => json!({"k": "dup", "i": i, "j": 0}),
            2 if i < n => json!({"k": "swap", "i": i, "j": 0}),
            3 if ancount(w) >= 2 => json!({"k": "truncrec", "i": i, "j": 0}),
            4 if ancount(w) >= 1 => json!({"k": "fliprec", "i": i, "j": 1 + rng.below(ancount(w) as u64)}),
            5 if signed => json!({"k": "flipmac", "i": i, "j": 0}),
            6 if signed => json!({"k": "strip", "i": i, "j": 0}),
            7 if signed => json!({"k": "rekey", "i": i, "j": 0}),
            8 if i >= 2 => json!({"k": "forge", "i": i, "j": 0}),
            9 => json!({"k": "cut", "i": i - 1, "j": rng.below(2)}),
            _ => continue,
        };
        return Some(f);
    }
    None
}

fn main() {
    let args: Vec<String> = std::env::args().collect();
    let path = args.get(1).cloned().unwrap_or_else(|| "trace.ndjson".into());
    let seed: u64 = args.get(2).and_then(|s| s.parse().ok()).unwrap_or_else(seed);
    let rounds: usize = args.get(3).and_then(|s| s.parse().ok()).unwrap_or(3);
    let mut rng = Rng::new(seed);
    let mut tw = TraceWriter::create(&path);
    let rt = tokio::runtime::Builder::new_multi_thread().worker_threads(2).enable_all().build().unwrap();
    let universe: Vec<i64> = (1..=4 * (MAX_N + 1)).collect();
    for round in 0..rounds {
        // every second round the history straddles the 2^32 wrap
        let wrap_at: u32 = if round % 2 == 1 { 2 + rng.below(2) as u32 } else { 0 };
        SERIAL_BASE.store(0u32.wrapping_sub(wrap_at), std::sync::atomic::Ordering::SeqCst);
        let mut cur: BTreeSet<i64> = universe.iter().cloned().filter(|_| rng.chance(1, 2)).collect();
        let zone = build_zone(1, &cur.iter().cloned().collect::<Vec<_>>());
        let mut versions: Vec<(i64, Vec<i64>)> = vec![(1, cur.iter().cloned().collect())];
        let mut diffs: Vec<Arc<InMemoryZoneDiff>> = vec![];
        let ncommits = 2 + rng.below(3) as i64;
        for k in 0..ncommits {
            let serial = 2 + k;
            let mut toggles: BTreeSet<i64> = BTreeSet::new();
            for _ in 0..(1 + rng.below(6)) {
                toggles.insert(*rng.pick(&universe));
            }
            let diff = rt.block_on(async {
                let mut up: ZoneUpdater<StoredName> = ZoneUpdater::new(zone.clone()).await.unwrap();
                for id in &toggles {
                    if cur.contains(id) {
                        up.apply(ZoneUpdate::DeleteRecord(rec(*id))).await.unwrap();
                    } else {
                        up.apply(ZoneUpdate::AddRecord(rec(*id))).await.unwrap();
                    }
                }
                up.apply(ZoneUpdate::Finished(rec(SOA_BASE + serial))).await.unwrap()
            });
            for id in &toggles {
                if !cur.remove(id) {
                    cur.insert(*id);
                }
            }
            versions.push((serial, cur.iter().cloned().collect()));
            if let Some(d) = diff {
                diffs.push(Arc::new(d));
            }
        }
        let latest = versions.last().unwrap().0;
        let hist: Vec<Value> = versions.iter().map(|(s, r)| json!({"s": s, "c": r})).collect();
        // transfers: AXFR and IXFR from every earlier version, a few times each
        let mut plans: Vec<(u16, i64)> = vec![(252, 1), (252, 1)];
        for s in 1..latest {
            plans.push((251, s));
            plans.push((251, s));
        }
        for (kind, from) in plans {
            let key = match rng.below(8) {
                0 => "wrongsecret",
                1 => "unknown",
                2 => "none",
                _ => "good",
            };
            let reserve: u16 = *rng.pick(&[0u16, 65535 - 330, 65535 - 420, 65535 - 700]);
            let with_diffs = kind == 251 && !rng.chance(1, 5);
            let (olds, oldc): (i64, Vec<i64>) = if kind == 251 {
                versions[(from - 1) as usize].clone()
            } else {
                (1, universe.iter().cloned().filter(|_| rng.chance(1, 3)).collect())
            };
            let provider = ZoneWithDiffs {
                zone: zone.clone(),
                diffs: if with_diffs || kind == 252 { diffs.clone() } else { vec![] },
            };
            // a record the current version does not hold (nor its sibling value)
            let forge = universe.iter().cloned()
                .find(|r| !cur.contains(r) && !cur.contains(&(if r % 2 == 1 { r + 1 } else { r - 1 })))
                .unwrap_or(1);
            let nfaults = if key == "good" { rng.below(3) } else { 0 };
            let ev = rt.block_on(async {
                let zone2 = build_zone(olds, &oldc);
                let sh: Sh = Arc::new(Mutex::new(Net::default()));
                let mut sec = Secondary::new(zone2, key, REQ_ID, kind, from as u32, sh.clone()).await;
                if !first_poll(&mut sec).await {
                    return json!({"ev": "harness", "why": "request not pending"});
                }
                let req = sh.lock().unwrap().req.take().unwrap();
                let resps = match serve_real(&req, provider, reserve).await {
                    Ok(r) => r,
                    Err(e) => return json!({"ev": "harness", "why": e}),
                };
                let serve = serve_obs(&resps);
                let sent: Vec<Value> = resps.iter().map(|w| abstract_msg(w)).collect();
                let sizes: Vec<usize> = resps.iter().map(|w| w.len()).collect();
                let mut wire: Vec<Wire> = resps.into_iter().map(|w| Wire { w, rep: 1 }).collect();
                let forged = |_f: &Value| -> Vec<u8> {
                    forged_message(REQ_ID, &json!({"qr": 1, "rc": 0, "tc": 0, "qd": [],
                                                   "an": [forge, SOA_BASE + latest]}))
                };
                let mut faults = vec![];
                let mut eos = "end".to_string();
                for _ in 0..nfaults {
                    if eos != "end" {
                        break;
                    }
                    if let Some(f) = pick_fault(&mut rng, &wire) {
                        match apply_faults(&mut wire, &[], &[f.clone()], &forged) {
                            Ok(e) => eos = e,
                            Err(e) => return json!({"ev": "harness", "why": e}),
                        }
                        faults.push(f);
                    }
                }
                {
                    let mut g = sh.lock().unwrap();
                    for w in &wire {
                        g.q.push_back(Item::Msg(w.w.clone()));
                    }
                    g.q.push_back(if eos == "end" { Item::End } else { Item::Abort });
                }
                let mut steps = vec![];
                for k in 0..wire.len() {
                    if let Some(v) = sec.step_upto(&sh, k + 1).await {
                        steps.push(sec.obs("deliver", &v));
                    }
                }
                if let Some(v) = sec.step_upto(&sh, wire.len() + 1).await {
                    steps.push(sec.obs("eos", &v));
                }
                json!({"ev": "xfer", "round": round, "hist": hist, "kind": kind, "from": from,
                       "diffs": with_diffs, "key": key, "reserve": reserve, "olds": olds, "oldc": oldc,
                       "serve": serve, "sent": sent, "sizes": sizes, "faults": faults, "eos": eos,
                       "forge": forge, "steps": steps,
                       "final": {"st": sec.st, "why": sec.why, "pub": view_of(&sec.zone)}})
            });
            tw.event(ev);
        }
    }
    let n = tw.finish();
    println!("events {}", n);
}
