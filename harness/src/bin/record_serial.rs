//! I->S recorder for property C17: drives the real library on dense 32-bit
//! operands, one ndjson event per public call, operands as two 16-bit limbs.
//! usage: record_serial <out.ndjson> <seed> <max-events> [--pairs <file>]
//!
//! With `--pairs <file>` (lines "cmp <a> <b>" / "add <a> <n>" / "bump <a> 0" /
//! "place <ts> <r> <era>" / "text <era> <v>" / "instant <era+4> <v>" /
//! "window <x> <lo> <hi>" / "fresh <ts> <now>", decimal u32)
//! the given calls are performed and recorded instead of generated ones: used
//! to put sweep disagreements before TLC and to re-confirm a rejected event
//! in isolation.
#[path = "../serial_ref.rs"]
mod serial_ref;

use domain::base::Serial;
use serde_json::json;
use serial_ref::*;
use verif_harness::common::*;

const H: u32 = 0x8000_0000;

fn boundary(rng: &mut Rng) -> u32 {
    let b = [
        0u32, 1, 2, 3, 0xFFFF, 0x1_0000, 0x1_0001, H - 2, H - 1, H, H + 1, H + 2,
        0xFFFF_0000, 0xFFFF_FFFD, 0xFFFF_FFFE, 0xFFFF_FFFF, 0x7FFF_0000, 0x8000_FFFF,
    ];
    *rng.pick(&b)
}

fn any(rng: &mut Rng) -> u32 {
    rng.next() as u32
}

fn set_ev(w: &mut TraceWriter, v: u32) {
    w.event(json!({"ev": "set", "v": limbs(v)}));
}

fn cmp_ev(w: &mut TraceWriter, rt: &tokio::runtime::Runtime, cur: u32, b: u32) {
    // the XFR middleware's answer to an IXFR request of a client at serial
    // cur when the zone is at serial b: "single" SOA or a "transfer"
    let ixfr = std::panic::catch_unwind(std::panic::AssertUnwindSafe(|| {
        ixfr_decision(rt, cur, b)
    }))
    .unwrap_or_else(|_| "panic".to_string());
    let ixfr_nodiffs = std::panic::catch_unwind(std::panic::AssertUnwindSafe(|| {
        ixfr_decision_with(rt, cur, b, false)
    }))
    .unwrap_or_else(|_| "panic".to_string());
    w.event(json!({"ev": "cmp", "b": limbs(b), "ixfr": ixfr, "ixfrnodiffs": ixfr_nodiffs,
        "serial": lib_cmp(cur, b), "rev": lib_cmp(b, cur),
        "timestamp": lib_ts_cmp(cur, b), "newserial": lib_new_cmp(cur, b),
        "newts": lib_newts_cmp(cur, b), "newtsrev": lib_newts_cmp(b, cur),
        "ref": ref_cmp(32, cur as u64, b as u64)}));
}

/// the zone store bumps the SOA serial of a zone whose serial is `cur`
fn bump_ev(w: &mut TraceWriter, rt: &tokio::runtime::Runtime, cur: u32) -> u32 {
    let obs = std::panic::catch_unwind(std::panic::AssertUnwindSafe(|| {
        zone_commit_bump(rt, cur)
    }));
    let (res, diff_ok, grew, next) = match obs {
        Ok(Ok((new, diff))) => (
            json!({"ok": limbs(new)}),
            // the diff of the commit goes from the old to the new serial
            diff == Some((cur, new)),
            Serial(cur) < Serial(new),
            new,
        ),
        Ok(Err(e)) => (json!({"error": e}), false, false, cur),
        Err(_) => (json!({"panic": true}), false, false, cur),
    };
    w.event(json!({"ev": "zonebump", "serial": res, "diff_matches": diff_ok, "grew": grew}));
    next
}

/// Timestamp::to_system_time for the serial `cur` and the reference time
/// era * 2^32 + r
fn place_ev(w: &mut TraceWriter, cur: u32, era: u32, r: u32) {
    let t = match lib_place(cur, ((era as u64) << 32) + r as u64) {
        Some(t) => json!({"era": t >> 32, "v": limbs(t as u32)}),
        None => json!({"era": -1, "v": [0, 0]}),
    };
    let nt = match lib_newts_place(cur, ((era as u64) << 32) + r as u64) {
        Some(t) => json!({"era": t >> 32, "v": limbs(t as u32)}),
        None => json!({"era": -1, "v": [0, 0]}),
    };
    w.event(json!({"ev": "place", "era": era, "r": limbs(r), "t": t, "nt": nt}));
}

/// A signature time era * 2^32 + v is written as a real date and as an
/// integer and read through FromStr, Timestamp::scan and the zone-file reader
/// (all entry points must agree); the machine's serial becomes what was read.
fn text_ev(w: &mut TraceWriter, era: u32, v: u32) -> Option<u32> {
    let t = ((era as u64) << 32) + v as u64;
    let got = std::panic::catch_unwind(|| text_entry_points(t, t));
    let (res, next) = match got {
        Ok(Ok((a, _))) => (json!({"ok": limbs(a)}), Some(a)),
        Ok(Err(e)) => (json!({"err": e}), None),
        Err(_) => (json!({"panic": true}), None),
    };
    w.event(json!({"ev": "text", "era": era, "v": limbs(v), "date": civil(t), "got": res}));
    next
}

/// The instant era * 2^32 + v (era may be negative: before the epoch) is
/// handed to the library as a jiff::Timestamp and converted into a serial;
/// the machine's serial becomes the result.
fn instant_ev(w: &mut TraceWriter, era: i64, v: u32) -> Option<u32> {
    let t = (era << 32) + v as i64;
    let got = std::panic::catch_unwind(|| lib_instant(t));
    let (res, next) = match got {
        Ok(Ok(a)) => (json!({"ok": limbs(a)}), Some(a)),
        Ok(Err(e)) => (json!({"err": e}), None),
        Err(_) => (json!({"panic": true}), None),
    };
    w.event(json!({"ev": "instant", "era": era, "v": limbs(v), "got": res}));
    next
}

/// A verifier with the validity window [lo, hi) is shown the timestamp cur.
fn window_ev(w: &mut TraceWriter, cur: u32, lo: u32, hi: u32) {
    let mut ev = window_sites(lo, hi, cur);
    ev["ev"] = json!("window");
    ev["lo"] = json!(limbs(lo));
    ev["hi"] = json!(limbs(hi));
    w.event(ev);
}

/// The server cookies middleware (clock set to `now`) is shown a correctly
/// hashed server cookie whose timestamp is cur.
fn fresh_ev(w: &mut TraceWriter, rig: &mut FreshRig, cur: u32, now: u32) {
    let mut ev = std::panic::catch_unwind(std::panic::AssertUnwindSafe(|| rig.sites(now, cur)))
        .unwrap_or_else(|_| json!({"mwprefetch": "panic", "mwdenied": "panic", "optcookie": "panic"}));
    ev["ev"] = json!("fresh");
    ev["now"] = json!(limbs(now));
    w.event(ev);
}

fn add_ev(w: &mut TraceWriter, cur: u32, n: u32) -> Option<u32> {
    let lib = lib_add(cur, n);
    let res = |r: Option<u32>| match r {
        Some(v) => json!({"ok": limbs(v)}),
        None => json!({"panic": true}),
    };
    let refr = ref_add(32, cur as u64, n as u64).map(|v| v as u32);
    let grew = match lib {
        Some(v) => Serial(cur) < Serial(v),
        None => false,
    };
    w.event(json!({"ev": "add", "n": limbs(n), "serial": res(lib),
                   "ref": res(refr), "grew": grew}));
    lib
}

fn main() {
    if std::env::var("VERIF_LOUD").is_err() {
        quiet_panics(); // VERIF_LOUD=1 shows panic messages when debugging the recorder
    }
    let args: Vec<String> = std::env::args().collect();
    let mut w = TraceWriter::create(&args[1]);
    let mut rng = Rng::new(args[2].parse().unwrap_or(1));
    let max: u64 = args[3].parse().unwrap_or(20000);
    let rt = tokio::runtime::Builder::new_current_thread().enable_all().build().expect("runtime");
    let mut rig = FreshRig::new();
    if !rig.selftest() {
        eprintln!("clock interposition or hash self-test failed");
        std::process::exit(2);
    }
    if let Some(p) = arg_value("--pairs") {
        let text = std::fs::read_to_string(p).expect("pairs file");
        for line in text.lines() {
            let mut it = line.split_whitespace();
            let kind = it.next().unwrap_or("");
            let mut nums = it.filter_map(|x| x.parse::<u32>().ok());
            if let (Some(a), Some(b)) = (nums.next(), nums.next()) {
                set_ev(&mut w, a);
                match kind {
                    "cmp" => cmp_ev(&mut w, &rt, a, b),
                    "add" => {
                        add_ev(&mut w, a, b);
                    }
                    "bump" => {
                        bump_ev(&mut w, &rt, a);
                    }
                    // "text <era> <v>"
                    "text" => {
                        text_ev(&mut w, a, b);
                    }
                    // "instant <era + 4> <v>"
                    "instant" => {
                        instant_ev(&mut w, a as i64 - 4, b);
                    }
                    // "window <x> <lo> <hi>"
                    "window" => window_ev(&mut w, a, b, nums.next().unwrap_or(0)),
                    // "fresh <ts> <now>"
                    "fresh" => fresh_ev(&mut w, &mut rig, a, b),
                    // "place <ts> <r> <era>"
                    "place" => place_ev(&mut w, a, nums.next().unwrap_or(0), b),
                    _ => {}
                }
            }
        }
        println!("events {}", w.finish());
        return;
    }
    let mut cur: u32 = 0;
    while w.n < max {
        // now and then: the zone store bumps the SOA serial of a zone whose
        // serial is cur (commit with bump_soa_serial), an addition of 1
        if rng.chance(1, 40) {
            if rng.chance(1, 2) {
                cur = *rng.pick(&[0xFFFF_FFFFu32, 0xFFFF_FFFE, 0x7FFF_FFFF, 0x7FFF_FFFE,
                                  0x8000_0000, 0, 0xFFFF, 0x1_FFFF]);
                set_ev(&mut w, cur);
            }
            cur = bump_ev(&mut w, &rt, cur);
            continue;
        }
        // a signature time placed next to a reference time in era 0, 1 or 2,
        // on both sides of the half-cycle point and of the era boundaries
        if rng.chance(1, 8) {
            let era = rng.below(3) as u32;
            let small = rng.below(5) as u32;
            let r = match rng.below(8) {
                0 => *rng.pick(&[0u32, 1, H - 1, H, H + 1, 0xFFFF_FFFF, 0xFFFF_FFFE]),
                1 => cur.wrapping_add(H).wrapping_add(small).wrapping_sub(2),
                2 => cur.wrapping_add(small).wrapping_sub(2),
                3 => cur.wrapping_add(rng.below(1 << 20) as u32),
                4 => cur.wrapping_sub(rng.below(1 << 20) as u32),
                5 => cur.wrapping_add(H).wrapping_add(rng.below(1 << 17) as u32)
                    .wrapping_sub(1 << 16),
                6 => boundary(&mut rng),
                _ => any(&mut rng),
            };
            place_ev(&mut w, cur, era, r);
            continue;
        }
        // a signature time read from text (date form and integer form), in
        // era 0, 1 or 2; later comparisons use what was read
        if rng.chance(1, 12) {
            let era = rng.below(3) as u32;
            let v = match rng.below(4) {
                0 => *rng.pick(&[0u32, 1, H - 1, H, H + 1, 0xFFFF_FFFF, 0xFFFF_FFFE]),
                1 => boundary(&mut rng),
                _ => any(&mut rng),
            };
            if let Some(x) = text_ev(&mut w, era, v) {
                cur = x;
            }
            continue;
        }
        // a serial made from a clock value, two eras before the epoch to two
        // eras after it, dense around the epoch and the era boundaries
        if rng.chance(1, 14) {
            let era = rng.below(5) as i64 - 2;
            let v = match rng.below(4) {
                0 => *rng.pick(&[0u32, 1, 2, H - 1, H, H + 1, 0xFFFF_FFFF, 0xFFFF_FFFE]),
                1 => 0u32.wrapping_sub(rng.below(100_000) as u32),
                2 => rng.below(100_000) as u32,
                _ => any(&mut rng),
            };
            if let Some(x) = instant_ev(&mut w, era, v) {
                cur = x;
            }
            continue;
        }
        // the serial as a cookie timestamp shown to the server cookies
        // middleware whose clock is near it (inside, at and just beyond either
        // end of the one hour / five minutes window), half a cycle away, or
        // anywhere -- wherever cur lies, also with clock and timestamp on
        // different sides of the wrap-around
        if rng.chance(1, 10) {
            if rng.chance(1, 5) {
                cur = 0u32.wrapping_add(rng.below(8000) as u32).wrapping_sub(4000);
                set_ev(&mut w, cur);
            }
            let small = rng.below(5) as u32;
            let age: u32 = match rng.below(9) {
                0 => small.wrapping_sub(2),
                1 => PAST.wrapping_add(small).wrapping_sub(2),
                2 => 0u32.wrapping_sub(FUTURE).wrapping_add(small).wrapping_sub(2),
                3 => rng.below(PAST as u64 + 1) as u32,
                4 => 0u32.wrapping_sub(rng.below(FUTURE as u64 + 1) as u32),
                5 => H.wrapping_add(small).wrapping_sub(2),
                6 => H.wrapping_add(rng.below(1 << 14) as u32).wrapping_sub(1 << 13),
                7 => H.wrapping_add(rng.below(H as u64) as u32), // cur is numerically above now or wraps
                _ => any(&mut rng),
            };
            fresh_ev(&mut w, &mut rig, cur, cur.wrapping_add(age));
            continue;
        }
        // the serial as a timestamp shown to a verifier: a window of "back"
        // seconds before and "fwd" seconds after a clock value near cur
        // (inside, at and just beyond either end), wherever cur lies --
        // also with the window across the wrap-around; now and then an
        // arbitrary (possibly ill-formed) window
        if rng.chance(1, 9) {
            if rng.chance(1, 6) {
                // put the timestamp next to the wrap so that windows straddle it
                cur = 0u32.wrapping_add(rng.below(8000) as u32).wrapping_sub(4000);
                set_ev(&mut w, cur);
            }
            let (back, fwd) = match rng.below(4) {
                0 => (3600u32, 300u32),
                1 => (rng.below(1 << 16) as u32, rng.below(1 << 12) as u32),
                2 => (rng.below(1 << 30) as u32, rng.below(1 << 30) as u32),
                _ => (rng.below(3) as u32, rng.below(3) as u32),
            };
            // the verifier's clock relative to the timestamp: age -2 .. back+2,
            // or around the future end, or anywhere
            let age: u32 = match rng.below(6) {
                0 => rng.below(5) as u32,
                1 => back.wrapping_add(rng.below(5) as u32).wrapping_sub(2),
                2 => 0u32.wrapping_sub(fwd).wrapping_add(rng.below(5) as u32).wrapping_sub(2),
                3 => rng.below(back as u64 + 1) as u32,
                4 => H.wrapping_add(rng.below(5) as u32).wrapping_sub(2),
                _ => any(&mut rng),
            };
            let now = cur.wrapping_add(age);
            let (lo, hi) = if rng.chance(1, 10) {
                (any(&mut rng), any(&mut rng))
            } else {
                (now.wrapping_sub(back), now.wrapping_add(fwd))
            };
            window_ev(&mut w, cur, lo, hi);
            continue;
        }
        match rng.below(10) {
            0 => {
                cur = if rng.chance(1, 2) { boundary(&mut rng) } else { any(&mut rng) };
                set_ev(&mut w, cur);
            }
            1..=5 => {
                // comparison partner: around the undefined distance, around
                // cur, around 0 / 2^32-1, anywhere
                let small = rng.below(5) as u32; // 0..4 -> -2..2
                let b = match rng.below(8) {
                    0 => cur.wrapping_add(H).wrapping_add(small).wrapping_sub(2),
                    1 => cur.wrapping_sub(H).wrapping_add(small).wrapping_sub(2),
                    2 => cur.wrapping_add(small).wrapping_sub(2),
                    3 => boundary(&mut rng),
                    4 => cur.wrapping_add(rng.below(1 << 16) as u32),
                    5 => cur.wrapping_sub(rng.below(1 << 16) as u32),
                    6 => cur.wrapping_add(H).wrapping_add(rng.below(1 << 17) as u32)
                        .wrapping_sub(1 << 16),
                    _ => any(&mut rng),
                };
                cmp_ev(&mut w, &rt, cur, b);
            }
            _ => {
                let n = match rng.below(8) {
                    0 => *rng.pick(&[0u32, 1, 2, H - 2, H - 1]),
                    1 => *rng.pick(&[H, H + 1, 0xFFFF_FFFF, 0xFFFF_0000, H + 0xFFFF]),
                    2 => any(&mut rng),                         // half of these panic
                    3 => rng.below(1 << 16) as u32,
                    4 => (H - 1) - rng.below(1 << 16) as u32,
                    5 => 0u32.wrapping_sub(cur).wrapping_add(rng.below(5) as u32)
                        .wrapping_sub(2),                       // land next to 0
                    _ => any(&mut rng) >> 1,                    // always legal
                };
                if let Some(v) = add_ev(&mut w, cur, n) {
                    cur = v;
                }
            }
        }
    }
    println!("events {}", w.finish());
}
