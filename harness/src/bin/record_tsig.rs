//! I->S recorder for C11: random TSIG exchanges through the real base API
//! (which takes `now` explicitly), one ndjson event per public call with all
//! octets, results, and - for every signature the library produced - the
//! octets that reproduce its MAC under an independent HMAC (`digest`, `full`).
//! usage: record_tsig <out.ndjson> <seed> <max-events>
#[path = "../tsig.rs"]
mod tsig;

use domain::base::iana::Rcode;
use domain::base::message_builder::AdditionalBuilder;
use domain::base::{Message, MessageBuilder, Name, Rtype};
use domain::rdata::tsig::Time48;
use domain::rdata::A;
use domain::tsig::{Algorithm, ClientSequence, ClientTransaction, Key, KeyName, ServerError, ServerSequence, ServerTransaction};
use serde_json::{json, Value};
use std::panic::{catch_unwind, AssertUnwindSafe};
use std::str::FromStr;
use tsig::*;
use verif_harness::common::*;

struct Content {
    id: u16,
    qr: bool,
    rcode: u8,
    qname: String,
    answers: Vec<(String, u32, [u8; 4])>,
    adds: Vec<(String, u32, [u8; 4])>,
}

fn build(c: &Content) -> AdditionalBuilder<Vec<u8>> {
    let mut mb = MessageBuilder::new_vec();
    {
        let h = mb.header_mut();
        h.set_id(c.id);
        h.set_qr(c.qr);
        h.set_rcode(Rcode::masked_from_int(c.rcode));
    }
    let mut q = mb.question();
    q.push((Name::<Vec<u8>>::from_str(&c.qname).unwrap(), Rtype::AXFR)).unwrap();
    let mut an = q.answer();
    for (n, ttl, a) in &c.answers {
        an.push((Name::<Vec<u8>>::from_str(n).unwrap(), *ttl, A::from_octets(a[0], a[1], a[2], a[3]))).unwrap();
    }
    let mut ad = an.additional();
    for (n, ttl, a) in &c.adds {
        ad.push((Name::<Vec<u8>>::from_str(n).unwrap(), *ttl, A::from_octets(a[0], a[1], a[2], a[3]))).unwrap();
    }
    ad
}

fn rand_case(rng: &mut Rng, s: &str) -> String {
    s.chars().map(|c| if rng.chance(1, 2) { c.to_ascii_uppercase() } else { c.to_ascii_lowercase() }).collect()
}

fn rand_content(rng: &mut Rng, id: u16, answer: bool) -> Content {
    let names = ["example.com.", "a.b.example.", "xn--zone.test.", "x."];
    let qn: &str = names[rng.below(names.len() as u64) as usize];
    let qname = rand_case(rng, qn);
    let mut answers = vec![];
    if answer {
        for _ in 0..rng.below(4) {
            let b = rng.bytes(4);
            answers.push((qname.clone(), rng.below(100000) as u32, [b[0], b[1], b[2], b[3]]));
        }
    }
    let mut adds = vec![];
    if rng.chance(1, 3) {
        let b = rng.bytes(4);
        adds.push((format!("ns.{}", qname), 3600, [b[0], b[1], b[2], b[3]]));
    }
    // answers carry any RCODE: the TSIG checks must not depend on it (except NOTAUTH error answers)
    let rcode = if answer && rng.chance(1, 3) { *rng.pick(&[2u8, 3, 5, 9, 9, 10]) } else { 0 };
    Content { id, qr: answer, rcode, qname, answers, adds }
}

#[derive(Clone)]
enum RecV {
    Tsig(TsigRr),
    Other(Vec<u8>),
}

fn rec_json(r: &RecV) -> Value {
    match r {
        RecV::Tsig(t) => json!({"ty": "tsig", "name": json_bytes(&t.name), "alg": json_bytes(&t.alg), "time": t.time,
            "fudge": t.fudge, "mac": json_bytes(&t.mac), "oid": t.oid, "err": t.err, "other": json_bytes(&t.other), "raw": [],
            "cls": t.x.cls, "ttl": t.x.ttl, "rdx": json_bytes(&t.x.rdx), "rdadj": t.x.rdadj, "oladj": t.x.oladj}),
        RecV::Other(raw) => json!({"ty": "other", "name": [], "alg": [], "time": 0, "fudge": 0, "mac": [], "oid": 0,
            "err": 0, "other": [], "raw": json_bytes(raw), "cls": 0, "ttl": 0, "rdx": [], "rdadj": 0, "oladj": 0}),
    }
}

/// message in flight: header+body octets (hb) and the trailing records
#[derive(Clone)]
struct Flight {
    hb: Vec<u8>,
    recs: Vec<RecV>,
    rep: u64,
    tampered: bool,
}
impl Flight {
    fn wire(&self) -> Vec<u8> {
        let mut w = self.hb.clone();
        for r in &self.recs {
            match r {
                RecV::Tsig(t) => w.extend(t.encode()),
                RecV::Other(o) => w.extend_from_slice(o),
            }
        }
        w
    }
    fn from_signed(wire: &[u8], pre_len: usize) -> Option<Flight> {
        let (rr, end) = TsigRr::parse_at(wire, pre_len)?;
        if end != wire.len() {
            return None;
        }
        Some(Flight { hb: wire[..pre_len].to_vec(), recs: vec![RecV::Tsig(rr)], rep: 1, tampered: false })
    }
    fn unsigned(w: &[u8], rep: u64) -> Flight {
        Flight { hb: w.to_vec(), recs: vec![], rep, tampered: false }
    }
    fn tsig_mut(&mut self) -> Option<&mut TsigRr> {
        match self.recs.last_mut() {
            Some(RecV::Tsig(t)) => Some(t),
            _ => None,
        }
    }
    fn net_event(&self) -> Value {
        json!({"ev": "net", "msg": {"hdr": json_bytes(&self.hb[..12]), "body": json_bytes(&self.hb[12..]),
               "recs": self.recs.iter().map(rec_json).collect::<Vec<_>>()},
               "wire": json_bytes(&self.wire()), "tampered": self.tampered, "rep": self.rep})
    }
}

enum C { T(ClientTransaction<Key>), S(ClientSequence<Key>) }
enum S { T(ServerTransaction<Key>), Q(ServerSequence<Key>), E(ServerError<Key>), N }
trait Answer { fn answer(&mut self, m: &mut Message<Vec<u8>>, now: u64) -> Result<(), &'static str>; }
impl Answer for C {
    fn answer(&mut self, m: &mut Message<Vec<u8>>, now: u64) -> Result<(), &'static str> {
        match self {
            C::T(c) => c.answer(m, Time48::from_u64(now)).map_err(|e| verr(&e)),
            C::S(c) => c.answer(m, Time48::from_u64(now)).map_err(|e| verr(&e)),
        }
    }
}

fn deliver<T>(w: &mut TraceWriter, fl: &Flight, cli: &mut T, now: u64) where T: Answer {
    w.event(fl.net_event());
    let wire = fl.wire();
    let mut left = fl.rep;
    let mut res = "Ok";
    let mut after = wire.clone();
    while left > 0 {
        left -= 1;
        let mut m = Message::from_octets(wire.clone()).unwrap();
        let r = cli.answer(&mut m, now);
        after = m.as_slice().to_vec();
        if let Err(e) = r { res = e; break; }
    }
    w.event(json!({"ev": "c_answer", "now": now, "res": res, "after": json_bytes(&after), "left": left}));
}

fn main() {
    quiet_panics();
    let args: Vec<String> = std::env::args().collect();
    let mut w = TraceWriter::create(&args[1]);
    let mut rng = Rng::new(args[2].parse().unwrap_or(1));
    let max: u64 = args[3].parse().unwrap_or(1200);
    let algs = ["sha1", "sha256", "sha384", "sha512"];
    let mut nbad = 0u64;
    let mut sessions = 0u64;
    while w.n < max {
        sessions += 1;
        let alg = *rng.pick(&algs);
        let native = ring_alg(alg).digest_algorithm().output_len();
        let lo = std::cmp::max(10, native / 2);
        // Key::new / Key::generate with arbitrary lengths, in and out of range ...
        for _ in 0..1 {
            let a = *rng.pick(&algs);
            let nat = lib_alg(a).native_len() as i64;
            let arg = |rng: &mut Rng| -> i64 {
                match rng.below(6) { 0 => -1, 1 => 9 + rng.below(3) as i64, 2 => nat / 2 - 1 + rng.below(3) as i64, 3 => nat - 1 + rng.below(3) as i64,
                                     _ => rng.below(nat as u64 + 3) as i64 }
            };
            let (mm, sl) = (arg(&mut rng), arg(&mut rng));
            let gen = rng.chance(1, 4);
            w.event(key_new_event(a, mm, sl, gen).0);
        }
        // ... and the names of algorithms
        for _ in 0..1 {
            w.event(alg_name_event(&mut rng));
        }
        // the keys of the session: whatever lengths Key::new admits
        let mut pick_len = |rng: &mut Rng, what: &str| -> usize {
            loop {
                let n = match rng.below(8) { 0 | 1 => native, 2 | 3 => lo, 4 => rng.below(native as u64 + 2) as usize, _ => lo + rng.below((native - lo + 1) as u64) as usize };
                let (mm, sl) = if what == "min" { (n as i64, -1) } else { (-1, n as i64) };
                let (ev, ok) = key_new_event(alg, mm, sl, false);
                if !ok || n < lo || rng.chance(1, 8) {
                    w.event(ev);
                }
                if ok {
                    return n;
                }
            }
        };
        let (mut cs, mut cm, mut ss, mut sm) = (pick_len(&mut rng, "sign"), pick_len(&mut rng, "min"), pick_len(&mut rng, "sign"), pick_len(&mut rng, "min"));
        if rng.chance(3, 4) {
            // compatible policies most of the time
            if cs < sm { std::mem::swap(&mut cs, &mut sm); }
            if ss < cm { std::mem::swap(&mut ss, &mut cm); }
        }
        let mode_seq = rng.chance(3, 5);
        let rfc_server = rng.chance(2, 5);
        let cname = rand_case(&mut rng, "tsig.key.");
        let sname = rand_case(&mut rng, "tsig.key.");
        let key_c = lib_key(&cname, alg, SECRET, cm, cs);
        let key_s = lib_key(&sname, alg, SECRET, sm, ss);
        w.event(json!({"ev": "new", "alg": alg, "cs": cs, "cm": cm, "ss": ss, "sm": sm,
                       "mode": if mode_seq { "seq" } else { "txn" }, "server": if rfc_server { "rfc" } else { "impl" },
                       "cname": json_bytes(&name_wire(&cname)), "sname": json_bytes(&name_wire(&sname))}));
        // clocks
        let t0 = 1_000_000 + rng.below(1_000_000_000);
        let fudge: u16 = *rng.pick(&[300u16, 300, 300, 0, 1, 5, 65535]);
        let off = |rng: &mut Rng| -> i64 {
            let f = fudge as i64;
            match rng.below(10) { 0 => f + 1, 1 => -(f + 1), 2 => f, 3 => -f, 4 => rng.below(100000) as i64 + f + 1, _ => 0 }
        };
        let now_c = t0;
        let now_s = (t0 as i64 + off(&mut rng)).max(0) as u64;
        let now_c2 = (now_s as i64 + off(&mut rng)).max(0) as u64;

        //--- request
        let id = rng.below(65536) as u16;
        let mut bld = build(&rand_content(&mut rng, id, false));
        let pre = bld.as_slice().to_vec();
        let mut cli = if mode_seq {
            C::S(ClientSequence::request_with_fudge(key_c.clone(), &mut bld, Time48::from_u64(now_c), fudge).unwrap())
        } else {
            C::T(ClientTransaction::request_with_fudge(key_c.clone(), &mut bld, Time48::from_u64(now_c), fudge).unwrap())
        };
        let wire = bld.finish();
        let mut fl = match Flight::from_signed(&wire, pre.len()) { Some(f) => f, None => { eprintln!("signed request not parseable"); std::process::exit(3) } };
        let rr = fl.tsig_mut().unwrap().clone();
        let (digest, full, okmac) = pick(alg, vec![cat(sans(&wire, pre.len(), rr.oid), vars(&name_wire(&cname), &rr, false))], &rr.mac);
        if !okmac { nbad += 1; }
        w.event(json!({"ev": "c_request", "pre": json_bytes(&pre), "now": now_c, "fudge": fudge, "wire": json_bytes(&wire),
                       "digest": json_bytes(&digest), "full": json_bytes(&full), "mac_ok": okmac}));
        tamper(&mut rng, &mut fl, true, false, &full);
        w.event(fl.net_event());

        //--- server
        let req_wire = fl.wire();
        let mut msg = Message::from_octets(req_wire.clone()).unwrap();
        let (res, mut srv) = if mode_seq && !rfc_server {
            match ServerSequence::request(&key_s, &mut msg, Time48::from_u64(now_s)) {
                Ok(Some(s)) => ("Ok".to_string(), S::Q(s)),
                Ok(None) => ("Unsigned".to_string(), S::N),
                Err(e) => (tsig_rcode_name(e.error().to_int()).to_string(), S::E(e)),
            }
        } else {
            match ServerTransaction::request(&key_s, &mut msg, Time48::from_u64(now_s)) {
                Ok(Some(s)) => ("Ok".to_string(), S::T(s)),
                Ok(None) => ("Unsigned".to_string(), S::N),
                Err(e) => (tsig_rcode_name(e.error().to_int()).to_string(), S::E(e)),
            }
        };
        w.event(json!({"ev": "s_request", "now": now_s, "res": res, "after": json_bytes(msg.as_slice())}));
        let req_mac = match fl.recs.last() { Some(RecV::Tsig(t)) => t.mac.clone(), _ => vec![] };
        let vid = get_id(msg.as_slice());
        if res == "Unsigned" {
            continue;
        }
        if res != "Ok" {
            let err = match srv { S::E(e) => e, _ => unreachable!() };
            let req = Message::from_octets(req_wire.clone()).unwrap();
            let r = catch_unwind(AssertUnwindSafe(|| err.build_message(&req, MessageBuilder::new_vec()).map(|b| b.finish())));
            // the skeleton start_answer(req, NOTAUTH) produces: header + question of the request
            let qlen = { let mut p = 12; while req_wire[p] != 0 { p += 1 + req_wire[p] as usize; } p + 5 - 12 };
            let mut skel = req_wire[..12 + qlen].to_vec();
            skel[2] = 0x80 | (req_wire[2] & 0x79);
            skel[3] = 9;
            skel[4..12].copy_from_slice(&[0, 1, 0, 0, 0, 0, 0, 0]);
            match r {
                Err(_) => { w.event(json!({"ev": "s_error", "res": "panic", "pre": json_bytes(&skel), "now": now_s, "wire": [], "digest": [], "full": [], "rtime": 0, "rfudge": 0})); continue; }
                Ok(Err(_)) => { w.event(json!({"ev": "s_error", "res": "PushError", "pre": json_bytes(&skel), "now": now_s, "wire": [], "digest": [], "full": [], "rtime": 0, "rfudge": 0})); continue; }
                Ok(Ok(out)) => {
                    if out.len() == skel.len() {
                        // no TSIG mirrored: the one of the request could not be located
                        w.event(json!({"ev": "s_error", "res": "NoPanic", "pre": json_bytes(&skel), "now": now_s, "wire": json_bytes(&out), "digest": [], "full": [], "rtime": 0, "rfudge": 0}));
                        continue;
                    }
                    let mut efl = match Flight::from_signed(&out, skel.len()) { Some(f) => f, None => {
                        w.event(json!({"ev": "s_error", "res": "Unparseable", "pre": json_bytes(&skel), "now": now_s, "wire": json_bytes(&out), "digest": [], "full": [], "rtime": 0, "rfudge": 0})); continue; } };
                    let rr = efl.tsig_mut().unwrap().clone();
                    let (digest, full) = if res == "BADTIME" {
                        let base = sans(&out, skel.len(), rr.oid);
                        let (d, f, ok) = pick(alg, vec![
                            with_prior(&req_mac, cat(base.clone(), vars(&name_wire(&sname), &rr, false))),
                            with_prior(&req_mac, cat(base.clone(), vars(&name_wire(&sname), &rr, true)))], &rr.mac);
                        if !ok { nbad += 1; }
                        (d, f)
                    } else { (vec![], vec![]) };
                    w.event(json!({"ev": "s_error", "res": "Ok", "pre": json_bytes(&skel), "now": now_s, "wire": json_bytes(&out),
                                   "digest": json_bytes(&digest), "full": json_bytes(&full), "rtime": rr.time, "rfudge": rr.fudge}));
                    w.event(efl.net_event());
                    let mut m = Message::from_octets(out.clone()).unwrap();
                    let r = match &mut cli { C::T(c) => c.answer(&mut m, Time48::from_u64(now_c2)), C::S(c) => c.answer(&mut m, Time48::from_u64(now_c2)) };
                    w.event(json!({"ev": "c_answer", "now": now_c2, "res": match &r { Ok(()) => "Ok", Err(e) => verr(e) },
                                   "after": json_bytes(m.as_slice()), "left": 0}));
                }
            }
            continue;
        }

        //--- answers
        let nans = if mode_seq { 1 + rng.below(4) } else { 1 };
        let mut prior = req_mac.clone();        // as transmitted
        let mut prior_full = req_mac.clone();
        let mut first = true;
        let mut pending: Vec<u8> = vec![];      // rfc responder: unsigned messages since the last signed one
        let mut tampered_once = false;
        for i in 0..nans {
            let content = rand_content(&mut rng, vid, true);
            let mut bld = build(&content);
            let pre = bld.as_slice().to_vec();
            let sfudge = if rng.chance(1, 4) { fudge } else { 300 };
            let mut fl;
            let mut cur_full: Vec<u8> = vec![];
            if rfc_server {
                let unsigned = mode_seq && !first && i + 1 < nans && rng.chance(1, 2);
                if unsigned {
                    let n = if rng.chance(1, 12) { *rng.pick(&[98u64, 99, 100]) } else { 1 };
                    w.event(json!({"ev": "rfc_unsigned", "pre": json_bytes(&pre), "n": n}));
                    for _ in 0..n { pending.extend_from_slice(&pre); }
                    fl = Flight::unsigned(&pre, n);
                } else {
                    // the responder may put any error code / other-data into a signed answer
                    let err = if rng.chance(1, 4) { *rng.pick(&[16u16, 17, 18, 18, 22]) } else { 0 };
                    let other = if err == 18 && rng.chance(3, 4) { u48(now_s).to_vec() } else { vec![] };
                    let mut rr = TsigRr { x: Shape::default(), name: name_wire(&sname), alg: alg_wire(alg), time: now_s, fudge: sfudge, mac: vec![],
                                          oid: vid, err, other };
                    let mut stub = pre.clone();
                    let ar = get_ar(&stub);
                    set_ar(&mut stub, ar + 1);
                    let base = sans(&stub, pre.len(), vid);
                    let digest = if first { with_prior(&prior, cat(base, vars(&name_wire(&sname), &rr, false))) }
                                 else { with_prior(&prior, cat(pending.clone(), cat(base, timers(&rr)))) };
                    let full = ref_hmac(alg, SECRET, &digest);
                    rr.mac = full[..ss].to_vec();
                    let mut wire = stub;
                    wire.extend(rr.encode());
                    w.event(json!({"ev": "rfc_answer", "pre": json_bytes(&pre), "now": now_s, "fudge": sfudge, "wire": json_bytes(&wire),
                                   "err": rr.err, "other": json_bytes(&rr.other),
                                   "digest": json_bytes(&digest), "full": json_bytes(&full)}));
                    prior = rr.mac.clone();
                    cur_full = full.clone();
                    pending.clear();
                    first = false;
                    fl = Flight::from_signed(&wire, pre.len()).unwrap();
                }
            } else {
                let r = match &mut srv {
                    S::T(_) => { let t = match std::mem::replace(&mut srv, S::N) { S::T(t) => t, _ => unreachable!() }; t.answer_with_fudge(&mut bld, Time48::from_u64(now_s), sfudge) }
                    S::Q(s) => s.answer_with_fudge(&mut bld, Time48::from_u64(now_s), sfudge),
                    _ => break,
                };
                if r.is_err() { eprintln!("push error"); std::process::exit(3); }
                let wire = bld.finish();
                fl = match Flight::from_signed(&wire, pre.len()) { Some(f) => f, None => { eprintln!("signed answer not parseable"); std::process::exit(3) } };
                let rr = fl.tsig_mut().unwrap().clone();
                let base = sans(&wire, pre.len(), rr.oid);
                let tail = if first { vars(&name_wire(&sname), &rr, false) } else { timers(&rr) };
                let (digest, full, ok) = pick(alg, vec![
                    with_prior(&prior, cat(base.clone(), tail.clone())),
                    with_prior(&prior_full, cat(base.clone(), tail.clone()))], &rr.mac);
                if !ok { nbad += 1; }
                w.event(json!({"ev": "s_answer", "pre": json_bytes(&pre), "now": now_s, "fudge": sfudge, "wire": json_bytes(&wire),
                               "digest": json_bytes(&digest), "full": json_bytes(&full), "mac_ok": ok}));
                prior = rr.mac.clone();
                prior_full = full.clone();
                cur_full = full.clone();
                first = false;
            }
            if !tampered_once && fl.rep == 1 {
                tampered_once = tamper(&mut rng, &mut fl, false, mode_seq, &cur_full);
                if tampered_once && fl.rep == 0 {
                    // an unsigned message was slipped in ahead
                    let mut ins = Flight::unsigned(&msg_octets(vid, 0x80, 0, 3), 1);
                    ins.tampered = true;
                    fl.rep = 1;
                    deliver(&mut w, &ins, &mut cli, now_c2);
                }
            }
            deliver(&mut w, &fl, &mut cli, now_c2);

        }
        if let C::S(c) = cli {
            let r = c.done();
            w.event(json!({"ev": "c_done", "res": match &r { Ok(()) => "Ok", Err(e) => verr(e) }}));
        }
    }
    let n = w.finish();
    println!("events {} sessions {} unreproduced_macs {}", n, sessions, nbad);
}

/// Key::new / Key::generate with the given lengths (-1 = None): the event and
/// whether the key was admitted
fn key_new_event(alg: &str, mm: i64, sl: i64, gen: bool) -> (Value, bool) {
    let opt = |n: i64| if n < 0 { None } else { Some(n as usize) };
    let name = KeyName::from_str("tsig.key.").unwrap();
    let r: Result<Key, String> = if gen {
        Key::generate(lib_alg(alg), &ring::rand::SystemRandom::new(), name, opt(mm), opt(sl)).map(|x| x.0).map_err(|e| format!("{:?}", e))
    } else {
        Key::new(lib_alg(alg), SECRET, name, opt(mm), opt(sl)).map_err(|e| format!("{:?}", e))
    };
    let ok = r.is_ok();
    let (res, minlen, slen) = match r { Ok(k) => ("Ok".to_string(), k.min_mac_len(), k.signing_len()), Err(e) => (e, 0, 0) };
    (json!({"ev": "key_new", "alg": alg, "min": mm, "sign": sl, "gen": gen, "res": res, "minlen": minlen, "slen": slen}), ok)
}

/// Algorithm::from_name / FromStr on a name made of up to four labels drawn
/// from supported names, near misses and arbitrary labels, in random case
fn alg_name_event(rng: &mut Rng) -> Value {
    let labels = ["hmac-sha1", "hmac-sha256", "hmac-sha384", "hmac-sha512", "hmac-md5", "hmac-sha224", "hmac-sha25", "hmac-sha2566",
                  "hmac", "sha256", "sig-alg", "reg", "int", "example", "x"];
    let n = match rng.below(8) { 0 => 0, 1..=4 => 1, 5 | 6 => 2, _ => 3 + rng.below(2) };
    let mut ls: Vec<String> = vec![];
    for _ in 0..n {
        let l = labels[if rng.chance(2, 3) { rng.below(4) } else { rng.below(labels.len() as u64) } as usize];
        ls.push(if rng.chance(1, 4) { rand_case(rng, l) } else { l.to_string() });
    }
    let tag = |a: Option<Algorithm>| match a { Some(Algorithm::Sha1) => "sha1", Some(Algorithm::Sha256) => "sha256",
                                               Some(Algorithm::Sha384) => "sha384", Some(Algorithm::Sha512) => "sha512", None => "none" };
    if rng.chance(2, 3) {
        let wire = name_wire(&(ls.join(".") + "."));
        let name = Name::<Vec<u8>>::from_octets(wire.clone()).unwrap();
        let r = Algorithm::from_name(&name);
        let back = match r { Some(a) => a.to_name() == name, None => true };
        json!({"ev": "alg_name", "name": json_bytes(&wire), "res": tag(r), "back": back})
    } else {
        let s = ls.join(".") + if rng.chance(1, 3) { "." } else { "" };
        let r = Algorithm::from_str(&s).ok();
        let back = match r { Some(a) => a.to_string().eq_ignore_ascii_case(s.trim_end_matches('.')), None => true };
        json!({"ev": "alg_str", "s": json_bytes(s.as_bytes()), "res": tag(r), "back": back})
    }
}

/// offset of the root label of the question name (a target for compression pointers)
fn qname_root(hb: &[u8]) -> usize {
    let mut p = 12;
    while hb[p] != 0 { p += 1 + hb[p] as usize; }
    p
}

/// Applies at most one adversary action; rep = 0 on return signals "insert an
/// unsigned message ahead of this one".
fn tamper(rng: &mut Rng, fl: &mut Flight, request: bool, seq: bool, full: &[u8]) -> bool {
    if !rng.chance(2, 5) || fl.tsig_mut().is_none() {
        return false;
    }
    fl.tampered = true;
    let nb = fl.hb.len();
    let kind = rng.below(22);
    // actions on header / body / record list
    match kind {
        0 => { let k = 1 + rng.below(4) as usize; fl.hb[nb - k] ^= 1 << rng.below(8); return true; }
        1 => { let i = 2 + rng.below(2) as usize; fl.hb[i] ^= 1 << rng.below(8); return true; }
        8 => { let id = get_id(&fl.hb).wrapping_add(1 + rng.below(1000) as u16); set_id(&mut fl.hb, id); return true; }
        12 if !request => { fl.hb[3] = (fl.hb[3] & 0xf0) | 9; }
        13 => { fl.recs.pop(); let ar = get_ar(&fl.hb); set_ar(&mut fl.hb, ar - 1); return true; }
        14 => { fl.recs.push(RecV::Other(extra_rec())); let ar = get_ar(&fl.hb); set_ar(&mut fl.hb, ar + 1); return true; }
        15 => { let c = fl.recs.last().unwrap().clone(); fl.recs.push(c); let ar = get_ar(&fl.hb); set_ar(&mut fl.hb, ar + 1); return true; }
        16 if !request && seq => { fl.rep = 0; fl.tampered = false; return true; }
        _ => {}
    }
    // actions on the fields of the TSIG record
    let root = qname_root(&fl.hb);
    let t = fl.tsig_mut().unwrap();
    match kind {
        // the names of the record as names: labels added / removed, case, compression
        18 | 19 => {
            let f = if kind == 18 { &mut t.alg } else { &mut t.name };
            let front = f[..f.len() - 1].to_vec();
            let cat = |a: &[u8], b: &[u8]| -> Vec<u8> { let mut v = a.to_vec(); v.extend_from_slice(b); v };
            *f = match rng.below(9) {
                0 => cat(&front, &name_wire(*rng.pick(&["example.", "sig-alg.reg.int.", "x.", "hmac-sha256."]))),
                1 => cat(&front, &f.clone()),
                2 => vec![0],
                3 => cat(&[1, b'x'], &f.clone()),
                4 => f[f[0] as usize + 1..].to_vec(),
                5 => f.iter().map(|c| if rng.chance(1, 2) { c.to_ascii_uppercase() } else { *c }).collect(),
                // compressed: the root label is that of the question name
                6 => cat(&front, &[192 | (root >> 8) as u8, root as u8]),
                // ... or a pointer that does not point to an earlier name
                7 => cat(&front, &[255, 255]),
                // ... or a pointer to the question name: another name altogether
                _ => cat(&front, &[192, 12]),
            };
        }
        20 => { match rng.below(3) { 0 => t.x.cls = *rng.pick(&[1u16, 254, 3, 0]), 1 => t.x.ttl = 1 + rng.below(100000) as u32, _ => { t.x.cls = 1; t.x.ttl = 1; } } }
        21 => { match rng.below(4) { 0 => { let n = 1 + rng.below(3) as usize; t.x.rdx = rng.bytes(n) } 1 => t.x.rdadj = 1 + rng.below(3) as i32,
                                     2 => t.x.rdadj = -(1 + rng.below(2) as i32), _ => t.x.oladj = 1 + rng.below(8) as u16 } }
        2 => { if t.mac.is_empty() { return true; } let i = rng.below(t.mac.len() as u64) as usize; t.mac[i] ^= 1 << rng.below(8); }
        3 => { let n = rng.below(t.mac.len() as u64 + 1) as usize; t.mac.truncate(n); }
        4 => { let names = ["other.key.", "tsig.", "tsig.key.x."]; t.name = name_wire(names[rng.below(3) as usize]); }
        5 => { t.name = name_wire(&rand_case(rng, "tsig.key.")); }
        6 => { let a = ["sha1", "sha256", "sha384", "sha512", "md5"]; t.alg = alg_wire(a[rng.below(5) as usize]); }
        7 => { t.oid = t.oid.wrapping_add(1 + rng.below(1000) as u16); }
        9 => { let d = 1 + rng.below(1000); t.time = if rng.chance(1, 2) { t.time + d } else { t.time.saturating_sub(d) }; }
        10 => { t.err = *rng.pick(&[16u16, 17, 18, 1, 22, 5]); }
        11 => { let n = rng.below(9) as usize; t.other = rng.bytes(n); }
        12 => { if request { t.fudge ^= 1; } else { t.err = *rng.pick(&[16u16, 17, 18]); if rng.chance(1, 3) { t.other = u48(77).to_vec(); } } }
        17 => {
            // 1..16 octets appended to the (full-length or truncated) MAC, never the genuine continuation
            for _ in 0..(1 + rng.below(16)) {
                let p = t.mac.len();
                let mut b = rng.next() as u8;
                if full.get(p) == Some(&b) { b ^= 0xff; }
                t.mac.push(b);
            }
        }
        _ => { t.fudge = t.fudge.wrapping_add(1); }
    }
    true
}
