//! I->S recorder for X13 (spec/Trace_ValidatorConc.tla).
//!
//! Rounds of truly concurrent validations: per round a fresh
//! `ValidationContext` shared (Arc) by three OS threads, each running two to
//! three validations one after the other (random questions, random rewrites
//! of the answer and of upstream fetches, random small delays), and a clock
//! thread that moves both clocks by 100 s at random moments.  Every event at
//! the boundary (start / issue / adv / recv / done / tick) is appended to one
//! log under one lock, which is the global order the trace specification
//! consumes; what the validator does between two of its own events is
//! hidden.
//!
//! usage: record_valconc <out.ndjson> <seed> <rounds>

#[path = "../validator.rs"]
mod validator;
#[path = "../valconc.rs"]
mod valconc;

use serde_json::json;
use std::sync::atomic::{AtomicBool, AtomicU64, Ordering};
use std::sync::{Arc, Mutex};
use valconc::*;
use validator::*;
use verif_harness::common::{Rng, TraceWriter};

const QS: [&str; 5] = ["zone", "sub", "other", "plain", "tld"];

fn mix(a: u64, b: u64, c: u64) -> u64 {
    let mut r = Rng::new(a ^ b.wrapping_mul(0x9E3779B97F4A7C15) ^ c.wrapping_mul(0xC2B2AE3D27D4EB4F));
    r.next()
}

fn main() {
    let args: Vec<String> = std::env::args().collect();
    let out = args.get(1).expect("out path");
    let seed: u64 = args.get(2).and_then(|s| s.parse().ok()).unwrap_or(1);
    let rounds: u64 = args.get(3).and_then(|s| s.parse().ok()).unwrap_or(20);
    let mut worlds = Worlds::new();
    let w = the_world(&mut worlds);
    let mut tw = TraceWriter::create(out);
    let mut rng = Rng::new(seed);
    let mut verdicts = std::collections::BTreeMap::<String, u64>::new();
    for round in 0..rounds {
        let sh = Arc::new(Mutex::new(Shared::new()));
        let rseed = rng.next();
        // rewrites are rarer in some rounds so that long honest stretches occur
        let adv_den = *rng.pick(&[3u64, 6, 12, 1000]);
        let chooser: Chooser = Arc::new(move |i, t, _z, n| {
            let h = mix(rseed, i as u64, n as u64);
            let k = if h % adv_den == 0 {
                let ks: &[&str] = if t == "DNSKEY" {
                    &["Short", "Expire", "BadSig", "Empty", "AdvKey"]
                } else {
                    &["Short", "Expire", "BadSig", "Empty"]
                };
                ks[((h >> 8) % ks.len() as u64) as usize]
            } else {
                "none"
            };
            (k.to_string(), (h >> 20) % 300)
        });
        let up = Upstream { world: w.clone(), sh: sh.clone(), free: Some(chooser) };
        let ctx = Arc::new(new_context(&w, up));
        sh.lock().unwrap().events.push(json!({"ev": "round", "n": round}));
        let stop = Arc::new(AtomicBool::new(false));
        let nticks = Arc::new(AtomicU64::new(0));
        let max_ticks = rng.below(4);
        std::thread::scope(|s| {
            for i in 1..=3usize {
                let ctx = ctx.clone();
                let sh = sh.clone();
                let w = w.clone();
                let runs = 2 + (mix(rseed, i as u64, 77) % 2);
                s.spawn(move || {
                    CURVID.with(|c| c.set(i));
                    let rt = tokio::runtime::Builder::new_current_thread().enable_time().build().expect("rt");
                    for r in 0..runs {
                        let h = mix(rseed, (i * 100) as u64 + r, 5);
                        let q = QS[(h % 5) as usize];
                        let k = if (h >> 8) % adv_den == 0 && q != "plain" {
                            ["Short", "Expire", "BadSig", "Forge"][((h >> 16) % 4) as usize]
                        } else {
                            "none"
                        };
                        std::thread::sleep(std::time::Duration::from_micros((h >> 24) % 400));
                        // the answer is made (and, for Short, signed) at the time of the start event
                        let msg = {
                            let mut s = sh.lock().unwrap();
                            s.events.push(json!({"ev": "start", "i": i, "q": q, "k": k}));
                            s.computing += 1;
                            answer_msg(&w, q, k)
                        };
                        let v = rt.block_on(validation(ctx.clone(), msg));
                        {
                            let mut s = sh.lock().unwrap();
                            s.events.push(json!({"ev": "done", "i": i, "v": v}));
                            s.computing -= 1;
                        }
                    }
                });
            }
            // the clock
            let sh2 = sh.clone();
            let stop2 = stop.clone();
            let nt = nticks.clone();
            let tseed = rseed;
            s.spawn(move || {
                let mut n = 0;
                let mut tries = 0;
                while n < max_ticks && !stop2.load(Ordering::SeqCst) {
                    std::thread::sleep(std::time::Duration::from_micros(if tries > 0 { 20 } else { 100 + mix(tseed, n, 9) % 1500 }));
                    if stop2.load(Ordering::SeqCst) {
                        break;
                    }
                    let mut s = sh2.lock().unwrap();
                    if s.computing != 0 {
                        // somebody is between two clock reads: try again
                        tries += 1;
                        if tries > 2000 {
                            break;
                        }
                        continue;
                    }
                    tick(&mut s);
                    s.events.push(json!({"ev": "tick"}));
                    n += 1;
                    tries = 0;
                    nt.store(n, Ordering::SeqCst);
                }
            });
            // (scope joins the validation threads; the clock thread stops by itself)
            let _ = &stop;
        });
        stop.store(true, Ordering::SeqCst);
        let evs: Vec<_> = sh.lock().unwrap().events.drain(..).collect();
        for e in evs {
            if e["ev"] == "done" {
                *verdicts.entry(e["v"].as_str().unwrap_or("").to_string()).or_insert(0) += 1;
            }
            tw.event(e);
        }
        // the next round starts at the same (shifted) time
        advance_clock(-TICK_S * nticks.load(Ordering::SeqCst) as i64);
    }
    let n = tw.finish();
    println!("RECORDED {}", json!({"events": n, "rounds": rounds, "verdicts": verdicts}));
}
