//! Extension of property C17's check (not the decision): with the reference
//! `ref_cmp` / `ref_add` bound to Serial.tla by TLC (see serial_ref.rs), sweep
//! *all* 2^32 differences from a few bases on the real library and compare
//! with the reference.  Disagreements are printed as "PAIR cmp a b" /
//! "PAIR add a n" lines so that the
//! driver can put them before TLC (record_serial --pairs).
//! usage: sweep_serial <threads> <stride> <window> <base>...
//!   stride 1 = every difference.  With a larger stride (quick tier) the
//!   differences within <window> of 0, 2^31 and 2^32 are still swept densely.
#[path = "../serial_ref.rs"]
mod serial_ref;

use domain::base::Serial;
use domain::rdata::dnssec::Timestamp;
use serde_json::json;
use serial_ref::*;
use std::hint::black_box;
use std::sync::atomic::{AtomicU64, Ordering as AO};
use std::sync::{Arc, Mutex};

fn main() {
    verif_harness::common::quiet_panics();
    let args: Vec<String> = std::env::args().collect();
    let threads: u64 = args[1].parse().unwrap_or(4);
    let stride: u64 = args[2].parse().unwrap_or(1);
    let window: u64 = args[3].parse().unwrap_or(0);
    let bases: Vec<u32> = args[4..].iter().filter_map(|x| x.parse().ok()).collect();
    // (from, to, step) ranges of differences
    let top: u64 = 1u64 << 32;
    let half: u64 = 1u64 << 31;
    let mut ranges: Vec<(u64, u64, u64)> = vec![(0, top, stride)];
    if stride > 1 && window > 0 {
        let w = window.min(half / 2);
        ranges.push((0, w, 1));
        ranges.push((half - w, half + w, 1));
        ranges.push((top - w, top, 1));
    }
    let n_cmp = Arc::new(AtomicU64::new(0));
    let n_add = Arc::new(AtomicU64::new(0));
    let bad: Arc<Mutex<Vec<(u32, u32, String)>>> = Arc::new(Mutex::new(vec![]));
    let counts = Arc::new(Mutex::new([0u64; 4]));
    let mut hs = vec![];
    for t in 0..threads {
        let (bases, n_cmp, n_add, bad, counts, ranges) = (
            bases.clone(), n_cmp.clone(), n_add.clone(), bad.clone(), counts.clone(),
            ranges.clone(),
        );
        hs.push(std::thread::spawn(move || {
            let mut c = [0u64; 4];
            let (mut nc, mut na) = (0u64, 0u64);
            for &base in &bases {
              for &(from, to, step) in &ranges {
                let mut d: u64 = from + t * step;
                while d < to {
                    let b = base.wrapping_add(d as u32);
                    let lib = black_box(Serial(base)).partial_cmp(&black_box(Serial(b)));
                    let lib = ord_str(lib);
                    let r = ref_cmp(32, base as u64, b as u64);
                    let ts = lib_ts_cmp(base, b);
                    nc += 1;
                    c[match r { "LT" => 0, "EQ" => 1, "GT" => 2, _ => 3 }] += 1;
                    if lib != r || ts != r {
                        let mut g = bad.lock().unwrap();
                        if g.len() < 64 {
                            g.push((base, b, format!("cmp lib={} ts={} ref={}", lib, ts, r)));
                        }
                    }
                    // the same d as an addend (legal half only; the panicking
                    // half is covered by the TLC-generated cases and traces)
                    if d < (1u64 << 31) {
                        let s = Serial(base).add(d as u32).into_int();
                        na += 1;
                        let ok = Some(s as u64) == ref_add(32, base as u64, d)
                            && (d == 0 || Serial(base) < Serial(s));
                        if !ok {
                            let mut g = bad.lock().unwrap();
                            if g.len() < 64 {
                                g.push((base, d as u32, format!("add n={} sum={}", d, s)));
                            }
                        }
                    }
                    d += threads * step;
                }
              }
            }
            n_cmp.fetch_add(nc, AO::Relaxed);
            n_add.fetch_add(na, AO::Relaxed);
            let mut g = counts.lock().unwrap();
            for i in 0..4 {
                g[i] += c[i];
            }
        }));
    }
    for h in hs {
        let _ = h.join();
    }
    let bad = bad.lock().unwrap();
    for (a, b, why) in bad.iter() {
        println!("PAIR {} {} {}", if why.starts_with("add") { "add" } else { "cmp" }, a, b);
        println!("WHY {}", why);
    }
    let c = counts.lock().unwrap();
    let _ = Timestamp::from(0);
    println!(
        "SWEEP {}",
        json!({"bases": bases, "stride": stride, "dense_window": if stride > 1 { window } else { 0 }, "comparisons": n_cmp.load(AO::Relaxed),
               "additions": n_add.load(AO::Relaxed), "disagreements": bad.len(),
               "by_result": {"LT": c[0], "EQ": c[1], "GT": c[2], "UNDEF": c[3]}})
    );
}
