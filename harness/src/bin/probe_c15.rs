//! scratch probe (C15): clock interposition
use std::sync::atomic::{AtomicI64, Ordering};
static OFFSET_NS: AtomicI64 = AtomicI64::new(0);
static FROZEN_NS: AtomicI64 = AtomicI64::new(-1);
#[repr(C)]
pub struct Timespec { tv_sec: i64, tv_nsec: i64 }
extern "C" { fn syscall(num: i64, ...) -> i64; }
#[no_mangle]
pub unsafe extern "C" fn clock_gettime(clk: i32, ts: *mut Timespec) -> i32 {
    let r = syscall(228, clk as i64, ts) as i32;
    if r == 0 && clk == 1 {
        let f = FROZEN_NS.load(Ordering::SeqCst);
        if f >= 0 {
            let t = f + OFFSET_NS.load(Ordering::SeqCst);
            (*ts).tv_sec = t / 1_000_000_000; (*ts).tv_nsec = t % 1_000_000_000;
        }
    }
    r
}
fn main() {
    let a = std::time::Instant::now();
    FROZEN_NS.store(1_000_000_000_000, Ordering::SeqCst);
    let b = std::time::Instant::now();
    std::thread::sleep(std::time::Duration::from_millis(20));
    let c = std::time::Instant::now();
    OFFSET_NS.fetch_add(5_000_000_000, Ordering::SeqCst);
    let d = std::time::Instant::now();
    println!("frozen c-b={:?} d-c={:?} a={:?}", c.duration_since(b), d.duration_since(c), a);
    let rt = tokio::runtime::Builder::new_current_thread().enable_time().start_paused(true).build().unwrap();
    rt.block_on(async {
        let t0 = tokio::time::Instant::now();
        let s0 = std::time::Instant::now();
        OFFSET_NS.fetch_add(3_000_000_000, Ordering::SeqCst);
        tokio::time::advance(std::time::Duration::from_secs(3)).await;
        println!("tokio {:?} std {:?}", t0.elapsed(), s0.elapsed());
    });
}
