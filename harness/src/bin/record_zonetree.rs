//! I->S recorder for spec/ZoneTree.tla (X03): drives a real `ZoneTree`
//! with a long random sequence of insert_zone / remove_zone / get_zone /
//! find_zone / iter_zones calls over ~40 apex names (depth up to 5, random
//! ASCII case per use) in three classes and logs one ndjson event per call
//! with all arguments and the result.
//!
//! usage: record_zonetree <trace.ndjson> <seed> <events> [<remove-percent>]
#[path = "../zonetree.rs"]
mod zonetree;

use domain::zonetree::ZoneTree;
use serde_json::{json, Value};
use verif_harness::common::{Rng, TraceWriter};

fn label(s: &str, rng: &mut Rng) -> Value {
    Value::Array(
        s.bytes()
            .map(|b| {
                let b = if b.is_ascii_alphabetic() && rng.chance(1, 4) { b ^ 0x20 } else { b };
                json!(b)
            })
            .collect(),
    )
}

/// "a.sub.example.com" -> model name with random case
fn spell(name: &str, rng: &mut Rng) -> Value {
    Value::Array(name.split('.').filter(|l| !l.is_empty()).map(|l| label(l, rng)).collect())
}

fn universe() -> Vec<String> {
    let mut v = vec![String::new()]; // the root
    for tld in ["com", "org", "net"] {
        v.push(tld.to_string());
        for sld in ["example", "test", "ex-ample"] {
            let s = format!("{}.{}", sld, tld);
            v.push(s.clone());
            if tld != "net" {
                for third in ["sub", "www"] {
                    let t = format!("{}.{}", third, s);
                    v.push(t.clone());
                    if third == "sub" && sld != "ex-ample" {
                        v.push(format!("a.{}", t));
                        v.push(format!("b.a.{}", t));
                    }
                }
            }
        }
    }
    v
}

fn main() {
    let args: Vec<String> = std::env::args().collect();
    let path = &args[1];
    let seed: u64 = args.get(2).and_then(|s| s.parse().ok()).unwrap_or(1);
    let events: u64 = args.get(3).and_then(|s| s.parse().ok()).unwrap_or(1500);
    let remove_pct: u64 = args.get(4).and_then(|s| s.parse().ok()).unwrap_or(8);
    let mut rng = Rng::new(seed);
    let mut w = TraceWriter::create(path);
    let names = universe();
    let extra = ["x", "mail", "_tcp", "a", "sub", "example"];
    let classes = ["IN", "IN", "IN", "CH", "CH", "HS"];
    let mut tree = ZoneTree::new();
    let mut reg = zonetree::Registry::default();
    let mut next_id: u32 = 1;
    // (class, name) pairs inserted since the last reset: a hint for picking
    // arguments that hit, not an oracle
    let mut inserted: Vec<(&str, String)> = vec![];
    while w.n < events {
        let mut c = *rng.pick(&classes);
        let mut base = rng.pick(&names).clone();
        let roll = rng.below(100);
        if roll >= 33 && !inserted.is_empty() && rng.chance(3, 5) {
            let (ic, ib) = rng.pick(&inserted).clone();
            c = ic;
            base = ib;
        }
        let mut ev = if roll < 33 {
            let id = next_id;
            next_id += 1;
            inserted.push((c, base.clone()));
            json!({"op": "insert", "c": c, "a": spell(&base, &mut rng), "id": id})
        } else if roll < 33 + remove_pct {
            json!({"op": "remove", "c": c, "a": spell(&base, &mut rng)})
        } else if roll < 60 {
            json!({"op": "get", "c": c, "a": spell(&base, &mut rng)})
        } else if roll < 93 {
            // a name at, below or beside an apex
            let mut q = base.clone();
            for _ in 0..rng.below(3) {
                q = if q.is_empty() { rng.pick(&extra).to_string() } else { format!("{}.{}", rng.pick(&extra), q) };
            }
            json!({"op": "find", "c": c, "a": spell(&q, &mut rng)})
        } else if roll < 99 || w.n < 300 {
            json!({"op": "iter"})
        } else {
            tree = ZoneTree::new();
            reg = zonetree::Registry::default();
            inserted.clear();
            w.event(json!({"ev": "reset"}));
            continue;
        };
        let res = zonetree::apply(&mut tree, &mut reg, &ev);
        let o = ev.as_object_mut().unwrap();
        let op = o.remove("op").unwrap();
        o.insert("ev".into(), op.clone());
        if op == "iter" {
            o.insert("n".into(), res["n"].clone());
            o.insert("ids".into(), res["it"].clone());
        } else {
            o.insert("res".into(), res);
        }
        w.event(ev);
    }
    let n = w.finish();
    println!("RECORDED {}", n);
}
