//! S->I executor for KeySet.tla.
//!
//! A case is one transition of the specification: the pre-state, one public
//! call, and the outcomes the specification allows (ideal, and per set of
//! deviations).  The executor
//!  * injects the pre-state into a real `KeySet` (serde), performs the call
//!    under the virtual clock and compares result, returned actions and the
//!    complete projected post-state with the allowed outcomes;
//!  * additionally keeps a *live* `KeySet` that is only ever driven through
//!    the public API: when consecutive cases form a behaviour (the projection
//!    of the live object equals the case's pre-state) the call is performed
//!    on it too and must give the same observation -- so whole behaviours
//!    from `KeySet::new` are replayed without relying on injection.
//!
//! Observation reported to `run_cases`: {"match": "ideal"} | {"match": D}
//! (the first open deviation of the matching set) | {"match": "none", ...}.
use serde_json::{json, Value};
use verif_harness::common::*;

#[path = "../keyset.rs"]
mod keyset;
use keyset::*;

fn main() {
    if !freeze_clock() {
        println!("CLOCK_INTERPOSITION_FAILED");
        std::process::exit(3);
    }
    let open = open_devs();
    let mut live = new_keyset();
    let mut live_ok = true;
    let mut chained: u64 = 0;
    let mut injected: u64 = 0;
    let no_inject = has_flag("--no-inject");
    run_cases(|input| {
        let maxttl = input["maxttl"].as_u64().unwrap_or(1);
        let pre = norm_state(&input["pre"]);
        let op = &input["op"];
        // the live object: restart when the case starts from the empty key set
        let empty = pre["keys"].as_object().map(|o| o.is_empty()).unwrap_or(false)
            && pre["rolls"].as_object().map(|o| o.values().all(|r| r["st"] == json!("Idle"))).unwrap_or(false);
        if empty {
            live = new_keyset();
            live_ok = true;
        }
        let lp = project(&live, maxttl);
        let follows = live_ok && lp["keys"] == pre["keys"] && lp["rolls"] == pre["rolls"];
        let is_tick = op["op"] == json!("tick");
        // 1. a fresh object in the injected pre-state
        let mut inj = None;
        let mut pre_proj = lp.clone();
        if !no_inject {
            let ks = inject(&pre);
            let back = project(&ks, maxttl);
            pre_proj = back.clone();
            if back["keys"] != pre["keys"] || back["rolls"] != pre["rolls"] {
                return json!({"match": "none", "why": "injection does not round-trip", "got": back});
            }
            inj = Some(ks);
            injected += 1;
        }
        // both objects share the virtual clock
        if is_tick {
            advance(1);
        }
        let do_call = |ks: &mut domain::dnssec::sign::keys::keyset::KeySet| {
            let (res, ret) = if is_tick { ("ok".to_string(), vec![]) } else { apply(ks, op) };
            observation(ks, &res, &ret, maxttl)
        };
        let obs_inj = inj.as_mut().map(|ks| do_call(ks));
        // 2. the live object (API-only history)
        let mut obs_live = None;
        if follows {
            obs_live = Some(do_call(&mut live));
            chained += 1;
        } else {
            live_ok = false;
        }
        let obs = match (obs_inj, obs_live) {
            (Some(o), Some(l)) => {
                // a panic / Wait choice depends on the HashMap order of each object
                if o != l && !(o["post"] == l["post"] && o["res"] != json!("ok") && l["res"] != json!("ok")) {
                    return json!({"match": "none", "why": "injected and live object disagree",
                                  "injected": o, "live": l});
                }
                o
            }
            (Some(o), None) => o,
            (None, Some(l)) => l,
            (None, None) => return json!({"match": "skipped"}),
        };
        let empty_alts = vec![];
        for alt in input["alts"].as_array().unwrap_or(&empty_alts) {
            if matches(&obs, alt, &pre_proj) {
                return json!({"match": "ideal"});
            }
        }
        // prefer the smallest set of deviations that explains the observation
        let mut das: Vec<&Value> = input["devalts"].as_array().unwrap_or(&empty_alts).iter().collect();
        das.sort_by_key(|d| d["devs"].as_array().map(|a| a.len()).unwrap_or(0));
        for da in das {
            let devs: Vec<String> = da["devs"]
                .as_array()
                .map(|a| a.iter().map(|x| x.as_str().unwrap_or("").to_string()).collect())
                .unwrap_or_default();
            if devs.is_empty() || !devs.iter().all(|d| open.contains(d)) {
                continue;
            }
            for alt in da["alts"].as_array().unwrap_or(&empty_alts) {
                if matches(&obs, alt, &pre_proj) {
                    return json!({"match": devs[0]});
                }
            }
        }
        json!({"match": "none", "obs": obs})
    });
    let stats = json!({"chained": chained, "injected": injected});
    if let Some(path) = arg_value("--stats") {
        let _ = std::fs::write(path, stats.to_string());
    }
    println!("CHAINED {}", stats);
}
