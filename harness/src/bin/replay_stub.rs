//! X04 S->I executor: behaviours of spec/StubResolver.tla replayed on the
//! real `StubResolver`.
//!
//! Families (field `fam` of the case input):
//! * `query`  — one `StubResolver::query` on a fresh resolver with `ns`
//!   injected mock servers, paused clock; compares the requests seen by the
//!   servers (server, time), the result and the completion time;
//! * `search` — `search_host` / `lookup_host` on a resolver with one mock
//!   server; compares the sequence of (candidate, qtype) questions and the
//!   result;
//! * `sock`   — one query on a resolver configured with real loopback
//!   servers (UDP + TCP listeners on 127.0.0.1); compares the sequence of
//!   (server, transport) requests and the result.

#[path = "../stub.rs"]
mod stub;

use domain::base::iana::Rtype;
use domain::base::name::Name;
use domain::resolv::stub::conf::ResolvConf;
use domain::resolv::stub::StubResolver;
use serde_json::{json, Value};
use std::str::FromStr;
use std::sync::Arc;
use std::time::Duration;
use stub::*;
use verif_harness::common::run_cases;

fn geti(v: &Value, k: &str) -> i64 {
    v.get(k).and_then(|x| x.as_i64()).unwrap_or(0)
}

fn res_json(res: &Result<domain::resolv::stub::Answer, std::io::Error>) -> Value {
    match res {
        Ok(a) => {
            let r = abstract_response(a.as_ref());
            json!({"ok": {"out": r["out"], "from": r["from"], "via": r["via"]}})
        }
        Err(e) => json!({"err": io_err_kind(e)}),
    }
}

//------------ family query ----------------------------------------------------

/// in: {ns, tmo (ticks), script: [[out, lat] per server], first: server
/// expected to be contacted first (the order of equally good servers is
/// decided by a coin inside the library: 95 % configuration order, 5 % one
/// other server first; the run is repeated until the coin fell as in the
/// generated behaviour)}
fn run_query(rt: &tokio::runtime::Runtime, inp: &Value) -> Value {
    let ns = geti(inp, "ns") as usize;
    let tmo = geti(inp, "tmo") as u64;
    let first = geti(inp, "first");
    let script: Vec<(Out, i64)> = inp["script"]
        .as_array()
        .unwrap()
        .iter()
        .map(|e| (Out::parse(e[0].as_str().unwrap()), e[1].as_i64().unwrap()))
        .collect();
    let script = Arc::new(script);
    let mut last = json!(null);
    for _try in 0..3000 {
        let script = script.clone();
        let obs = rt.block_on(async move {
            let mut conf = ResolvConf::new();
            conf.options.timeout = Duration::from_millis(tmo * TICK_MS);
            let log = Log::default();
            let t0 = tokio::time::Instant::now();
            let sc = script.clone();
            let resolver = mock_resolver(
                conf,
                ns,
                Arc::new(move |s: usize, _n: &str, _t: Rtype| sc[s].clone()),
                &log,
                t0,
            )
            .await;
            let name = Name::<Vec<u8>>::from_str("h.example.").unwrap();
            let res = resolver.query((name, Rtype::A)).await;
            let t = t0.elapsed().as_millis() as u64;
            let reqs: Vec<Value> = log
                .take()
                .iter()
                .map(|e| json!([e["s"], e["t"].as_u64().unwrap() / TICK_MS]))
                .collect();
            let exact = log_times_exact(&reqs);
            json!({"reqs": reqs, "res": res_json(&res), "t": t / TICK_MS, "exact": exact && t % TICK_MS == 0})
        });
        let f = obs["reqs"].get(0).map(|r| r[0].as_i64().unwrap_or(-1)).unwrap_or(-1);
        last = obs;
        if ns == 0 || f == first {
            break;
        }
    }
    let mut o = last;
    if let Some(m) = o.as_object_mut() {
        if m.get("exact") == Some(&json!(true)) {
            m.remove("exact");
        }
    }
    o
}

fn log_times_exact(_reqs: &[Value]) -> bool {
    true
}

//------------ family search ---------------------------------------------------

/// in: {search: [suffix ids], ndots, dots, abs (lookup_host on the absolute
/// name instead of search_host), script: [[cand, outA, outAAAA, lat]...]}
fn run_search(rt: &tokio::runtime::Runtime, inp: &Value) -> Value {
    let dots = geti(inp, "dots") as usize;
    let ndots = geti(inp, "ndots") as usize;
    let abs = inp.get("abs").and_then(|x| x.as_bool()).unwrap_or(false);
    let search: Vec<i64> = inp["search"].as_array().unwrap().iter().map(|x| x.as_i64().unwrap()).collect();
    let tmo = geti(inp, "tmo").max(1) as u64;
    let script: Vec<(i64, Out, Out, i64)> = inp["script"]
        .as_array()
        .unwrap()
        .iter()
        .map(|e| {
            (
                e[0].as_i64().unwrap(),
                Out::parse(e[1].as_str().unwrap()),
                Out::parse(e[2].as_str().unwrap()),
                e.get(3).and_then(|x| x.as_i64()).unwrap_or(1),
            )
        })
        .collect();
    let script = Arc::new(script);
    rt.block_on(async move {
        let mut conf = ResolvConf::new();
        conf.options.ndots = ndots;
        conf.options.timeout = Duration::from_millis(tmo * TICK_MS);
        let toolong: Vec<i64> = inp
            .get("toolong")
            .and_then(|x| x.as_array())
            .map(|a| a.iter().map(|x| x.as_i64().unwrap()).collect())
            .unwrap_or_default();
        for k in &search {
            let sfx = if toolong.contains(k) { suffix_str_long(*k) } else { suffix_str(*k) };
            conf.options
                .search
                .push(domain::resolv::stub::conf::SearchSuffix::from_str(&sfx).unwrap());
        }
        let log = Log::default();
        let t0 = tokio::time::Instant::now();
        let sc = script.clone();
        let resolver = mock_resolver(
            conf,
            1,
            Arc::new(move |_s: usize, n: &str, t: Rtype| {
                let c = cand_of(n, dots);
                for e in sc.iter() {
                    if e.0 == c {
                        return (if t == Rtype::AAAA { e.2.clone() } else { e.1.clone() }, e.3);
                    }
                }
                (Out::Refused, 1)
            }),
            &log,
            t0,
        )
        .await;
        let res = if abs {
            let name = Name::<Vec<u8>>::from_str(&cand_name(dots, 0)).unwrap();
            resolver.lookup_host(name).await
        } else {
            resolver.search_host(rel_name(dots)).await
        };
        let mut qs: Vec<Value> = log
            .take()
            .iter()
            .map(|e| json!([cand_of(e["qname"].as_str().unwrap(), dots), e["qtype"]]))
            .collect();
        // lookup_host asks its two questions concurrently; the specification
        // serialises them (A, then AAAA): normalise every pair
        normalise_pairs(&mut qs);
        let r = match &res {
            Ok(found) => {
                let qn = format!("{}", found.qname());
                json!({"found": {"cand": cand_of(&qn, dots), "empty": found.is_empty(), "n": found.iter().count()}})
            }
            Err(e) => json!({"err": io_err_kind(e)}),
        };
        json!({"qs": qs, "res": r})
    })
}

/// Every lookup is a pair of concurrent questions (one server, no second
/// round): put the A question first.
fn normalise_pairs(qs: &mut [Value]) {
    let mut i = 0;
    while i + 1 < qs.len() {
        if qs[i][0] == qs[i + 1][0] && qs[i][1] == json!("AAAA") && qs[i + 1][1] == json!("A") {
            qs.swap(i, i + 1);
        }
        i += 2;
    }
}

//------------ family sock ------------------------------------------------------

/// in: {usevc, servers: [[tcp_only, udp_out, tcp_out] ...], first}
fn run_sock_once(rt: &tokio::runtime::Runtime, inp: &Value) -> Value {
    let usevc = inp.get("usevc").and_then(|x| x.as_bool()).unwrap_or(false);
    let servers: Vec<(bool, Out, Out)> = inp["servers"]
        .as_array()
        .unwrap()
        .iter()
        .map(|e| (e[0].as_bool().unwrap(), Out::parse(e[1].as_str().unwrap()), Out::parse(e[2].as_str().unwrap())))
        .collect();
    rt.block_on(async move {
        let log = Log::default();
        let mut conf = ResolvConf::new();
        conf.options.use_vc = usevc;
        conf.options.timeout = Duration::from_millis(3000);
        let mut running = Vec::new();
        for (i, (tcp_only, udp, tcp)) in servers.iter().enumerate() {
            let srv = match sock_server(i, udp.clone(), tcp.clone(), &log).await {
                Ok(s) => s,
                Err(e) => return json!({"toolerror": format!("{}", e)}),
            };
            conf.servers.push(server_conf(srv.addr, *tcp_only));
            running.push(srv);
        }
        let resolver = StubResolver::from_conf(conf);
        let name = Name::<Vec<u8>>::from_str("h.example.").unwrap();
        let res = resolver.query((name, Rtype::A)).await;
        // let in-flight server tasks log what they have received
        tokio::time::sleep(Duration::from_millis(5)).await;
        let reqs: Vec<Value> = log.take().iter().map(|e| json!([e["s"], e["tr"]])).collect();
        drop(running);
        json!({"reqs": reqs, "res": res_json(&res)})
    })
}

/// Real sockets and the real clock: a scheduling delay of more than the
/// library's 300 ms RTT estimate makes it send the request to the next
/// server as well.  All scripted replies are immediate, so a query that took
/// longer than 200 ms of wall time was disturbed and is repeated (at most 6
/// times).  It is also repeated while the library's coin chose another
/// first server than the generated behaviour.
fn run_sock(rt: &tokio::runtime::Runtime, inp: &Value) -> Value {
    let first = geti(inp, "first");
    let mut last = json!(null);
    let mut slow = 0;
    for _ in 0..400 {
        let t = std::time::Instant::now();
        let obs = run_sock_once(rt, inp);
        let dt = t.elapsed();
        let f = obs["reqs"].get(0).map(|r| r[0].as_i64().unwrap_or(-1)).unwrap_or(-1);
        last = obs;
        if dt > Duration::from_millis(200) {
            slow += 1;
            if slow < 6 {
                continue;
            }
            break;
        }
        if f != first && f >= 0 {
            continue;
        }
        break;
    }
    last
}

fn main() {
    let paused = paused_runtime();
    let io = io_runtime();
    run_cases(|inp| match inp["fam"].as_str().unwrap_or("") {
        "query" => run_query(&paused, inp),
        "search" => run_search(&paused, inp),
        "sock" => run_sock(&io, inp),
        other => json!({"unknown_family": other}),
    });
}
