//! S->I executor for the behaviours of spec/MC_Tsig.tla run through the
//! *wrappers*: the real `net::client::tsig::Connection` over a mock upstream
//! transport that composes the request as often as the behaviour says (a
//! datagram transport's retries: new ID per attempt), hands the last composed
//! message (after the adversary) to the real `TsigMiddlewareSvc` around a
//! scripted service, and hands the responses (after the adversary) back to
//! the client wrapper.  Honest clocks (the wrappers read Time48::now()):
//! Time Signed in the spec's terms is symbolic and taken from the wire.
//!
//! ops: c_request (= compose) / adv / s_request (= middleware preprocess) /
//! s_error / s_answer (= postprocess of one response item) / c_answer (=
//! validate_response) / c_done (= end of the response stream).
#[path = "../tsig.rs"]
mod tsig;

use bytes::Bytes;
use domain::base::iana::Rcode;
use domain::base::{Message, Name};
use domain::net::client::request::{
    ComposeRequest, ComposeRequestMulti, Error, GetResponse, GetResponseMulti, RequestMessage,
    RequestMessageMulti, SendRequest, SendRequestMulti,
};
use domain::net::client::tsig as ctsig;
use domain::net::server::message::{NonUdpTransportContext, Request, TransportSpecificContext};
use domain::net::server::middleware::tsig::TsigMiddlewareSvc;
use domain::net::server::service::{CallResult, Service, ServiceFeedback, ServiceResult};
use domain::net::server::util::mk_builder_for_target;
use domain::rdata::A;
use domain::tsig::Key;
use futures_util::stream::Iter;
use futures_util::{FutureExt, StreamExt};
use serde_json::{json, Value};
use std::collections::VecDeque;
use std::future::{ready, Future, Ready};
use std::pin::Pin;
use std::str::FromStr;
use std::sync::{Arc, Mutex};
use tsig::*;
use verif_harness::common::*;

/// offset of the last record of the additional section (independent walker)
fn last_record_offset(w: &[u8]) -> Option<usize> {
    fn skip_name(w: &[u8], mut p: usize) -> Option<usize> {
        loop {
            let l = *w.get(p)? as usize;
            if l & 0xc0 == 0xc0 {
                return Some(p + 2);
            }
            if l == 0 {
                return Some(p + 1);
            }
            p += 1 + l;
        }
    }
    let cnt = |i: usize| u16::from_be_bytes([w[i], w[i + 1]]) as usize;
    if w.len() < 12 {
        return None;
    }
    let mut p = 12;
    for _ in 0..cnt(4) {
        p = skip_name(w, p)? + 4;
    }
    let nrec = cnt(6) + cnt(8) + cnt(10);
    let mut last = None;
    for _ in 0..nrec {
        last = Some(p);
        p = skip_name(w, p)? + 8;
        let rdlen = u16::from_be_bytes([*w.get(p)?, *w.get(p + 1)?]) as usize;
        p += 2 + rdlen;
    }
    if p != w.len() || cnt(10) == 0 {
        return None;
    }
    last
}

/// the message as it was before the TSIG RR at `off` was added
fn pre_of(w: &[u8], off: usize) -> Vec<u8> {
    let mut v = w[..off].to_vec();
    let ar = get_ar(&v);
    set_ar(&mut v, ar.wrapping_sub(1));
    v
}

#[derive(Default)]
struct Shared {
    ops: Vec<Value>,
    obs: Vec<Option<Value>>,
    stop_at: Option<usize>,
    alg: String,
    terms: Option<Terms>,
    key_s: Option<Key>,
    seq: bool,
    last_full: Vec<u8>,
    to_client: VecDeque<ToCli>,
    served: bool,
    // recording (I->S): events in the format of Trace_Tsig.tla
    record: bool,
    events: Vec<Value>,
}

#[derive(Clone)]
struct ToCli {
    wire: Vec<u8>,
    pre: Vec<u8>,
    signed: bool,
    off: usize,
    tampered: bool,
    /// recording: the signing event of this message, logged when it is delivered
    sev: Option<Value>,
}

impl Shared {
    fn kind(&self, i: usize) -> &str {
        self.ops.get(i).map(|o| o["op"].as_str().unwrap_or("")).unwrap_or("")
    }
    /// records the observation of op i; false = the behaviour ends here
    fn put(&mut self, i: usize, o: Value) -> bool {
        let stop = o.get("harness").is_some() || o.get("diverged").is_some() || o["res"] == "panic";
        if i < self.obs.len() {
            self.obs[i] = Some(o);
        }
        if stop && self.stop_at.map(|s| i < s).unwrap_or(true) {
            self.stop_at = Some(i);
        }
        !stop
    }

    fn signed_obs(&mut self, op: &Value, pre: &[u8], wire: &[u8], off: usize, want: &TsigRr, body_tag: u64) -> Value {
        let (rr, end) = match TsigRr::parse_at(wire, off) {
            Some(x) => x,
            None => return json!({"res": "Ok", "mac": "norr", "rr": "unparseable"}),
        };
        let f = if end != wire.len() { "trailing" }
            else if rr.name != want.name { "name" }
            else if rr.alg != want.alg { "alg" }
            else if want.time != u64::MAX && rr.time.abs_diff(want.time) > 2 { "time" }
            else if want.time != u64::MAX && rr.fudge != want.fudge { "fudge" }
            else if rr.x.cls != want.x.cls || rr.x.ttl != want.x.ttl { "class" }
            else if rr.oid != want.oid { "oid" }
            else if rr.err != want.err { "err" }
            else if rr.other != want.other { "other" }
            else { "ok" };
        let mac = match op.get("macref") {
            Some(m) if m["j"].as_u64().unwrap_or(0) > 0 => {
                let (j, n) = (m["j"].as_u64().unwrap() as usize, m["n"].as_u64().unwrap_or(0) as usize);
                let t = self.terms.as_mut().unwrap();
                // what the spec's pseudo-octets stand for in this run
                t.blocks.insert(1000 + body_tag, pre[12..].to_vec());
                t.blocks.insert(2000 + body_tag, pre[4..10].to_vec());
                t.times.insert(j, rr.time);
                match t.full(j) {
                    Ok(full) => {
                        self.last_full = full.clone();
                        if rr.mac.len() != n { "length".to_string() }
                        else if full[..n.min(full.len())] == rr.mac[..] { "ideal".to_string() }
                        else { "other".to_string() }
                    }
                    Err(e) => format!("term: {}", e),
                }
            }
            _ => if rr.mac.is_empty() { "none".into() } else { "unexpected".into() },
        };
        json!({"res": "Ok", "mac": mac, "rr": f})
    }
}

//------------ the scripted inner service --------------------------------------

#[derive(Clone)]
struct Scripted {
    bodies: Vec<u64>,
    begin: bool,
    seen: Arc<Mutex<Option<(Vec<u8>, bool)>>>,
}

impl Service<Vec<u8>, Option<Key>> for Scripted {
    type Target = Vec<u8>;
    type Stream = Iter<std::vec::IntoIter<ServiceResult<Vec<u8>>>>;
    type Future = Ready<Self::Stream>;
    fn call(&self, request: Request<Vec<u8>, Option<Key>>) -> Self::Future {
        *self.seen.lock().unwrap() =
            Some((request.message().as_slice().to_vec(), request.metadata().is_some()));
        let mut items = vec![];
        for (i, b) in self.bodies.iter().enumerate() {
            let builder = mk_builder_for_target::<Vec<u8>>();
            let mut an = builder.start_answer(request.message(), Rcode::NOERROR).unwrap();
            an.push((Name::<Vec<u8>>::from_str(QNAME).unwrap(), 300, A::from_octets(10, 0, 0, *b as u8))).unwrap();
            let mut ad = an.additional();
            if *b == 4 {
                ad.push((Name::<Vec<u8>>::from_str("ns.example.com.").unwrap(), 3600, A::from_octets(192, 0, 2, 4))).unwrap();
            }
            let mut cr = CallResult::new(ad);
            if self.begin && i == 0 {
                cr = cr.with_feedback(ServiceFeedback::BeginTransaction);
            }
            items.push(Ok(cr));
        }
        ready(futures_util::stream::iter(items))
    }
}

//------------ the mock transport ---------------------------------------------

fn rec_json(r: Result<&TsigRr, &[u8]>) -> Value {
    match r {
        Ok(t) => json!({"ty": "tsig", "name": json_bytes(&t.name), "alg": json_bytes(&t.alg), "time": t.time,
            "fudge": t.fudge, "mac": json_bytes(&t.mac), "oid": t.oid, "err": t.err, "other": json_bytes(&t.other), "raw": [],
            "cls": t.x.cls, "ttl": t.x.ttl, "rdx": json_bytes(&t.x.rdx), "rdadj": t.x.rdadj, "oladj": t.x.oladj}),
        Err(raw) => json!({"ty": "other", "name": [], "alg": [], "time": 0, "fudge": 0, "mac": [], "oid": 0,
            "err": 0, "other": [], "raw": json_bytes(raw), "cls": 0, "ttl": 0, "rdx": [], "rdadj": 0, "oladj": 0}),
    }
}

/// the structured view of a (possibly tampered) message whose trailing records start at `off`
fn net_event(wire: &[u8], off: usize, tampered: bool) -> Value {
    let mut recs = vec![];
    let mut p = off.min(wire.len());
    while p < wire.len() {
        match TsigRr::parse_at(wire, p) {
            Some((rr, end)) => { recs.push(rec_json(Ok(&rr))); p = end; }
            None => { recs.push(rec_json(Err(&wire[p..]))); p = wire.len(); }
        }
    }
    json!({"ev": "net", "msg": {"hdr": json_bytes(&wire[..12]), "body": json_bytes(&wire[12..off.min(wire.len())]), "recs": recs},
           "wire": json_bytes(wire), "tampered": tampered, "rep": 1})
}

fn now_secs() -> u64 {
    std::time::SystemTime::now().duration_since(std::time::UNIX_EPOCH).unwrap().as_secs()
}

/// Everything between the client wrapper and the responses it gets back: the
/// composes (every c_request op is one attempt of the transport), the
/// adversary, the middleware around the scripted service.  Client-side ops
/// (c_answer, c_done) are left to the driver.
fn transport_phase(sh: &mut Shared, compose: &mut dyn FnMut(u16) -> Result<Vec<u8>, String>) {
    if sh.served {
        return;
    }
    sh.served = true;
    let alg = sh.alg.clone();
    let n = sh.ops.len();
    let mut i = 0;
    let mut wire = vec![];
    let mut off = 0;
    while sh.kind(i) == "c_request" {
        let op = sh.ops[i].clone();
        let id = op["id"].as_u64().unwrap() as u16;
        wire = match compose(id) { Ok(w) => w, Err(e) => { sh.put(i, json!({"harness": e})); return; } };
        off = match last_record_offset(&wire) { Some(o) => o, None => { sh.put(i, json!({"harness": "composed request has no locatable last record"})); return; } };
        let pre = pre_of(&wire, off);
        let want = TsigRr { x: Shape::default(), name: name_wire(KEYNAME_C), alg: alg_wire(&alg), time: now_secs(), fudge: 300, mac: vec![], oid: id, err: 0, other: vec![] };
        let mut o = sh.signed_obs(&op, &pre, &wire, off, &want, op["b"].as_u64().unwrap());
        if get_id(&wire) != id {
            o["rr"] = json!("header id");
        }
        sh.put(i, o);
        i += 1;
        if sh.record {
            if let Some((rr, _)) = TsigRr::parse_at(&wire, off) {
                let (digest, full, ok) = pick(&alg, vec![cat(sans(&wire, off, rr.oid), vars(&name_wire(KEYNAME_C), &rr, false))], &rr.mac);
                sh.events.push(json!({"ev": "c_request", "pre": json_bytes(&pre), "now": rr.time, "fudge": rr.fudge,
                    "wire": json_bytes(&wire), "digest": json_bytes(&digest), "full": json_bytes(&full), "mac_ok": ok}));
            }
        }
    }
    let mut signed = true;
    if sh.kind(i) == "adv" {
        let op = sh.ops[i].clone();
        let lf = sh.last_full.clone();
        match apply_adv(&mut wire, off, &op, &lf) {
            Ok(s) => { signed = s; sh.put(i, json!({"res": "Ok"})); }
            Err(e) => { sh.put(i, json!({"harness": e})); return; }
        }
        i += 1;
    }
    if sh.kind(i) != "s_request" {
        return;
    }
    let tampered1 = i > 0 && sh.kind(i - 1) == "adv";
    if sh.record {
        let e = net_event(&wire, off, tampered1);
        sh.events.push(e);
    }
    // the server: middleware around the scripted service
    let bodies: Vec<u64> = sh.ops[i..].iter().filter(|o| o["op"] == "s_answer").map(|o| o["b"].as_u64().unwrap()).collect();
    let seen = Arc::new(Mutex::new(None));
    let svc = TsigMiddlewareSvc::<Vec<u8>, Scripted, Key, ()>::new(
        Scripted { bodies: if bodies.is_empty() { vec![3] } else { bodies }, begin: sh.seq, seen: seen.clone() },
        sh.key_s.clone().unwrap(),
    );
    let req_pre = if signed { pre_of(&wire, off) } else { wire.clone() };
    let req_rr = if signed { TsigRr::parse_at(&wire, off).map(|x| x.0) } else { None };
    let req_id = get_id(&wire);
    let msg = match Message::from_octets(wire.clone()) { Ok(m) => m, Err(_) => { sh.put(i, json!({"harness": "short message"})); return; } };
    let request = Request::new(
        "127.0.0.1:5300".parse().unwrap(),
        tokio::time::Instant::now(),
        msg,
        TransportSpecificContext::NonUdp(NonUdpTransportContext::new(None)),
        (),
    );
    let collected = std::panic::catch_unwind(std::panic::AssertUnwindSafe(|| {
        let mut stream = svc.call(request).now_or_never().expect("middleware future not ready");
        let mut out: Vec<Result<Vec<u8>, String>> = vec![];
        loop {
            match stream.next().now_or_never() {
                Some(Some(Ok(cr))) => {
                    if let Some(b) = cr.into_inner().0 {
                        out.push(Ok(b.as_message().as_slice().to_vec()));
                    }
                }
                Some(Some(Err(e))) => out.push(Err(format!("{}", e))),
                Some(None) => break,
                None => { out.push(Err("stream not ready".into())); break; }
            }
        }
        out
    }));
    let responses = match collected {
        Ok(r) => r,
        Err(_) => {
            // the verification failed and building the error answer panicked
            sh.put(i, json!({"res": "FORMERR", "restored": false, "reached": false}));
            sh.put(i + 1, json!({"res": "panic"}));
            if sh.record {
                sh.events.push(json!({"ev": "s_request", "now": now_secs(), "res": "FORMERR", "after": []}));
                sh.events.push(json!({"ev": "s_error", "res": "panic", "pre": [0,0,0,0,0,0,0,0,0,0,0,0], "now": now_secs(), "wire": [], "digest": [], "full": [], "rtime": 0, "rfudge": 0}));
            }
            return;
        }
    };
    let seen = seen.lock().unwrap().clone();
    let first = responses.first().cloned();
    // the result of the request verification, as the middleware acted on it
    let (res, restored, reached) = match &seen {
        Some((octs, meta)) => {
            let mut expect = req_pre.clone();
            if let Some(rr) = &req_rr { set_id(&mut expect, rr.oid); }
            ((if *meta { "Ok" } else { "Unsigned" }).to_string(),
             *meta && octs.len() >= expect.len() && octs[..expect.len()] == expect[..], true)
        }
        None => match &first {
            Some(Ok(w)) => match last_record_offset(w).and_then(|o| TsigRr::parse_at(w, o)) {
                Some((rr, _)) => (tsig_rcode_name(rr.err).to_string(), false, false),
                None => ("FORMERR".to_string(), false, false),
            },
            Some(Err(e)) => (format!("ServiceError {}", e), false, false),
            None => ("NoResponse".to_string(), false, false),
        },
    };
    {
        let op = sh.ops[i].clone();
        let mut r = res.clone();
        if let Some(a) = op.get("allow").and_then(|a| a.as_array()) {
            let names: Vec<&str> = a.iter().filter_map(|x| x.as_str()).collect();
            if names.contains(&r.as_str()) { r = names.join("|"); }
        }
        sh.put(i, json!({"res": r, "restored": restored, "reached": reached}));
        i += 1;
        if sh.record {
            let after = seen.as_ref().map(|x| x.0.clone()).unwrap_or_default();
            sh.events.push(json!({"ev": "s_request", "now": now_secs(), "res": res, "after": json_bytes(&after)}));
        }
    }
    if !reached {
        // the error response the middleware produced instead
        if sh.kind(i) != "s_error" {
            if i < n { sh.put(i, json!({"diverged": true})); }
            return;
        }
        let op = sh.ops[i].clone();
        let w = match first { Some(Ok(w)) => w, _ => { sh.put(i, json!({"res": "NoResponse"})); return; } };
        match last_record_offset(&w).and_then(|o| TsigRr::parse_at(&w, o).map(|_| o)) {
            None => {
                sh.put(i, json!({"res": "NoPanic"}));
                if sh.record {
                    sh.events.push(json!({"ev": "s_error", "res": "NoPanic", "pre": json_bytes(&w), "now": now_secs(), "wire": json_bytes(&w), "digest": [], "full": [], "rtime": 0, "rfudge": 0}));
                }
            }
            Some(o) => {
                if sh.record {
                    let (rr, _) = TsigRr::parse_at(&w, o).unwrap();
                    sh.events.push(json!({"ev": "s_error", "res": "Ok", "pre": json_bytes(&pre_of(&w, o)), "now": now_secs(), "wire": json_bytes(&w),
                                          "digest": [], "full": [], "rtime": rr.time, "rfudge": rr.fudge}));
                    let e = net_event(&w, o, false);
                    sh.events.push(e);
                }
                let pre = pre_of(&w, o);
                let rq = req_rr.clone().unwrap_or(TsigRr { x: Shape::default(), name: vec![], alg: vec![], time: 0, fudge: 0, mac: vec![], oid: 0, err: 0, other: vec![] });
                let code = match res.as_str() { "BADSIG" => 16, "BADKEY" => 17, "BADTRUNC" => 22, "BADTIME" => 18, _ => 1 };
                let want = TsigRr { x: Shape { cls: rq.x.cls, ttl: rq.x.ttl, ..Shape::default() }, name: rq.name.clone(), alg: rq.alg.clone(), time: u64::MAX, fudge: 0, mac: vec![], oid: req_id, err: code, other: vec![] };
                let obs = sh.signed_obs(&op, &pre, &w, o, &want, 1);
                sh.put(i, obs);
                sh.to_client.push_back(ToCli { wire: w, pre, signed: true, off: o, tampered: false, sev: None });
            }
        }
        return;
    }
    if res == "Unsigned" {
        if sh.kind(i) != "" { sh.put(i, json!({"diverged": true})); }
        return;
    }
    // the signed answers, one per s_answer op (all produced now, observed in order)
    let mut it = responses.into_iter();
    let mut prior: Vec<u8> = req_rr.as_ref().map(|r| r.mac.clone()).unwrap_or_default();
    let mut first_answer = true;
    while i < n {
        match sh.kind(i).to_string().as_str() {
            "s_answer" => {
                let op = sh.ops[i].clone();
                let w = match it.next() {
                    Some(Ok(w)) => w,
                    Some(Err(e)) => { sh.put(i, json!({"harness": format!("service error {}", e)})); return; }
                    None => { sh.put(i, json!({"harness": "no response"})); return; }
                };
                let o = match last_record_offset(&w) { Some(o) => o, None => { sh.put(i, json!({"res": "Ok", "mac": "norr", "rr": "unsigned"})); i += 1; let l = w.len(); sh.to_client.push_back(ToCli { wire: w.clone(), pre: w, signed: false, off: l, tampered: false, sev: None }); continue; } };
                let pre = pre_of(&w, o);
                let want = TsigRr { x: Shape::default(), name: name_wire(KEYNAME_S), alg: alg_wire(&alg), time: now_secs(), fudge: 300, mac: vec![], oid: get_id(&pre), err: 0, other: vec![] };
                let obs = sh.signed_obs(&op, &pre, &w, o, &want, op["b"].as_u64().unwrap());
                sh.put(i, obs);
                let mut sev = None;
                if sh.record {
                    if let Some((rr, _)) = TsigRr::parse_at(&w, o) {
                        let tail = if first_answer || !sh.seq { vars(&name_wire(KEYNAME_S), &rr, false) } else { timers(&rr) };
                        let (digest, full, ok) = pick(&alg, vec![with_prior(&prior, cat(sans(&w, o, rr.oid), tail))], &rr.mac);
                        sev = Some(json!({"ev": "s_answer", "pre": json_bytes(&pre), "now": rr.time, "fudge": rr.fudge, "wire": json_bytes(&w),
                                          "digest": json_bytes(&digest), "full": json_bytes(&full), "mac_ok": ok}));
                        prior = rr.mac.clone();
                        first_answer = false;
                    }
                }
                sh.to_client.push_back(ToCli { wire: w, pre, signed: true, off: o, tampered: false, sev });
                i += 1;
                if sh.kind(i) == "adv" {
                    let op = sh.ops[i].clone();
                    if op["kind"] == "InsertUnsigned" {
                        let last = sh.to_client.pop_back().unwrap();
                        let ins = msg_octets(0x1234, 0x80, 0, 3);
                        let l = ins.len();
                        sh.to_client.push_back(ToCli { wire: ins.clone(), pre: ins, signed: false, off: l, tampered: true, sev: None });
                        sh.to_client.push_back(last);
                        sh.put(i, json!({"res": "Ok"}));
                    } else {
                        let mut t = sh.to_client.pop_back().unwrap();
                        let lf = sh.last_full.clone();
                        match apply_adv(&mut t.wire, o, &op, &lf) {
                            Ok(sg) => { t.signed = sg; t.tampered = true; sh.to_client.push_back(t); sh.put(i, json!({"res": "Ok"})); }
                            Err(e) => { sh.put(i, json!({"harness": e})); return; }
                        }
                    }
                    i += 1;
                }
            }
            "c_answer" | "c_done" => { i += 1; }
            "s_error" if sh.record => { i += 1; }      // recorder scripts carry it for the rejected case
            _ => { sh.put(i, json!({"harness": "op not expressible through the wrappers"})); return; }
        }
    }
}

//------------ upstream mocks: SendRequest / SendRequestMulti ------------------

type Sh = Arc<Mutex<Shared>>;

struct Up(Sh);

struct Resp<CR> {
    req: CR,
    sh: Sh,
}
impl<CR> std::fmt::Debug for Resp<CR> {
    fn fmt(&self, f: &mut std::fmt::Formatter<'_>) -> std::fmt::Result {
        f.write_str("Resp")
    }
}

fn next_for_client(sh: &Sh) -> Option<Vec<u8>> {
    sh.lock().unwrap().to_client.front().map(|x| x.wire.clone())
}

impl<CR: ComposeRequest + Send + Sync + 'static> SendRequest<CR> for Up {
    fn send_request(&self, request_msg: CR) -> Box<dyn GetResponse + Send + Sync> {
        Box::new(Resp { req: request_msg, sh: self.0.clone() })
    }
}
impl<CR: ComposeRequest + Send + Sync + 'static> GetResponse for Resp<CR> {
    fn get_response(&mut self) -> Pin<Box<dyn Future<Output = Result<Message<Bytes>, Error>> + Send + Sync + '_>> {
        let sh = self.sh.clone();
        let req = &mut self.req;
        {
            let mut g = sh.lock().unwrap();
            transport_phase(&mut g, &mut |id| {
                req.header_mut().set_id(id);
                req.to_message().map(|m| m.as_slice().to_vec()).map_err(|e| format!("compose: {}", e))
            });
        }
        let r = match next_for_client(&sh) {
            Some(w) => Message::from_octets(Bytes::from(w)).map_err(|_| Error::ShortMessage),
            None => Err(Error::ConnectionClosed),
        };
        Box::pin(ready(r))
    }
}
impl<CR: ComposeRequestMulti + Send + Sync + 'static> SendRequestMulti<CR> for Up {
    fn send_request(&self, request_msg: CR) -> Box<dyn GetResponseMulti + Send + Sync> {
        Box::new(Resp { req: request_msg, sh: self.0.clone() })
    }
}
impl<CR: ComposeRequestMulti + Send + Sync + 'static> GetResponseMulti for Resp<CR> {
    fn get_response(&mut self) -> Pin<Box<dyn Future<Output = Result<Option<Message<Bytes>>, Error>> + Send + Sync + '_>> {
        let sh = self.sh.clone();
        let req = &mut self.req;
        {
            let mut g = sh.lock().unwrap();
            transport_phase(&mut g, &mut |id| {
                req.header_mut().set_id(id);
                req.to_message().map(|m| m.as_slice().to_vec()).map_err(|e| format!("compose: {}", e))
            });
        }
        let r = match next_for_client(&sh) {
            Some(w) => Message::from_octets(Bytes::from(w)).map(Some).map_err(|_| Error::ShortMessage),
            None => Ok(None),
        };
        Box::pin(ready(r))
    }
}

fn err_name(e: &Error) -> String {
    match e {
        Error::Authentication(v) => verr(v).to_string(),
        other => format!("Error({})", other),
    }
}

fn allow(op: &Value, res: &str) -> String {
    if let Some(a) = op.get("allow").and_then(|a| a.as_array()) {
        let names: Vec<&str> = a.iter().filter_map(|x| x.as_str()).collect();
        if names.contains(&res) {
            return names.join("|");
        }
    }
    res.to_string()
}

fn run_case(input: &Value) -> Value {
    run_case_rec(input, false).0
}

fn run_case_rec(input: &Value, record: bool) -> (Value, Vec<Value>) {
    if std::env::var("C11_DEBUG").is_ok() { std::panic::set_hook(Box::new(|i| eprintln!("{}", i))); }
    let cfg = &input["cfg"];
    let kc = &cfg["kc"];
    let alg = kc["alg"].as_str().unwrap_or("sha256");
    let u = |k: &str| kc[k].as_u64().unwrap_or(0) as usize;
    let seq = cfg["mode"] == "seq";
    let ops: Vec<Value> = input["ops"].as_array().cloned().unwrap_or_default();
    let n = ops.len();
    let sh: Sh = Arc::new(Mutex::new(Shared {
        ops: ops.clone(),
        obs: vec![None; n],
        alg: alg.to_string(),
        terms: Some(Terms::new(&input["terms"]["ideal"])),
        key_s: Some(lib_key(KEYNAME_S, alg, SECRET, u("sm"), u("ss"))),
        seq,
        record,
        ..Default::default()
    }));
    let key_c = lib_key(KEYNAME_C, alg, SECRET, u("cm"), u("cs"));
    let b = ops.first().map(|o| o["b"].as_u64().unwrap_or(1)).unwrap_or(1);
    // the request: body variant b (2 = one additional record); a single-response
    // request must not be AXFR, what the pseudo-octets 1000+b / 2000+b stand for is
    // taken from the wire anyway
    let inner = {
        let mut q = domain::base::MessageBuilder::new_vec().question();
        let qn = Name::<Vec<u8>>::from_str(QNAME).unwrap();
        q.push((qn, if seq { domain::base::Rtype::AXFR } else { domain::base::Rtype::A })).unwrap();
        let mut ad = q.additional();
        if b == 2 {
            ad.push((Name::<Vec<u8>>::from_str("ns.example.com.").unwrap(), 3600, A::from_octets(192, 0, 2, 2))).unwrap();
        }
        ad.into_message()
    };
    let conn = ctsig::Connection::new(key_c, Up(sh.clone()));
    let rt = tokio::runtime::Builder::new_current_thread().enable_time().build().unwrap();
    rt.block_on(async {
        // one closure per client-side op: validate the next response / end of stream
        if seq {
            let req = RequestMessageMulti::new(inner).unwrap();
            let mut g = SendRequestMulti::send_request(&conn, req);
            for (i, op) in ops.iter().enumerate() {
                if sh.lock().unwrap().stop_at.map(|s| i > s).unwrap_or(false) { break; }
                match op["op"].as_str().unwrap_or("") {
                    "c_answer" => {
                        let r = g.get_response().await;
                        let mut s = sh.lock().unwrap();
                        let fl = s.to_client.pop_front();
                        let mut after = vec![];
                        let mut raw = String::new();
                        let o = match (r, &fl) {
                            (_, None) => json!({"diverged": true}),
                            (Ok(Some(m)), Some(t)) => {
                                let a = m.as_slice();
                                after = a.to_vec();
                                raw = "Ok".into();
                                json!({"res": allow(op, "Ok"), "restored": t.signed && a.len() >= t.pre.len() && a[..t.pre.len()] == t.pre[..], "left": 0})
                            }
                            (Ok(None), _) => json!({"res": "EndOfStream"}),
                            (Err(e), _) => { raw = err_name(&e); json!({"res": allow(op, &err_name(&e)), "restored": false, "left": 0}) }
                        };
                        s.put(i, o);
                        if let (true, Some(t)) = (s.record, &fl) {
                            if let Some(sev) = &t.sev { s.events.push(sev.clone()); }
                            let e = net_event(&t.wire, t.off, t.tampered);
                            s.events.push(e);
                            s.events.push(json!({"ev": "c_answer", "now": now_secs(), "res": raw, "after": json_bytes(&after), "left": 0}));
                        }
                    }
                    "c_done" => {
                        let r = g.get_response().await;
                        let o = match r { Ok(None) => json!({"res": "Ok"}), Ok(Some(_)) => json!({"res": "UnexpectedMessage"}), Err(e) => json!({"res": err_name(&e)}) };
                        let mut s = sh.lock().unwrap();
                        if s.record {
                            let e = json!({"ev": "c_done", "res": o["res"].clone()});
                            s.events.push(e);
                        }
                        s.put(i, o);
                    }
                    _ => {
                        // server-side / transport ops are performed when the wrapper first asks
                        // the transport for a response; make sure that has happened
                        if i == 0 && !ops.iter().any(|o| o["op"] == "c_answer" || o["op"] == "c_done") {
                            let _ = g.get_response().await;
                        }
                    }
                }
            }
        } else {
            let req = RequestMessage::new(inner).unwrap();
            let mut g = SendRequest::send_request(&conn, req);
            let mut asked = false;
            for (i, op) in ops.iter().enumerate() {
                if sh.lock().unwrap().stop_at.map(|s| i > s).unwrap_or(false) { break; }
                if op["op"] == "c_answer" {
                    asked = true;
                    let r = g.get_response().await;
                    let mut s = sh.lock().unwrap();
                    let fl = s.to_client.pop_front();
                    let mut after = vec![];
                    let mut raw = String::new();
                    let o = match (r, &fl) {
                        (_, None) => json!({"diverged": true}),
                        (Ok(m), Some(t)) => {
                            let a = m.as_slice();
                            after = a.to_vec();
                            raw = "Ok".into();
                            json!({"res": allow(op, "Ok"), "restored": t.signed && a.len() >= t.pre.len() && a[..t.pre.len()] == t.pre[..], "left": 0})
                        }
                        (Err(e), _) => { raw = err_name(&e); json!({"res": allow(op, &err_name(&e)), "restored": false, "left": 0}) }
                    };
                    s.put(i, o);
                    if let (true, Some(t)) = (s.record, &fl) {
                        if let Some(sev) = &t.sev { s.events.push(sev.clone()); }
                        let e = net_event(&t.wire, t.off, t.tampered);
                        s.events.push(e);
                        s.events.push(json!({"ev": "c_answer", "now": now_secs(), "res": raw, "after": json_bytes(&after), "left": 0}));
                    }
                }
            }
            if !asked {
                let _ = g.get_response().await;
            }
        }
    });
    let s = sh.lock().unwrap();
    let mut out = vec![];
    for (i, o) in s.obs.iter().enumerate() {
        match o {
            Some(v) => out.push(v.clone()),
            None => break,
        }
        if s.stop_at == Some(i) {
            break;
        }
    }
    let mut events = vec![];
    if record {
        events.push(json!({"ev": "new", "alg": alg, "cs": u("cs"), "cm": u("cm"), "ss": u("ss"), "sm": u("sm"),
                           "mode": if seq { "seq" } else { "txn" }, "server": "impl",
                           "cname": json_bytes(&name_wire(KEYNAME_C)), "sname": json_bytes(&name_wire(KEYNAME_S))}));
        events.extend(s.events.iter().cloned());
    }
    (Value::Array(out), events)
}

/// I->S: random scripts through the same wiring, logged for Trace_Tsig.tla.
/// usage: replay_tsigw --record <out.ndjson> <seed> <max-events>
fn record_main(path: &str, seed: u64, max: u64) {
    quiet_panics();
    let mut w = TraceWriter::create(path);
    let mut rng = Rng::new(seed);
    let mut sessions = 0;
    while w.n < max {
        sessions += 1;
        let alg = *rng.pick(&["sha1", "sha256", "sha384", "sha512"]);
        let native = ring_alg(alg).digest_algorithm().output_len() as u64;
        let lo = std::cmp::max(10, native / 2);
        let mut len = |rng: &mut Rng| match rng.below(3) { 0 => native, 1 => lo, _ => lo + rng.below(native - lo + 1) };
        let (mut cs, mut cm, mut ss, mut sm) = (len(&mut rng), len(&mut rng), len(&mut rng), len(&mut rng));
        if rng.chance(4, 5) {
            if cs < sm { std::mem::swap(&mut cs, &mut sm); }
            if ss < cm { std::mem::swap(&mut ss, &mut cm); }
        }
        let seq = rng.chance(1, 2);
        let b = 1 + rng.below(2);
        let mut ops = vec![];
        // the transport composes 1..3 times (retries: new ID each time)
        let id0 = rng.below(60000);
        for a in 0..(1 + rng.below(3)) {
            ops.push(json!({"op": "c_request", "b": b, "id": id0 + a * 7}));
        }
        let adv = |rng: &mut Rng, req: bool| -> Option<Value> {
            if !rng.chance(1, 3) { return None; }
            let kinds = ["FlipBody", "FlipMac", "TruncShort", "ExtendMac", "RenameKey", "RecaseKey", "SwapAlg", "ChangeOrigId",
                         "RewriteId", "ShiftTime", "SetErr", "SetOther", "SetOther6", "StripTsig", "MoveTsig", "DupTsig", "ForgeBadKey",
                         // the names of the record as names, its CLASS / TTL (uncompressed forms: the
                         // recorder's structured view of a message is a re-parse of its octets)
                         "AlgExtra", "AlgDouble", "AlgSigAlg", "AlgRoot", "AlgPrefix", "AlgUpper", "KeyExtra", "KeyFewer", "KeyRoot",
                         "ClassIn", "ClassNone", "TtlOne"];
            let k = *rng.pick(&kinds);
            if req && k == "ForgeBadKey" { return None; }
            let arg: Value = match k {
                "FlipMac" => json!(1 + rng.below(10)),
                "TruncShort" => json!(rng.below(10)),
                "ExtendMac" => json!(1 + rng.below(16)),
                "SwapAlg" => json!(*rng.pick(&["md5", "sha1", "sha256", "sha512"])),
                "ChangeOrigId" | "RewriteId" => json!(1 + rng.below(100)),
                "ShiftTime" => json!(if rng.chance(1, 2) { 1 } else { -1 }),
                "SetErr" | "ForgeBadKey" => json!(*rng.pick(&[16, 17, 18])),
                "SetOther" => json!(2),
                "SetOther6" => json!(6),
                _ => json!(0),
            };
            Some(json!({"op": "adv", "kind": k, "arg": arg}))
        };
        if let Some(a) = adv(&mut rng, true) { ops.push(a); }
        ops.push(json!({"op": "s_request"}));
        ops.push(json!({"op": "s_error"}));      // performed only if the request is rejected
        let nans = if seq { 1 + rng.below(4) } else { 1 };
        let mut tampered = false;
        for i in 0..nans {
            ops.push(json!({"op": "s_answer", "b": if i % 2 == 0 { 3 } else { 4 }}));
            if !tampered {
                if seq && i > 0 && rng.chance(1, 10) {
                    ops.push(json!({"op": "adv", "kind": "InsertUnsigned", "arg": 1}));
                    ops.push(json!({"op": "c_answer"}));
                    tampered = true;
                } else if let Some(a) = adv(&mut rng, false) {
                    ops.push(a);
                    tampered = true;
                }
            }
            ops.push(json!({"op": "c_answer"}));
        }
        if seq { ops.push(json!({"op": "c_done"})); }
        let input = json!({"cfg": {"kc": {"alg": alg, "cs": cs, "cm": cm, "ss": ss, "sm": sm}, "mode": if seq { "seq" } else { "txn" }},
                           "ops": ops, "terms": {"ideal": []}});
        let (_, events) = match std::panic::catch_unwind(std::panic::AssertUnwindSafe(|| run_case_rec(&input, true))) {
            Ok(x) => x,
            Err(_) => (Value::Null, vec![json!({"ev": "harness_panic"})]),
        };
        for e in events {
            w.event(e);
        }
    }
    let n = w.finish();
    println!("events {} sessions {}", n, sessions);
}

fn main() {
    let args: Vec<String> = std::env::args().collect();
    if args.get(1).map(|s| s == "--record").unwrap_or(false) {
        record_main(&args[2], args[3].parse().unwrap_or(1), args[4].parse().unwrap_or(800));
        return;
    }
    run_cases(|input| match std::panic::catch_unwind(std::panic::AssertUnwindSafe(|| run_case(input))) {
        Ok(v) => v,
        Err(e) => json!({"panic": panic_msg(e)}),
    });
}
