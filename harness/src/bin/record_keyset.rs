//! I->S recorder for KeySet.tla: a long random sequence of public calls on
//! one real `KeySet` (12 keys of all types, two algorithms, every roll type,
//! TTLs 0..3, the virtual clock), one ndjson event per call with the result,
//! the returned actions and the complete projected state.
//!
//! usage: record_keyset <out.ndjson> <seed> <steps> <mode>
//!   mode "rolls": add / delete / start_roll / steps / tick only
//!   mode "all":   also the set_* calls (which derail rolls)
use serde_json::{json, Value};
use verif_harness::common::*;

#[path = "../keyset.rs"]
mod keyset;
use keyset::*;

const UNIVERSE: [&str; 12] = ["k1", "k2", "k3", "k9", "z1", "z2", "z3", "z9", "c1", "c2", "c9", "i1"];
const MAXTTL: u64 = 3;

fn tag_of(k: &str) -> u64 {
    UNIVERSE.iter().position(|x| *x == k).unwrap_or(0) as u64 + 1
}

fn type_ok(rt: &str, t: &str) -> bool {
    match rt {
        "KskRoll" | "KskDoubleDsRoll" => t == "ksk",
        "ZskRoll" | "ZskDoubleSignatureRoll" => t == "zsk",
        _ => t != "inc",
    }
}

fn pick_some(rng: &mut Rng, from: &[String], max: u64) -> Vec<String> {
    let n = rng.below(max + 1).min(from.len() as u64);
    let mut pool: Vec<String> = from.to_vec();
    let mut out = vec![];
    for _ in 0..n {
        let i = rng.below(pool.len() as u64) as usize;
        out.push(pool.remove(i));
    }
    out
}

fn main() {
    let args: Vec<String> = std::env::args().collect();
    let out = args.get(1).expect("out path");
    let seed: u64 = args.get(2).and_then(|s| s.parse().ok()).unwrap_or(1);
    let steps: u64 = args.get(3).and_then(|s| s.parse().ok()).unwrap_or(1000);
    let all = args.get(4).map(|s| s == "all").unwrap_or(false);
    quiet_panics();
    if !freeze_clock() {
        eprintln!("clock interposition failed");
        std::process::exit(3);
    }
    let mut rng = Rng::new(seed);
    let mut w = TraceWriter::create(out);
    let mut ks = new_keyset();
    let mut oks = 0u64;
    let mut last_res = String::new();
    for _ in 0..steps {
        let st = project(&ks, MAXTTL);
        let keys = st["keys"].as_object().cloned().unwrap_or_default();
        let active: Vec<(String, String)> = ROLL_TYPES
            .iter()
            .filter(|rt| st["rolls"][**rt]["st"] != json!("Idle"))
            .map(|rt| (rt.to_string(), st["rolls"][*rt]["st"].as_str().unwrap_or("").to_string()))
            .collect();
        let c = rng.below(100);
        // a roll stuck on a panic (missing timestamp): work around it like a
        // user would, by setting the timestamp by hand
        let unset: Vec<(String, &str)> = keys
            .iter()
            .flat_map(|(k, v)| {
                let mut o = vec![];
                if v["vis"] == json!(-1) { o.push((k.clone(), "set_visible")); }
                if v["dsv"] == json!(-1) && ktype(k) != "zsk" { o.push((k.clone(), "set_ds_visible")); }
                if v["rsv"] == json!(-1) && ktype(k) != "ksk" { o.push((k.clone(), "set_rrsig_visible")); }
                o
            })
            .collect();
        let op: Value = if last_res == "panic" && !unset.is_empty() && rng.chance(3, 4) {
            let (k, name) = rng.pick(&unset).clone();
            json!({"op": name, "k": k, "age": rng.below(MAXTTL + 1)})
        } else if c < 12 {
            let k = *rng.pick(&UNIVERSE);
            let tag = if rng.chance(1, 12) { tag_of(*rng.pick(&UNIVERSE)) } else { tag_of(k) };
            json!({"op": "add", "k": k, "avail": !rng.chance(1, 10), "tag": tag})
        } else if c < 17 {
            // prefer deletable keys
            let stale: Vec<&String> = keys
                .iter()
                .filter(|(_, v)| v["a"]["old"] == json!(true) && v["a"]["present"] == json!(false))
                .map(|(k, _)| k)
                .collect();
            let k = if !stale.is_empty() && rng.chance(3, 4) {
                (*rng.pick(&stale)).clone()
            } else {
                rng.pick(&UNIVERSE).to_string()
            };
            json!({"op": "delete_key", "k": k})
        } else if c < 32 {
            let rt = *rng.pick(&ROLL_TYPES);
            if rng.chance(3, 4) {
                let fresh: Vec<String> = keys
                    .iter()
                    .filter(|(k, v)| {
                        type_ok(rt, ktype(k))
                            && v["a"]["avail"] == json!(true)
                            && v["a"]["old"] == json!(false)
                            && v["a"]["present"] == json!(false)
                            && v["a"]["signer"] == json!(false)
                            && v["a"]["at_parent"] == json!(false)
                    })
                    .map(|(k, _)| k.clone())
                    .collect();
                let inuse: Vec<String> = keys
                    .iter()
                    .filter(|(k, v)| {
                        type_ok(rt, ktype(k)) && v["a"]["old"] == json!(false) && v["a"]["present"] == json!(true)
                    })
                    .map(|(k, _)| k.clone())
                    .collect();
                let new = pick_some(&mut rng, &fresh, 2);
                // same algorithms out as in, most of the time
                let old: Vec<String> = if rng.chance(3, 4) && rt != "AlgorithmRoll" {
                    let mut o = vec![];
                    for n in &new {
                        if let Some(x) = inuse.iter().find(|x| {
                            kalg_num(x) == kalg_num(n) && ktype(x) == ktype(n) && !o.contains(*x)
                        }) {
                            o.push(x.clone());
                        }
                    }
                    o
                } else {
                    pick_some(&mut rng, &inuse, 2)
                };
                json!({"op": "start_roll", "rt": rt, "old": old, "new": new})
            } else {
                let u: Vec<String> = UNIVERSE.iter().map(|s| s.to_string()).collect();
                let mut old = pick_some(&mut rng, &u, 3);
                let new = pick_some(&mut rng, &u, 3);
                if rng.chance(1, 6) && !new.is_empty() {
                    old.push(new[0].clone());
                }
                if rng.chance(1, 8) && !old.is_empty() {
                    let d = old[0].clone();
                    old.push(d);
                }
                json!({"op": "start_roll", "rt": rt, "old": old, "new": new})
            }
        } else if c < 72 {
            let ttl = rng.below(MAXTTL + 1);
            if !active.is_empty() && rng.chance(9, 10) {
                let (rt, s) = rng.pick(&active).clone();
                let name = match s.as_str() {
                    "P1" => "propagation1_complete",
                    "CE1" => "cache_expired1",
                    "P2" => "propagation2_complete",
                    "CE2" => "cache_expired2",
                    _ => "roll_done",
                };
                json!({"op": name, "rt": rt, "ttl": ttl})
            } else {
                let name = *rng.pick(&[
                    "propagation1_complete",
                    "cache_expired1",
                    "propagation2_complete",
                    "cache_expired2",
                    "roll_done",
                ]);
                json!({"op": name, "rt": *rng.pick(&ROLL_TYPES), "ttl": ttl})
            }
        } else if c < 90 || !all {
            json!({"op": "tick"})
        } else {
            let k = if !keys.is_empty() && rng.chance(9, 10) {
                let names: Vec<&String> = keys.keys().collect();
                (*rng.pick(&names)).clone()
            } else {
                rng.pick(&UNIVERSE).to_string()
            };
            let name = *rng.pick(&[
                "set_present",
                "set_signer",
                "set_at_parent",
                "set_stale",
                "set_decoupled",
                "set_visible",
                "set_ds_visible",
                "set_rrsig_visible",
            ]);
            json!({"op": name, "k": k, "v": rng.chance(1, 2), "age": rng.below(MAXTTL + 1)})
        };
        let (res, ret) = apply(&mut ks, &op);
        if res == "ok" {
            oks += 1;
        }
        if !(op["op"].as_str().unwrap_or("").starts_with("set_") && last_res == "panic" && rng.chance(1, 2)) {
            last_res = res.clone();
        }
        let o = observation(&ks, &res, &ret, MAXTTL);
        w.event(json!({"op": op, "res": o["res"], "ret": o["ret"], "post": o["post"]}));
    }
    let n = w.finish();
    println!("{}", json!({"events": n, "ok": oks}));
}
