//! S->I executor for X10: the cases generated from spec/MC_NewNames.tla and
//! spec/MC_NewLabelBuf.tla performed on the real new-API types.
#[path = "../newname.rs"]
mod newname;
use verif_harness::common::*;

fn main() {
    run_cases(|input| newname::observe_case(input));
}
