//! S->I executor for IanaParams.tla cases (X14).
//!
//! code  {k:"code", ty, c}:  the value with code c written by every writer of
//!       the type (Display, to_mnemonic, ZonefileFmt token, serde_json) and
//!       every written form read back by every reader (FromStr, from_bytes,
//!       from_mnemonic, scan over an IterScanner, the zone-file reader,
//!       Deserialize); ==/Ord/Hash against the codes; the predicates.
//! text  {k:"text", ty, t}:  an arbitrary text through every reader; all
//!       routes that read the same form must agree ("routes" appears in the
//!       observation otherwise).
//! const {k:"const", ty, name}: the code of a named constant.
#[path = "../zf.rs"]
mod zf;
#[path = "../iana.rs"]
mod iana;
use domain::base::iana::*;
use iana::*;
use serde_json::{json, Value};
use verif_harness::common::*;

fn main() {
    run_cases(|input: &Value| {
        let obs = observe_case(input);
        // an optional registry row: the type without or with that row conforms
        if let Some(Value::Array(opts)) = input.get("opt") {
            if opts.iter().any(|o| same(o, &obs)) {
                return json!("conforms");
            }
            if let Some(Value::Object(m)) = input.get("optdev") {
                for (d, vs) in m.iter() {
                    if vs.as_array().map(|a| a.iter().any(|o| same(o, &obs))).unwrap_or(false) {
                        return json!({"conforms_dev": d});
                    }
                }
            }
        }
        obs
    });
}

fn observe_case(input: &Value) -> Value {
    {
        let ty = input["ty"].as_str().unwrap_or("");
        match input["k"].as_str().unwrap_or("") {
            "code" => {
                let c = input["c"].as_u64().unwrap_or(0) as u32;
                match ty {
                    "Rcode" => rcode_obs(c),
                    "OptRcode" => optrcode_obs(c),
                    "RType" | "RClass" => new_obs(ty, c),
                    _ => with_iana!(ty, code_obs, ty, c).unwrap_or(json!({"unknown_type": ty})),
                }
            }
            "text" => {
                let s = string_of(&input["t"]);
                match ty {
                    "Rcode" | "OptRcode" => rcode_text_obs(ty, &s),
                    _ => {
                        let mut o = with_iana!(ty, text_obs, ty, &s).unwrap_or(json!({"unknown_type": ty}));
                        // the decimal style's Deserialize takes numbers only and is not part of the case
                        if style_of(ty).0 == "decimal" {
                            if let Some(m) = o.as_object_mut() {
                                if m.get("de") == Some(&json!({"err": true})) { /* as specified */ }
                            }
                        }
                        o
                    }
                }
            }
            "const" => match const_of(ty, input["name"].as_str().unwrap_or("")) {
                Some(c) => json!({"ok": c}),
                None => json!({"no_such_constant": true}),
            },
            _ => json!({"bad_case": true}),
        }
    }
}
