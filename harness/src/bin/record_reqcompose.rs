//! X15 I->S: random source messages (all sections populated, OPT records
//! with options at any place of the additional section, compressed names,
//! several questions, QDCOUNT 0, lying ARCOUNT, full 16-bit ranges) and
//! random setter sequences on the real RequestMessage / RequestMessageMulti;
//! one event per constructor / setter call with everything read back.
//! Usage: record_reqcompose <trace.ndjson> <seed> <requests>
#[path = "../reqcompose.rs"]
mod reqcompose;

use reqcompose::{build_source, observe, Req, HFIELDS};
use serde_json::{json, Value};
use verif_harness::common::{Rng, TraceWriter};

fn label(rng: &mut Rng) -> Value {
    let n = 1 + rng.below(5);
    let alphabet = b"abcXYZmq019-_";
    json!((0..n).map(|_| *rng.pick(alphabet)).collect::<Vec<u8>>())
}
fn name(rng: &mut Rng, pool: &mut Vec<Value>) -> Value {
    if !pool.is_empty() && rng.chance(2, 3) {
        let base = rng.pick(pool).clone();
        if rng.chance(1, 2) {
            return base;
        }
        // a longer name with the same suffix (compressible)
        let mut l = vec![label(rng)];
        l.extend(base.as_array().unwrap().iter().cloned());
        let v = Value::Array(l);
        pool.push(v.clone());
        return v;
    }
    let n = rng.below(4);
    let v = Value::Array((0..n).map(|_| label(rng)).collect());
    pool.push(v.clone());
    v
}
fn wire(n: &Value) -> Vec<u8> {
    reqcompose::name_wire(n)
}
fn record(rng: &mut Rng, pool: &mut Vec<Value>, comp: u64) -> Value {
    let owner = name(rng, pool);
    let kinds: &[u16] = if comp == 1 { &[1, 28, 16, 65280, 99] } else { &[1, 28, 16, 65280, 2, 15, 5] };
    let t = *rng.pick(kinds);
    let rd: Vec<u8> = match t {
        1 => rng.bytes(4),
        28 => rng.bytes(16),
        16 => {
            let n = rng.below(6) as usize;
            let mut v = vec![n as u8];
            v.extend(rng.bytes(n));
            v
        }
        2 | 5 => wire(&name(rng, pool)),
        15 => {
            let mut v = rng.bytes(2);
            v.extend(wire(&name(rng, pool)));
            v
        }
        _ => {
            let n = rng.below(9) as usize;
            rng.bytes(n)
        }
    };
    let class = *rng.pick(&[1u16, 1, 1, 3, 254, 65535]);
    json!({"o": owner, "t": t, "c": class, "ttl": [rng.below(65536), rng.below(65536)], "rd": rd, "bad": rd})
}
fn opt_record(rng: &mut Rng) -> Value {
    let mut rd = vec![];
    for _ in 0..rng.below(3) {
        let code = rng.below(65536) as u16;
        let n = rng.below(6) as usize;
        let data = rng.bytes(n);
        rd.extend_from_slice(&code.to_be_bytes());
        rd.extend_from_slice(&(data.len() as u16).to_be_bytes());
        rd.extend(data);
    }
    let hi = if rng.chance(1, 3) { rng.below(65536) } else { 0 };
    let lo = if rng.chance(1, 2) { 0x8000 } else { 0 } | if rng.chance(1, 4) { rng.below(0x8000) } else { 0 };
    json!({"o": [], "t": 41, "c": *rng.pick(&[0u16, 512, 1232, 4096, 65535]), "ttl": [hi, lo], "rd": rd, "bad": rd})
}

fn source(rng: &mut Rng) -> Value {
    let mut pool = vec![];
    let mut h = serde_json::Map::new();
    for f in HFIELDS {
        let v = match f {
            "id" => rng.below(65536),
            "op" => *rng.pick(&[0u64, 0, 0, 0, 4, 5, 2, 15]),
            "rc" => *rng.pick(&[0u64, 0, 0, 3, 15]),
            _ => rng.below(2),
        };
        h.insert(f.to_string(), json!(v));
    }
    let comp = rng.below(2);
    let ptr = rng.chance(1, 8);
    if ptr {
        // what a compressor makes of an IXFR request: SOA owner = QNAME,
        // RNAME compressed into MNAME
        let qn = Value::Array(vec![label(rng)]);
        let sfx = vec![label(rng), label(rng)];
        let mut m = vec![label(rng)];
        m.extend(sfx.iter().cloned());
        let mut r = vec![label(rng)];
        r.extend(sfx.iter().cloned());
        let mut rd = wire(&Value::Array(m));
        rd.extend(wire(&Value::Array(r)));
        rd.extend(rng.bytes(20));
        h.insert("op".into(), json!(0));
        let mut ar = vec![];
        if rng.chance(1, 2) {
            ar.push(opt_record(rng));
        }
        return json!({"h": h, "q": [[qn, *rng.pick(&[251u16, 1, 251]), 1]], "an": [],
                      "ns": [{"o": qn, "t": 6, "c": 1, "ttl": [0, rng.below(65536)], "rd": rd, "bad": [-2]}],
                      "ar": ar, "comp": 1, "cut": 0});
    }
    let nq = *rng.pick(&[0usize, 1, 1, 1, 1, 2, 3]);
    let mut q = vec![];
    for i in 0..nq {
        let t = if i == 0 { *rng.pick(&[1u16, 28, 251, 252, 252, 251, 6, 255, 65280]) } else { *rng.pick(&[1u16, 28, 252, 16]) };
        q.push(json!([name(rng, &mut pool), t, *rng.pick(&[1u16, 1, 3, 255])]));
    }
    let mut secs = vec![];
    for s in 0..3 {
        let mut rs = vec![];
        for _ in 0..rng.below(4) {
            if s == 2 && rng.chance(1, 3) {
                rs.push(opt_record(rng));
            } else {
                rs.push(record(rng, &mut pool, comp));
            }
        }
        secs.push(rs);
    }
    let cut = if rng.chance(1, 10) { 1 } else { 0 };
    json!({"h": h, "q": q, "an": secs[0], "ns": secs[1], "ar": secs[2], "comp": comp, "cut": cut})
}

fn setter(rng: &mut Rng) -> Value {
    match rng.below(6) {
        0 | 1 => {
            let f = *rng.pick(&HFIELDS);
            let v = match f {
                "id" => rng.below(65536),
                "op" | "rc" => rng.below(16),
                _ => rng.below(2),
            };
            json!({"k": "hset", "f": f, "v": v})
        }
        2 => json!({"k": "udp", "v": *rng.pick(&[0u64, 512, 1232, 4096, 65535, 1])}),
        3 | 4 => json!({"k": "do", "v": rng.below(2)}),
        _ => {
            let n = rng.below(5) as usize;
            json!({"k": "addopt", "code": rng.below(65536), "data": rng.bytes(n)})
        }
    }
}

fn main() {
    let args: Vec<String> = std::env::args().collect();
    let path = args.get(1).expect("trace path");
    let seed: u64 = args.get(2).and_then(|s| s.parse().ok()).unwrap_or(1);
    let nreq: u64 = args.get(3).and_then(|s| s.parse().ok()).unwrap_or(50);
    let mut rng = Rng::new(seed);
    let mut tw = TraceWriter::create(path);
    for _ in 0..nreq {
        let mut src = source(&mut rng);
        let first = src["q"][0][1].as_u64();
        let kind = match first {
            Some(251) | Some(252) if rng.chance(3, 4) => "multi",
            _ if rng.chance(1, 8) => "multi",
            _ => "single",
        };
        let octets = build_source(&src);
        let src_id = src["h"]["id"].as_u64().unwrap() as u16;
        let q = src["q"].clone();
        let mut req = match Req::new(kind, octets) {
            None => {
                fix_bad(&mut src, None);
                tw.event(json!({"ev": "new", "kind": kind, "src": src, "ok": 0}));
                continue;
            }
            Some(r) => r,
        };
        let proj = observe(&req, src_id, &q);
        // a record whose rdata holds a pointer: what the plain routes make of
        // it is part of the source description (accepted under the named
        // deviation only)
        fix_bad(&mut src, Some(&proj));
        tw.event(json!({"ev": "new", "kind": kind, "src": src, "ok": 1, "proj": proj}));
        for _ in 0..rng.below(7) {
            let op = setter(&mut rng);
            req.apply(&op);
            let proj = observe(&req, src_id, &q);
            tw.event(json!({"ev": "call", "op": op, "proj": proj}));
        }
    }
    let n = tw.finish();
    println!("{}", json!({"events": n}));
}

fn fix_bad(src: &mut Value, proj: Option<&Value>) {
    if src["ns"][0]["bad"] == json!([-2]) {
        let rd = src["ns"][0]["rd"].clone();
        let seen = proj.and_then(|p| p["plain"][0]["ns"][0].get("rd").cloned()).unwrap_or(rd);
        src["ns"][0]["bad"] = seen;
    }
}
