//! I->S recorder for the stream transport: long seeded runs with many
//! concurrent requests against a scripted hostile peer.  Events are taken
//! from the harness side only (what was done to the transport, and what was
//! then observed); `Trace_ClientStream.tla` validates them.
//!
//! usage: record_client <trace.ndjson> <seed> <events> <rt> <idle> <max_per_conn>
//!        record_client balance <trace.ndjson> <seed> <scenarios>
//!        record_client multi <trace.ndjson> <seed> <scenarios> <tickms> <max requests per scenario>
#[path = "../client.rs"]
mod client;

use client::*;
use serde_json::{json, Value};
use verif_harness::common::{Rng, TraceWriter};

const NOMSG: &str = r#"{"id":0,"qr":false,"q":0,"rcode":0,"body":false,"tc":false,"ka":-1,"recs":[]}"#;

struct Rec {
    s: StreamSession,
    seen_out: usize,
    seen_done: usize,
    /// requests the peer has seen and that are not completed: (r, id, q)
    outstanding: Vec<(u64, u64, u64)>,
    sent_frames: Vec<Value>,
    nreq: u64,
    dead: bool,
    dropped: bool,
    stalled: bool,
    unwritten: std::collections::VecDeque<(u64, u64)>,
}

impl Rec {
    fn observe(&mut self, mut ev: Value, w: &mut TraceWriter) {
        let (frames, _) = self.s.peer.frames();
        let out: Vec<Value> = frames[self.seen_out..].iter().map(|f| abstract_request(f)).collect();
        // the peer learns the IDs from what the client wrote (requests are
        // written in the order they were submitted)
        for a in out.iter() {
            if let Some((r, q)) = self.unwritten.pop_front() {
                self.outstanding.push((r, a["id"].as_u64().unwrap_or(0), q));
            }
        }
        self.seen_out = frames.len();
        let comp = self.s.comp.lock().unwrap();
        let mut done = vec![];
        for (r, o, _) in comp[self.seen_done..].iter() {
            let eof = o.get("eof").is_some();
            let (ok, f) = match o.get("ok") {
                Some(f) => (true, f.clone()),
                None => (false, serde_json::from_str(NOMSG).unwrap()),
            };
            done.push(json!({"r": r, "ok": ok, "eof": eof, "f": f}));
            // a transfer stays outstanding until its end mark or an error
            let multi = self.outstanding.iter().any(|x| x.0 == *r && x.2 >= 500);
            if !multi || eof || !ok {
                self.outstanding.retain(|x| x.0 != *r);
            }
        }
        self.seen_done = comp.len();
        drop(comp);
        let closed = self.s.peer.client_closed();
        if closed {
            self.dead = true;
        }
        ev["out"] = json!(out);
        ev["done"] = json!(done);
        ev["closed"] = json!(closed);
        let (_, partial) = self.s.peer.frames();
        ev["partial"] = json!(partial != 0 && !closed);
        if self.s.hang {
            ev["hang"] = json!(true);
        }
        if !self.s.clock.in_step() {
            ev["clock_drift"] = json!(true);
        }
        w.event(ev);
    }
}

fn msg(id: u64, qr: bool, q: u64, rcode: u64, body: bool, ka: i64) -> Value {
    json!({"id": id, "qr": qr, "q": q, "rcode": rcode, "body": body, "tc": false, "ka": ka, "recs": []})
}

fn xfr_msg(id: u64, q: u64, recs: &[i64]) -> Value {
    json!({"id": id, "qr": true, "q": q, "rcode": 0, "body": !recs.is_empty(), "tc": false, "ka": -1,
           "recs": recs})
}


/// redundant / load_balancer over scripted upstreams: seeded scenarios,
/// events: reset, add, submit, asked, resolve, done, tick.
fn record_balance(path: &str, seed: u64, nscen: u64) {
    use domain::net::client::request::{ComposeRequest, RequestMessage, SendRequest};
    use domain::net::client::{load_balancer, redundant};
    use std::sync::{Arc, Mutex};
    type Req = RequestMessage<Vec<u8>>;
    enum Bal {
        Lb(load_balancer::Connection<Req>),
        Red(redundant::Connection<Req>),
    }
    std::panic::set_hook(Box::new(|_| {}));
    let mut rng = Rng::new(seed);
    let mut w = TraceWriter::create(path);
    let rt = runtime();
    let mut panics = 0u64;
    rt.block_on(async {
        for scen in 0..nscen {
            // the first scenarios are fixed: no upstream at all; one upstream
            // with max_burst 1 and a quick series of requests
            let (lb, n, fixed_mb) = match scen {
                0 => (true, 0usize, None),
                1 => (false, 0usize, None),
                2 => (true, 1usize, Some(1i64)),
                3 => (true, 2usize, Some(0i64)),
                _ => (rng.chance(2, 3), rng.below(4) as usize, None),
            };
            let (de, dr, ds) = (rng.chance(1, 2), rng.chance(1, 2), rng.chance(1, 2));
            let nreq = 4u64;
            let act = Activity::default();
            let mut clock = Clock::new();
            let shared = Arc::new(Mutex::new(UpShared::default()));
            w.event(json!({"ev": "reset", "kind": if lb { "lb" } else { "red" },
                           "de": de, "dr": dr, "ds": ds, "nreq": nreq}));
            let (bal, th) = if lb {
                let mut cfg = load_balancer::Config::default();
                cfg.set_defer_transport_error(de);
                cfg.set_defer_refused(dr);
                cfg.set_defer_servfail(ds);
                let (c, t) = load_balancer::Connection::<Req>::with_config(cfg);
                (Bal::Lb(c), tokio::spawn(counted(t.run(), &act)))
            } else {
                let mut cfg = redundant::Config::default();
                cfg.set_defer_transport_error(de);
                cfg.set_defer_refused(dr);
                cfg.set_defer_servfail(ds);
                let (c, t) = redundant::Connection::<Req>::with_config(cfg);
                (Bal::Red(c), tokio::spawn(counted(t.run(), &act)))
            };
            for u in 1..=n {
                let up = Box::new(MockUpstream { u, shared: shared.clone(), act: act.clone() });
                let (mb, iv) = if lb {
                    (fixed_mb.unwrap_or(*rng.pick(&[-1i64, -1, 0, 1, 2])), 1 + rng.below(2))
                } else {
                    (-1, 1)
                };
                // the upstream's ConnConfig is made by a configuration script
                // (ClientConfig.tla: CcRun); the burst limit in force is what
                // the script leaves.  Half a tick short: `elapsed >
                // burst_interval` is decided on whole ticks.
                let real_iv = (TICK * (iv as u32) - TICK / 2).as_millis() as u64;
                let mut cc = load_balancer::ConnConfig::new();
                let calls = if !lb {
                    json!([])
                } else {
                    match rng.below(8) {
                        // below the range: capped to 1 ms, over at the next tick
                        0 | 1 if iv == 1 => json!([{"f": "set_burst_interval", "v": rng.below(2)},
                                                   {"f": "set_max_burst", "v": mb}]),
                        // set twice, the first time beyond the range
                        2 => json!([{"f": "set_max_burst", "v": 7}, {"f": "set_burst_interval", "v": 7_200_000},
                                    {"f": "set_max_burst", "v": mb}, {"f": "set_burst_interval", "v": real_iv}]),
                        // the default interval (1 s): over at the next tick
                        3 if iv == 1 => json!([{"f": "set_max_burst", "v": mb}]),
                        // nothing set at all: no limit
                        4 if mb < 0 && iv == 1 => json!([]),
                        _ => json!([{"f": "set_max_burst", "v": mb}, {"f": "set_burst_interval", "v": real_iv}]),
                    }
                };
                if !cc_apply(&mut cc, &json!({"calls": calls})) {
                    panic!("configuration script");
                }
                let eff = cc_eff(&mut cc);
                match &bal {
                    Bal::Lb(c) => {
                        let _ = c.add(&format!("up{}", u), &cc, up).await;
                    }
                    Bal::Red(c) => {
                        let _ = c.add(up).await;
                    }
                }
                w.event(json!({"ev": "add", "calls": calls, "eff": eff, "mb": mb, "iv": iv}));
            }
            settle(&act).await;
            let comp: Arc<Mutex<Vec<(u64, Value)>>> = Arc::new(Mutex::new(vec![]));
            let mut handles: Vec<(u64, tokio::task::JoinHandle<()>)> = vec![];
            let mut seen_asked = 0usize;
            let mut seen_done = 0usize;
            let mut next_r = 1u64;
            let nops = 10 + rng.below(10);
            for step in 0..nops + 1 {
                let last = step == nops;
                // drop pending entries nobody waits for any more
                shared.lock().unwrap().pending.retain(|p| !p.tx.is_closed());
                let npend = shared.lock().unwrap().pending.len();
                let roll = rng.below(100);
                let quick = scen == 2 || scen == 3;
                let ev;
                if !last && next_r <= nreq && (roll < 35 || (quick && next_r <= 3)) {
                    let r = next_r;
                    next_r += 1;
                    let mut req = build_request(r);
                    req.header_mut().set_id(100 + r as u16);
                    let mut gr = match &bal {
                        Bal::Lb(c) => c.send_request(req),
                        Bal::Red(c) => c.send_request(req),
                    };
                    let comp2 = comp.clone();
                    let h = tokio::spawn(counted(
                        async move {
                            let res = gr.get_response().await;
                            comp2.lock().unwrap().push((r, balance_outcome(&res, r)));
                        },
                        &act,
                    ));
                    handles.push((r, h));
                    ev = json!({"ev": "submit", "r": r});
                } else if npend > 0 && (last || roll < 75) {
                    if last {
                        // wind up: every upstream that was asked hands back something
                        // (one at a time, each is its own event below)
                    }
                    let i = rng.below(npend as u64) as usize;
                    let p = shared.lock().unwrap().pending.remove(i);
                    let k = *rng.pick(&["answer", "answer", "servfail", "refused", "error"]);
                    let _ = p.tx.send(k.to_string());
                    ev = json!({"ev": "resolve", "u": p.u, "r": p.r, "k": k});
                } else {
                    clock.advance(TICK).await;
                    ev = json!({"ev": "tick"});
                }
                let hang = !settle(&act).await;
                w.event(ev);
                {
                    let g = shared.lock().unwrap();
                    for (u, r) in g.asked[seen_asked..].iter() {
                        w.event(json!({"ev": "asked", "u": u, "r": r}));
                    }
                    seen_asked = g.asked.len();
                }
                {
                    let g = comp.lock().unwrap();
                    for (r, o) in g[seen_done..].iter() {
                        let mut e = o.clone();
                        e["ev"] = json!("done");
                        e["r"] = json!(r);
                        w.event(e);
                    }
                    seen_done = g.len();
                }
                // a request future that panicked is an observation
                let mut i = 0;
                while i < handles.len() {
                    if handles[i].1.is_finished() {
                        let (r, h) = handles.remove(i);
                        if h.await.is_err() {
                            panics += 1;
                            w.event(json!({"ev": "done", "r": r, "ok": false, "src": 0,
                                           "kind": "panic", "own": false, "panic": true}));
                        }
                    } else {
                        i += 1;
                    }
                }
                if th.is_finished() {
                    w.event(json!({"ev": "transport_ended"}));
                }
                if hang || !clock.in_step() {
                    w.event(json!({"ev": "harness_trouble", "hang": hang}));
                }
            }
        }
        w.event(json!({"ev": "reset", "kind": "lb", "de": false, "dr": false, "ds": false, "nreq": 1}));
    });
    let n = w.finish();
    println!("{}", json!({"events": n, "panics": panics}));
}

/// I->S for multi_stream under connection-establishment faults on a fine
/// clock (ticks of `tickms`, shorter than the back-off): seeded scenarios
/// over a connector whose connect() fails / succeeds on demand; after every
/// step the harness logs what it can see.  `Trace_ClientMulti.tla` validates.
fn record_multi(path: &str, seed: u64, nscen: u64, tickms: u64, maxreq: u64) {
    use domain::net::client::multi_stream;
    use domain::net::client::request::SendRequest;
    use std::sync::{Arc, Mutex};
    use std::time::Duration;
    type Req = domain::net::client::request::RequestMessage<Vec<u8>>;
    const NREQ: usize = 2;
    let mut rng = Rng::new(seed);
    let mut w = TraceWriter::create(path);
    let tick = Duration::from_millis(tickms);
    // response timeouts (ms): the lower end of the range, below / about /
    // above the first back-offs (2 s, 4 s, 8 s ...), the default (never set)
    let rts: Vec<i64> = if tickms < 1000 {
        vec![1, 300, 900, 1000, 2000, 2600, 5000, 9000]
    } else {
        vec![1, 4000, 9000, 20000, 30000, -1, 50000, 100000]
    };
    let mut stats = json!({"timeout_in_backoff": 0, "reconnect_after_backoff": 0, "ok_after_failure": 0,
                           "late": 0, "scenarios": 0, "ticks": 0, "hang": 0, "clock_drift": 0});
    let mut rt_seen = std::collections::BTreeSet::new();
    let bump = |st: &mut Value, k: &str| {
        st[k] = json!(st[k].as_u64().unwrap() + 1);
    };
    for _ in 0..nscen {
        // a runtime (and paused clock) of its own for every scenario
        let rt = runtime();
        let rtms = *rng.pick(&rts);
        let route = *rng.pick(&["from", "default"]);
        let calls = if rtms < 0 { json!([]) } else { json!([{"f": "set_response_timeout", "v": rtms}]) };
        let conf = json!({"route": route, "calls": calls,
                          "st": {"route": "new", "calls": [{"f": "set_response_timeout", "v": 595000},
                                                          {"f": "set_idle_timeout", "v": 3600000}]}});
        let fail_bias = 40 + rng.below(50);
        let nsub = 1 + rng.below(maxreq.min(NREQ as u64)) as usize;
        let conf2 = conf.clone();
        let events: Vec<Value> = rt.block_on(async {
            let mut evs = vec![];
            let act = Activity::default();
            let connector = StreamConnector::new(&act);
            let mcfg = ms_config(&conf2).expect("configuration script");
            let eff = ms_eff(&mcfg);
            let (conn, transport) = multi_stream::Connection::<Req>::with_config(connector.clone(), mcfg);
            tokio::spawn(counted(transport.run(), &act));
            let comp: Completions = Arc::new(Mutex::new(vec![]));
            let mut clock = Clock::new();
            let mut now: u64 = 0;
            let mut t_submit = vec![0u64; NREQ + 1];
            let mut t_done = vec![-1i64; NREQ + 1];
            let mut submitted = 0usize;
            let mut closed: Vec<bool> = vec![];
            let mut hang = !settle(&act).await;
            evs.push(json!({"ev": "init", "conf": conf2, "eff": eff}));
            let mut steps = 0;
            loop {
                steps += 1;
                let ndone = comp.lock().unwrap().len();
                if (submitted == nsub && ndone >= submitted) || steps > 400 {
                    break;
                }
                while closed.len() < connector.npeers() {
                    closed.push(false);
                }
                // who waits where: request r written on a live connection and not completed
                let is_done = |r: usize| comp.lock().unwrap().iter().any(|(x, _, _)| *x as usize == r);
                let mut waiting: Vec<(usize, usize)> = vec![];
                for c in 0..connector.npeers() {
                    if closed[c] {
                        continue;
                    }
                    let p = connector.peer(c).unwrap();
                    for r in 1..=submitted {
                        if !is_done(r) && times_written(&p, r as u64) > 0 {
                            waiting.push((c, r));
                        }
                    }
                }
                let active = (1..=submitted).any(|r| !is_done(r));
                let pending = connector.has_pending();
                // choose a step
                let mut ev = if pending && rng.chance(85, 100) {
                    if rng.chance(fail_bias, 100) { json!({"ev": "conn_fail"}) } else { json!({"ev": "conn_ok"}) }
                } else if !waiting.is_empty() && rng.chance(70, 100) {
                    let (c, r) = *rng.pick(&waiting);
                    if rng.chance(fail_bias, 100) {
                        json!({"ev": "close", "c": c + 1})
                    } else if rng.chance(85, 100) {
                        json!({"ev": "reply", "r": r, "c": c + 1})
                    } else {
                        json!({"ev": "wrong", "r": r, "c": c + 1})
                    }
                } else if submitted < nsub && (!active || rng.chance(25, 100)) {
                    json!({"ev": "submit", "r": submitted + 1, "q": submitted + 1})
                } else if active {
                    json!({"ev": "tick"})
                } else {
                    continue;
                };
                let nconnect_before = connector.calls();
                let in_backoff: Vec<usize> = (1..=submitted)
                    .filter(|r| !is_done(*r) && !pending && !waiting.iter().any(|(_, x)| x == r))
                    .collect();
                match ev["ev"].as_str().unwrap() {
                    "submit" => {
                        let r = ev["r"].as_u64().unwrap();
                        let req = SendRequest::send_request(&conn, build_request(r));
                        spawn_waiter(req, r, &comp, &act);
                        t_submit[r as usize] = now;
                        submitted += 1;
                    }
                    "conn_ok" => {
                        connector.resolve(true);
                    }
                    "conn_fail" => {
                        connector.resolve(false);
                    }
                    "reply" | "wrong" => {
                        let c = ev["c"].as_u64().unwrap() as usize - 1;
                        let r = ev["r"].as_u64().unwrap();
                        let peer = connector.peer(c).unwrap();
                        let id = id_of_request(&peer, r).unwrap();
                        let q = if ev["ev"] == "reply" { r } else { r + 10 };
                        let f = json!({"id": id, "qr": true, "q": q, "rcode": 0, "body": false, "tc": false, "ka": -1});
                        peer.push_frame(&build_peer_msg(&f));
                    }
                    "close" => {
                        let c = ev["c"].as_u64().unwrap() as usize - 1;
                        connector.peer(c).unwrap().close();
                        closed[c] = true;
                    }
                    _ => {
                        clock.advance(tick).await;
                        now += 1;
                    }
                }
                if !hang && !settle(&act).await {
                    hang = true;
                }
                let written: Vec<Vec<bool>> = (0..connector.npeers())
                    .map(|i| {
                        let p = connector.peer(i).unwrap();
                        (1..=NREQ as u64).map(|q| times_written(&p, q) > 0).collect()
                    })
                    .collect();
                let mut done: Vec<Vec<Value>> = vec![vec![]; NREQ];
                let mut fresh_done: Vec<(usize, bool)> = vec![];
                for (r, o, _) in comp.lock().unwrap().iter() {
                    let r = *r as usize;
                    if t_done[r] < 0 {
                        t_done[r] = (now - t_submit[r]) as i64;
                        fresh_done.push((r, o.get("ok").is_some()));
                    }
                    done[r - 1].push(json!({"ok": o.get("ok").is_some(), "t": t_done[r]}));
                }
                ev["obs"] = json!({"nconnect": connector.calls(), "pending": connector.has_pending(),
                                   "written": written, "done": done});
                if hang {
                    ev["obs"]["hang"] = json!(true);
                }
                if !clock.in_step() {
                    ev["obs"]["clock_drift"] = json!(true);
                }
                // statistics for the vacuity guards (harness side only)
                if ev["ev"] == "tick" {
                    if connector.calls() > nconnect_before && !in_backoff.is_empty() {
                        evs.push(json!({"stat": "reconnect_after_backoff"}));
                    }
                    for (r, ok) in fresh_done.iter() {
                        if !*ok && in_backoff.contains(r) {
                            evs.push(json!({"stat": "timeout_in_backoff", "rt": eff["rt"]}));
                        }
                    }
                }
                for (_, ok) in fresh_done.iter() {
                    if *ok && connector.calls() > 1 {
                        evs.push(json!({"stat": "ok_after_failure"}));
                    }
                }
                evs.push(ev);
            }
            if hang {
                evs.push(json!({"stat": "hang"}));
            }
            evs
        });
        bump(&mut stats, "scenarios");
        for ev in events {
            if let Some(k) = ev.get("stat").and_then(|k| k.as_str()) {
                bump(&mut stats, k);
                if k == "timeout_in_backoff" {
                    rt_seen.insert(ev["rt"].as_u64().unwrap());
                }
                continue;
            }
            if ev["ev"] == "tick" {
                bump(&mut stats, "ticks");
            }
            w.event(ev);
        }
    }
    let n = w.finish();
    stats["events"] = json!(n);
    stats["timeout_in_backoff_rts"] = json!(rt_seen.into_iter().collect::<Vec<_>>());
    println!("{}", stats);
}

fn main() {
    let args: Vec<String> = std::env::args().collect();
    if args[1] == "multi" {
        if !freeze_clock() {
            eprintln!("clock interposition does not work on this platform");
            std::process::exit(2);
        }
        record_multi(&args[2], args[3].parse().unwrap(), args[4].parse().unwrap(), args[5].parse().unwrap(),
                     args[6].parse().unwrap());
        return;
    }
    if args[1] == "balance" {
        if !freeze_clock() {
            eprintln!("clock interposition does not work on this platform");
            std::process::exit(2);
        }
        record_balance(&args[2], args[3].parse().unwrap(), args[4].parse().unwrap());
        return;
    }
    let path = &args[1];
    let seed: u64 = args[2].parse().unwrap();
    let nevents: u64 = args[3].parse().unwrap();
    let rt_ticks: u64 = args[4].parse().unwrap();
    let idle_ticks: u64 = args[5].parse().unwrap();
    let max_per_conn: u64 = args[6].parse().unwrap();
    if !freeze_clock() {
        eprintln!("clock interposition does not work on this platform");
        std::process::exit(2);
    }
    let mut rng = Rng::new(seed);
    let mut w = TraceWriter::create(path);
    let rt = runtime();
    let mut max_conc = 0usize;
    rt.block_on(async {
        let nq = 5u64;
        let mut total = 0u64;
        while total < nevents {
            // a new connection
            let wchunk = if rng.chance(1, 2) { 7 } else { 65536 };
            // the configuration of this connection: mostly the timeouts given
            // on the command line; sometimes a streaming timeout of its own,
            // values beyond the ends of the ranges (capped), the defaults,
            // or no configuration object at all
            let t = TICK.as_millis() as u64;
            let conf = match rng.below(12) {
                0 => StreamSession::conf_of(rt_ticks, rt_ticks + 1, idle_ticks),
                1 => StreamSession::conf_of(rt_ticks, 1, idle_ticks),
                2 => json!({"route": "default", "calls": []}),
                3 => json!({"route": "conn_new", "calls": []}),
                4 => json!({"route": "new", "calls": [
                    {"f": "set_idle_timeout", "v": 7_200_000},
                    {"f": "set_response_timeout", "v": 700_000},
                    {"f": "set_response_timeout", "v": rt_ticks * t - t / 2}]}),
                5 => json!({"route": "default", "calls": [
                    {"f": "set_streaming_response_timeout", "v": 0},
                    {"f": "set_idle_timeout", "v": 0},
                    {"f": "set_response_timeout", "v": 2 * t - t / 2},
                    {"f": "set_streaming_response_timeout", "v": t - t / 2}]}),
                _ => StreamSession::conf_of(rt_ticks, rt_ticks, idle_ticks),
            };
            let (mut s, eff) = StreamSession::with_conf(&conf, wchunk).expect("configuration script");
            s.settle().await;
            let mut rc = Rec {
                s,
                seen_out: 0,
                seen_done: 0,
                outstanding: vec![],
                sent_frames: vec![],
                nreq: 0,
                dead: false,
                dropped: false,
                stalled: false,
                unwritten: Default::default(),
            };
            w.event(json!({"ev": "reset", "conf": conf, "eff": eff}));
            total += 1;
            // how many requests this connection wants outstanding at once
            let target = *rng.pick(&[3usize, 12, 50, 50, 64]);
            let mut after_dead = 0;
            while total < nevents {
                if rc.dead {
                    // a few more events on the dead connection, then a new one
                    after_dead += 1;
                    if after_dead > 3 {
                        break;
                    }
                }
                max_conc = max_conc.max(rc.outstanding.len());
                let roll = rng.below(1000);
                let want_submit = !rc.dropped
                    && rc.nreq < max_per_conn
                    && (rc.outstanding.len() < target && roll < 600 || roll < 40);
                let ev;
                if want_submit {
                    rc.nreq += 1;
                    // one request in twelve is a zone transfer (AXFR 500+n, IXFR 600+n)
                    let q = match rng.below(12) {
                        0 => 500 + 1 + rng.below(nq),
                        1 => 600 + 1 + rng.below(nq),
                        _ => 1 + rng.below(nq),
                    };
                    let r = rc.nreq;
                    rc.s.submit(r, q);
                    rc.unwritten.push_back((r, q));
                    rc.s.settle().await;
                    ev = json!({"ev": "submit", "r": r, "q": q});
                } else if roll % 40 == 7 {
                    // the peer stops / resumes taking octets
                    rc.stalled = !rc.stalled;
                    rc.s.peer.write_credit(if rc.stalled { Some(4 + rng.below(8) as usize) } else { None });
                    rc.s.settle().await;
                    ev = json!({"ev": if rc.stalled { "stall" } else { "unstall" }});
                } else if roll < 972 {
                    // one message, or a burst, from the hostile peer
                    let n = if rng.chance(1, 12) { 2 + rng.below(11) } else { 1 };
                    let mut fs = vec![];
                    for _ in 0..n {
                        let kind = rng.below(100);
                        let pick = if rc.outstanding.is_empty() {
                            None
                        } else {
                            Some(rc.outstanding[rng.below(rc.outstanding.len() as u64) as usize])
                        };
                        const XRECS: [&[i64]; 7] = [&[1], &[0], &[1, 0], &[0, 1], &[1, 0, 1], &[2], &[1, 2, 0]];
                        let f = match (kind, pick) {
                            (0..=79, Some((_, id, q))) if q >= 500 => {
                                let recs = XRECS[rng.below(7) as usize];
                                xfr_msg(id, if rng.chance(1, 3) { 0 } else { q }, recs)
                            }
                            (0..=54, Some((_, id, q))) => msg(id, true, q, 0, true, -1),
                            (55..=59, Some((_, id, q))) => msg(id, true, q, 2, false, -1),
                            (60..=64, Some((_, id, _))) => msg(id, true, 0, 2, false, -1),
                            (65..=66, Some((_, id, q))) => msg(id, true, 1 + (q % nq), 0, true, -1),
                            (67..=68, Some((_, id, q))) if q < 100 => {
                                msg(id, true, q + 100 * (1 + rng.below(4)), 0, true, -1)
                            }
                            (69..=70, Some((_, id, _))) => msg(id, true, 0, 0, false, -1),
                            (71..=72, Some((_, id, _))) => msg(id, true, 0, 2, true, -1),
                            (73..=75, Some((_, id, q))) => msg(id, false, q, 0, false, -1),
                            (76..=79, Some((_, id, q))) => msg(id, true, q, 0, true, rng.below(4) as i64),
                            (80..=91, _) if !rc.sent_frames.is_empty() => {
                                rc.sent_frames[rng.below(rc.sent_frames.len() as u64) as usize].clone()
                            }
                            _ => msg(rng.below(140), true, 1 + rng.below(nq), 0, true, -1),
                        };
                        rc.sent_frames.push(f.clone());
                        fs.push(f);
                    }
                    if fs.len() == 1 {
                        let split = rng.chance(1, 4);
                        rc.s.peer_msg(&fs[0], split).await;
                        ev = json!({"ev": "peer", "f": fs[0]});
                    } else {
                        let mut bytes = vec![];
                        for f in &fs {
                            let m = build_peer_msg(f);
                            bytes.extend_from_slice(&(m.len() as u16).to_be_bytes());
                            bytes.extend_from_slice(&m);
                        }
                        rc.s.peer.push(&bytes);
                        ev = json!({"ev": "burst", "fs": fs});
                    }
                    rc.s.settle().await;
                } else if roll < 992 {
                    rc.s.tick().await;
                    rc.s.settle().await;
                    ev = json!({"ev": "tick"});
                } else if roll < 997 && !rc.dead {
                    let how = *rng.pick(&["eof", "short", "trunc"]);
                    rc.s.peer_end(how);
                    rc.s.settle().await;
                    rc.dead = true; // the peer cannot send any more
                    ev = json!({"ev": "end", "how": how});
                } else if roll < 998 {
                    rc.s.peer.stop_reading();
                    rc.s.settle().await;
                    ev = json!({"ev": "wfail"});
                } else {
                    rc.s.drop_handles();
                    rc.dropped = true;
                    rc.s.settle().await;
                    ev = json!({"ev": "drop"});
                }
                rc.observe(ev, &mut w);
                total += 1;
            }
        }
    });
    let n = w.finish();
    println!("{}", json!({"events": n, "max_concurrent": max_conc}));
}
