//! I->S recorder for C12 / C13.
//!   record_dnssec rrsig  <out.ndjson> <seed> <n-rrsets>
//!   record_dnssec denial <out.ndjson> <seed> <n-zones> <max-names>
//! rrsig: random RRsets of many types are signed through the library with a
//! recording key (event "sign": inputs, RRSIG fields, captured buffer), then
//! sent through random resolver-side transforms or one alteration and
//! rebuilt with RrsigExt::signed_data (event "validate").
#[path = "../dnssec.rs"]
mod dnssec;

use bytes::Bytes;
use dnssec::*;
use dnssec::denial;
use domain::base::name::ToName;
use domain::dnssec::sign::keys::signingkey::SigningKey;
use domain::dnssec::sign::records::{Rrset, SortedRecords};
use std::panic::{catch_unwind, AssertUnwindSafe};
use domain::dnssec::sign::signatures::rrsigs::{sign_rrset, sign_sorted_rrset_in};
use domain::dnssec::validator::base::RrsigExt;
use domain::rdata::dnssec::Timestamp;
use domain::rdata::Rrsig;
use serde_json::{json, Value};
use verif_harness::common::{quiet_panics, Rng, TraceWriter};

const EDGE: [u8; 12] = [0x40, 0x41, 0x5A, 0x5B, 0x60, 0x61, 0x7A, 0x7B, 0xC1, 0xE1, 0x2D, 0x30];

fn label(rng: &mut Rng) -> Vec<u8> {
    let n = if rng.chance(1, 30) { 63 } else { 1 + rng.below(6) as usize };
    (0..n)
        .map(|_| {
            if rng.chance(1, 8) {
                *rng.pick(&EDGE)
            } else if rng.chance(1, 2) {
                b'a' + rng.below(26) as u8
            } else {
                b'A' + rng.below(26) as u8
            }
        })
        .collect()
}

fn jlabels(ls: &[Vec<u8>]) -> Value {
    Value::Array(ls.iter().map(|l| jbytes(l)).collect())
}

fn name(rng: &mut Rng, max_labels: u64) -> Vec<Vec<u8>> {
    let n = rng.below(max_labels + 1);
    (0..n).map(|_| label(rng)).collect()
}

fn raw(o: Vec<u8>) -> Value {
    json!({"k": "raw", "o": jbytes(&o), "n": []})
}
fn nm(n: &[Vec<u8>]) -> Value {
    json!({"k": "name", "o": [], "n": jlabels(n)})
}

/// distinct-making name: first label carries the index
fn iname(rng: &mut Rng, i: usize) -> Vec<Vec<u8>> {
    let mut n = name(rng, 3);
    let mut first = label(rng);
    first.truncate(20);
    first.push(b'0' + i as u8);
    n.insert(0, first);
    n
}

fn charstr(rng: &mut Rng) -> Vec<u8> {
    let n = rng.below(12) as usize;
    let mut v = vec![n as u8];
    v.extend((0..n).map(|_| if rng.chance(1, 2) { b'a' + rng.below(26) as u8 } else { b'A' + rng.below(26) as u8 }));
    v
}

/// a short character string of random length (0..4 letters), optionally
/// ending in the record's index
fn istr(rng: &mut Rng, idx: Option<u8>) -> Vec<u8> {
    let n = rng.below(4) as usize;
    let mut v = vec![0u8];
    v.extend((0..n).map(|_| b'a' + rng.below(3) as u8));
    if let Some(i) = idx {
        v.push(b'0' + i);
    }
    v[0] = (v.len() - 1) as u8;
    v
}

const TYPES: [u16; 18] = [1, 28, 2, 5, 12, 39, 15, 6, 16, 33, 14, 35, 47, 48, 43, 257, 65280, 13];

/// field-structured RDATA number `i` of an RRset of type `t`
fn rdata(rng: &mut Rng, t: u16, i: usize) -> Value {
    let ib = i as u8;
    match t {
        1 => json!([raw(vec![rng.next() as u8, rng.next() as u8, rng.next() as u8, ib])]),
        28 => {
            let mut v = rng.bytes(16);
            v[rng.below(16) as usize] = 0;
            v[15] = ib;
            json!([raw(v)])
        }
        2 | 5 | 12 | 39 => json!([nm(&iname(rng, i))]),
        15 => json!([raw(vec![rng.below(2) as u8, rng.below(3) as u8]), nm(&iname(rng, i))]),
        6 => json!([nm(&name(rng, 3)), nm(&name(rng, 3)), raw(rng.bytes(20))]),
        16 => {
            let mut v = vec![];
            for _ in 0..1 + rng.below(3) {
                v.extend(charstr(rng));
            }
            v.extend([1, b'0' + ib]);
            json!([raw(v)])
        }
        33 => json!([raw(vec![0, rng.below(3) as u8, 0, rng.below(3) as u8, rng.next() as u8, ib]), nm(&name(rng, 3))]),
        14 => json!([nm(&iname(rng, i)), nm(&name(rng, 3))]),
        13 => {
            // HINFO: the records differ first in character strings of
            // different lengths (the length octet sorts first, RFC 4034 6.3)
            let first = if rng.chance(1, 2) { Some(ib) } else { None };
            let mut v = istr(rng, first);
            v.extend(istr(rng, Some(ib)));
            json!([raw(v)])
        }
        35 => {
            // order / preference often equal within the RRset: the character
            // strings (of different lengths) decide the order
            let mut v = vec![0, rng.below(2) as u8, 0, rng.below(2) as u8];
            let first = if rng.chance(1, 2) { Some(ib) } else { None };
            v.extend(istr(rng, first));
            v.extend(istr(rng, Some(ib)));
            v.extend(charstr(rng));
            json!([raw(v), nm(&name(rng, 3))])
        }
        47 => {
            // a valid type bitmap: window 0 and possibly window 1
            let mut bm = vec![0, 1 + rng.below(8) as u8];
            let n = bm[1] as usize;
            let mut body = rng.bytes(n);
            body[n - 1] |= 1;
            bm.extend(body);
            if rng.chance(1, 2) {
                bm.extend([1, 1, 0x40 >> rng.below(6)]);
            }
            json!([nm(&iname(rng, i)), raw(bm)])
        }
        48 => {
            let mut v = vec![1, rng.below(2) as u8, 3, *rng.pick(&[8u8, 13, 15])];
            let n = 8 + rng.below(60) as usize;
            v.extend(rng.bytes(n));
            v.push(ib);
            json!([raw(v)])
        }
        43 => {
            let mut v = vec![rng.next() as u8, rng.next() as u8, 13, 2];
            v.extend(rng.bytes(31));
            v.push(ib);
            json!([raw(v)])
        }
        257 => {
            // tags of different lengths under equal flags
            let extra = rng.below(4) as usize;
            let mut v = vec![rng.below(2) as u8 * 128, 5 + extra as u8];
            v.extend(b"issue");
            v.extend((0..extra).map(|_| b'a' + rng.below(26) as u8));
            let n = rng.below(10) as usize;
            v.extend(rng.bytes(n).iter().map(|b| b'a' + b % 26));
            v.push(b'0' + ib);
            json!([raw(v)])
        }
        _ => {
            // unknown type: arbitrary octets; lengths differ so that
            // "shorter first" and "length octets are not part of the order" matter
            let n = rng.below(5) as usize;
            let mut v = rng.bytes(n);
            v.push(ib);
            if rng.chance(1, 3) {
                let n = rng.below(20) as usize;
                v.extend(rng.bytes(n));
            }
            json!([raw(v)])
        }
    }
}

fn ts4(rng: &mut Rng) -> [u8; 4] {
    match rng.below(4) {
        0 => [0, 0, 0, rng.next() as u8],
        1 => [255, 255, 255, rng.next() as u8],
        _ => (rng.next() as u32).to_be_bytes(),
    }
}

fn recase(rng: &mut Rng, n: &mut Value) {
    if let Some(ls) = n.as_array_mut() {
        for l in ls {
            if let Some(os) = l.as_array_mut() {
                for o in os {
                    let b = o.as_u64().unwrap() as u8;
                    if b.is_ascii_alphabetic() && rng.chance(1, 2) {
                        *o = json!(b ^ 0x20);
                    }
                }
            }
        }
    }
}

fn sig_fields(r: &Rrsig<Bytes, SName>) -> Value {
    json!({
        "tc": r.type_covered().to_int(), "alg": r.algorithm().to_int(), "labels": r.labels(),
        "ottl": r.original_ttl().as_secs(),
        "exp": jbytes(&r.expiration().into_int().to_be_bytes()),
        "inc": jbytes(&r.inception().into_int().to_be_bytes()),
        "tag": r.key_tag(), "signer": jname(r.signer_name()),
    })
}

fn rrsig_of(s: &Value, signature: &[u8]) -> Rrsig<Bytes, SName> {
    let t = |v: &Value| {
        let b = bytes_of(v);
        Timestamp::from(u32::from_be_bytes([b[0], b[1], b[2], b[3]]))
    };
    Rrsig::new(
        rtype(s["tc"].as_u64().unwrap() as u16),
        domain::base::iana::SecurityAlgorithm::from_int(s["alg"].as_u64().unwrap() as u8),
        s["labels"].as_u64().unwrap() as u8,
        ttl(s["ottl"].as_u64().unwrap() as u32),
        t(&s["exp"]),
        t(&s["inc"]),
        s["tag"].as_u64().unwrap() as u16,
        name_of(&s["signer"]),
        Bytes::copy_from_slice(signature),
    )
    .expect("rrsig")
}

/// One RRset signed with a real key of one of the backend's algorithms
/// (obtained directly or through the BIND private-key format) and put to
/// verify_signed_data: under the key, under another key of the algorithm,
/// and with key and RRSIG relabelled as the sibling algorithm.
#[allow(clippy::too_many_arguments)]
fn keysign_event(w: &mut TraceWriter, rng: &mut Rng, reals: &[realkeys::RealKey], others: &[realkeys::RealKey],
                 rrs: &Value, recs: &[SRecord], key_owner: &[Vec<u8>], inc: [u8; 4], exp: [u8; 4], turn: u64) {
    use domain::crypto::sign::SignRaw;
    use domain::dnssec::validator::base::DnskeyExt;
    use domain::rdata::Dnskey;
    let real = &reals[(turn as usize) % reals.len()];
    let route = if rng.chance(1, 2) { "bind" } else { "direct" };
    let flags = *rng.pick(&[256u16, 257, 0, 385]);
    let made_from = real.dnskey(flags);
    let (inc_t, exp_t) = (Timestamp::from(u32::from_be_bytes(inc)), Timestamp::from(u32::from_be_bytes(exp)));
    let r = catch_unwind(AssertUnwindSafe(|| -> Result<Value, String> {
        let pair = real.pair(route, flags)?;
        let secret = if route == "bind" { &real.bind } else { &real.direct };
        let probe = pair.sign_raw(b"probe").map_err(|e| format!("{e}"))?;
        let probe_alg = probe.algorithm().to_int();
        let probe_len = probe.as_ref().len();
        let boxed: Box<[u8]> = probe.into();
        if boxed.len() != probe_len {
            return Err("Signature into Box<[u8]> changed the length".into());
        }
        let algs = json!({"pair": pair.algorithm().to_int(), "secret": secret.algorithm().to_int(), "sig": probe_alg});
        let key = pair.dnskey();
        let sk = SigningKey::new(name_of(&jlabels(key_owner)), flags, pair);
        let rrset = Rrset::new_from_owned(recs).map_err(|e| format!("{e}"))?;
        let rr = sign_rrset(&sk, &rrset, inc_t, exp_t).map_err(|e| format!("{e}"))?;
        let mut buf: Vec<u8> = vec![];
        rr.data().signed_data(&mut buf, &mut recs.to_vec()[..]).map_err(|_| "signed_data")?;
        let verify = rr.data().verify_signed_data(&key, &buf).is_ok();
        // another key of the same algorithm
        let other = others.iter().find(|o| o.alg == real.alg).map(|o| o.dnskey(flags));
        let verify_other = other.as_ref().map(|o| rr.data().verify_signed_data(o, &buf).is_ok());
        // key and RRSIG both relabelled as the sibling algorithm
        let sib = domain::base::iana::SecurityAlgorithm::from_int(match real.alg {
            8 => 10, 10 => 8, 13 => 14, 14 => 13, 5 => 7, 7 => 5, _ => 13 });
        let skey = Dnskey::new(flags, 3, sib, key.public_key().clone()).map_err(|e| format!("{e}"))?;
        let mut f = sig_fields(rr.data());
        f["alg"] = json!(sib.to_int());
        let ssig = rrsig_of(&f, rr.data().signature());
        let mut sbuf: Vec<u8> = vec![];
        ssig.signed_data(&mut sbuf, &mut recs.to_vec()[..]).map_err(|_| "signed_data")?;
        let verify_sibling = ssig.verify_signed_data(&skey, &sbuf).is_ok();
        Ok(json!({"ev": "keysign", "route": route, "key": realkeys::jkey(&key), "made_from": realkeys::jkey(&made_from),
                  "other": other.as_ref().map(realkeys::jkey), "keyOwner": jlabels(key_owner),
                  "inc": jbytes(&inc), "exp": jbytes(&exp), "rrs": rrs, "algs": algs,
                  "res": {"sig": sig_fields(rr.data()), "buf": jbytes(&buf), "siglen": rr.data().signature().len(),
                          "keysize": key.key_size().map(|n| n as i64).unwrap_or(-1),
                          "verify": verify, "verify_other": verify_other, "verify_sibling": verify_sibling}}))
    }));
    match r {
        Ok(Ok(ev)) => w.event(ev),
        Ok(Err(e)) => w.event(json!({"ev": "keysign_error", "alg": real.alg, "route": route, "err": e})),
        Err(_) => w.event(json!({"ev": "panic", "in": "keysign", "alg": real.alg, "rrs": rrs})),
    }
}

/// A zone's records reach a SortedRecords collection by a random route
/// (From<Vec> / collect / insert one at a time / extend in chunks, in random
/// order or - like a zone file - owner by owner with the records of an RRset
/// in any order) and the collection is signed through a random entry point.
/// Logged: the collection as it hands its records out, the octets every call
/// of sign_raw received for the zone's own RRsets, and whether every RRSIG a
/// real key made the same way verifies over its RRset presented in any order.
fn signzone_event(w: &mut TraceWriter, rng: &mut Rng, reals: &[realkeys::RealKey], turn: u64) {
    use dnssec::sinput::{all_verify, run_entry, Coll, ENTRIES};
    let mut apex = vec![label(rng)];
    apex[0].truncate(8);
    apex.push(b"ex".to_vec());
    let mut owners: Vec<Vec<Vec<u8>>> = vec![apex.clone()];
    for _ in 0..3 + rng.below(10) {
        let mut o = apex.clone();
        for _ in 0..1 + rng.below(2) {
            let mut l = label(rng);
            l.truncate(10);
            o.insert(0, l);
        }
        if rng.chance(1, 5) {
            o[0] = vec![b'*'];
        }
        if !owners.iter().any(|x| x.len() == o.len() && x.iter().zip(o.iter()).all(|(a, b)| a.eq_ignore_ascii_case(b))) {
            owners.push(o);
        }
    }
    let mut rrs: Vec<Value> = vec![];
    for (oi, o) in owners.iter().enumerate() {
        let mut types: Vec<u16> = if oi == 0 { vec![6, 2] } else { vec![] };
        for _ in 0..1 + rng.below(3) {
            let t = *rng.pick(&[1u16, 28, 15, 16, 33, 257, 65280, 65281, 12]);
            if !types.contains(&t) {
                types.push(t);
            }
        }
        for t in types {
            let rttl = rng.below(100_000) as u32;
            let k = if t == 6 { 1 } else { 1 + rng.below(4) as usize };
            for i in 0..k {
                let mut on = jlabels(o);
                if rng.chance(1, 3) {
                    recase(rng, &mut on);
                }
                let rr = json!({"owner": on, "type": t, "class": 1, "ttl": rttl, "rd": rdata(rng, t, i)});
                // now and then the same record once more, its owner spelled differently
                if rng.chance(1, 12) {
                    let mut d = rr.clone();
                    recase(rng, &mut d["owner"]);
                    rrs.push(d);
                }
                rrs.push(rr);
            }
        }
    }
    let recs: Vec<SRecord> = match records_of(&Value::Array(rrs.clone())) {
        Ok(r) if r.len() == rrs.len() => r,
        _ => return,
    };
    // ---- arrival order and route
    let n = recs.len();
    let mut order: Vec<usize> = (0..n).collect();
    let file_like = rng.chance(1, 2);
    if file_like {
        // owner by owner, type by type as a tidy zone file lists them; the
        // records of an RRset in any order
        order.sort_by(|&a, &b| {
            use domain::base::cmp::CanonicalOrd;
            recs[a].owner().canonical_cmp(recs[b].owner()).then(recs[a].rtype().cmp(&recs[b].rtype()))
        });
        let mut i = 0;
        while i < n {
            let mut j = i;
            while j < n && recs[order[j]].rtype() == recs[order[i]].rtype() && recs[order[j]].owner() == recs[order[i]].owner() {
                j += 1;
            }
            for k in (i + 1..j).rev() {
                order.swap(k, i + rng.below((k - i) as u64 + 1) as usize);
            }
            i = j;
        }
    } else {
        for i in (1..n).rev() {
            order.swap(i, rng.below(i as u64 + 1) as usize);
        }
    }
    let mut ops: Vec<(&str, Vec<usize>)> = vec![];
    let mut at = 0;
    let style = rng.below(3); // 0: one at a time, 1: mixed, 2: one batch first
    while at < n {
        let first = ops.is_empty();
        let (op, len) = match style {
            0 => ("insert", 1),
            2 if first => (*rng.pick(&["from", "collect", "extend"]), 1 + rng.below(n as u64) as usize),
            _ if rng.chance(1, 3) => (if first { *rng.pick(&["from", "collect", "extend"]) } else { "extend" },
                                      1 + rng.below(12) as usize),
            _ => ("insert", 1),
        };
        let end = (at + len).min(n);
        ops.push((op, order[at..end].to_vec()));
        at = end;
    }
    // ---- now and then the collection is edited on the way: the records of an
    // owner [and type] are removed (remove_first until nothing is left, or
    // remove_all) and arrive again, one of them first; a stored record gets
    // other data (update_data)
    let (mut recs, mut rrs) = (recs, rrs);
    if rng.chance(1, 2) {
        for _ in 0..1 + rng.below(3) {
            let i = rng.below(n as u64) as usize;
            let at = 1 + rng.below(ops.len() as u64) as usize;
            let arrived: Vec<usize> = ops[..at].iter().flat_map(|(_, v)| v.iter().cloned()).collect();
            if !arrived.contains(&i) || recs[i].rtype() == domain::base::iana::Rtype::SOA {
                continue;
            }
            if rng.chance(1, 2) {
                let t = recs[i].rtype().to_int();
                let mut d = rrs[i].clone();
                let k = rng.below(8) as usize;
                d["rd"] = rdata(rng, t, k);
                let Ok(mut r) = records_of(&Value::Array(vec![d.clone()])) else { continue };
                recs.push(r.remove(0));
                rrs.push(d);
                ops.insert(at, ("update", vec![i, recs.len() - 1]));
            } else {
                let any = rng.chance(1, 3);
                let mut back: Vec<usize> = arrived.iter().cloned()
                    .filter(|j| recs[*j].owner().name_eq(recs[i].owner()) && (any || recs[*j].rtype() == recs[i].rtype()))
                    .collect();
                for k in (1..back.len()).rev() {
                    back.swap(k, rng.below(k as u64 + 1) as usize);
                }
                // what is removed is what arrives again: removing every type at the owner
                // goes with the re-arrival of every record of the owner (else an apex SOA
                // would be lost and the signer rightly refuses the zone)
                let op = if any { "remove_all_any" } else { *rng.pick(&["remove_all", "remove_first"]) };
                ops.insert(at, (op, vec![i]));
                ops.insert(at + 1, (if rng.chance(1, 2) { "insert" } else { "extend" }, back));
            }
        }
    }
    let build = || -> Coll {
        use domain::base::iana::Class;
        let mut coll: Coll = SortedRecords::default();
        for (op, idx) in &ops {
            let batch: Vec<SRecord> = idx.iter().map(|i| recs[*i].clone()).collect();
            match *op {
                "remove_all" => {
                    coll.remove_all_by_name_class_rtype(batch[0].owner(), Some(Class::IN), Some(batch[0].rtype()));
                }
                "remove_all_any" => {
                    coll.remove_all_by_name_class_rtype(batch[0].owner(), None, None);
                }
                "remove_first" => {
                    while coll.remove_first_by_name_class_rtype(batch[0].owner(), Some(Class::IN), Some(batch[0].rtype())) {}
                }
                "update" => {
                    let old = batch[0].clone();
                    coll.update_data(|r| r.owner().name_eq(old.owner()) && r.rtype() == old.rtype() && r.data() == old.data(),
                                     batch[1].data().clone());
                }
                "insert" => {
                    for r in batch {
                        let _ = coll.insert(r);
                    }
                }
                "from" => coll = SortedRecords::from(batch),
                "collect" => coll = batch.into_iter().collect(),
                _ => coll.extend(batch),
            }
        }
        coll
    };
    let e = loop {
        let e = *rng.pick(&ENTRIES);
        if e != "slice_sign_rrset" {
            break e;
        }
    };
    let key = json!({"flags": *rng.pick(&[256u16, 257]), "proto": 3, "alg": 15, "pub": jbytes(&rng.bytes(32))});
    let flags = key["flags"].as_u64().unwrap() as u16;
    let inc = ts4(rng);
    let exp = u32::from_be_bytes(inc).wrapping_add(rng.below(0x7FFF_0000) as u32).to_be_bytes();
    let (inc_t, exp_t) = (Timestamp::from(u32::from_be_bytes(inc)), Timestamp::from(u32::from_be_bytes(exp)));
    let apex_n = name_of(&jlabels(&apex));
    let r = catch_unwind(AssertUnwindSafe(|| -> Result<Value, String> {
        let coll = build();
        // the collection as it hands its records out, each as the JSON it was made from
        let mut stored = vec![];
        for r in coll.iter() {
            let i = (0..recs.len()).find(|i| recs[*i].owner().as_slice() == r.owner().as_slice() && recs[*i].ttl() == r.ttl()
                                             && recs[*i].rtype() == r.rtype() && recs[*i].data() == r.data())
                // an updated record keeps the spelling of the record that was stored
                .or_else(|| (0..recs.len()).find(|i| recs[*i].owner().name_eq(r.owner()) && recs[*i].ttl() == r.ttl()
                                                      && recs[*i].rtype() == r.rtype() && recs[*i].data() == r.data()))
                .ok_or("a stored record is none of the records added")?;
            stored.push(rrs[i].clone());
        }
        let rk = SigningKey::new(apex_n.clone(), flags, RecKey::of_json(&key));
        let all = run_entry(e, coll, &[], &apex_n, &rk, inc_t, exp_t)?;
        let nsigs = all.iter().filter(|r| r.rtype() == domain::base::iana::Rtype::RRSIG).count();
        let handed: Vec<Value> = rk.raw_secret_key().take().into_iter()
            .filter(|b| b.len() < 2 || !matches!(u16::from_be_bytes([b[0], b[1]]), 47 | 50 | 51))
            .map(|b| jbytes(&b)).collect();
        let real = reals.iter().find(|k| k.alg == 15).ok_or("no Ed25519 key")?;
        let sk = SigningKey::new(apex_n.clone(), flags, real.pair(if turn % 2 == 0 { "direct" } else { "bind" }, flags)?);
        let verified = run_entry(e, build(), &[], &apex_n, &sk, inc_t, exp_t)
            .and_then(|all| all_verify(&all, &real.dnskey(flags)));
        Ok(json!({"ev": "signzone", "entry": e, "file_like": file_like,
                  "route": ops.iter().map(|(o, i)| json!([o, i.len()])).collect::<Vec<_>>(),
                  "key": key, "keyOwner": jlabels(&apex), "inc": jbytes(&inc), "exp": jbytes(&exp),
                  "stored": stored,
                  "res": {"handed": handed, "nsigs": nsigs, "verify": verified.as_ref().map(|n| *n == nsigs).unwrap_or(false),
                          "why": verified.err().unwrap_or_default()}}))
    }));
    match r {
        Ok(Ok(ev)) => w.event(ev),
        Ok(Err(err)) => w.event(json!({"ev": "signzone_error", "entry": e, "err": err})),
        Err(_) => w.event(json!({"ev": "panic", "in": "signzone", "entry": e, "rrs": rrs})),
    }
}

fn record_rrsig(out: &str, seed: u64, n: u64) {
    let mut w = TraceWriter::create(out);
    let mut rng = Rng::new(seed);
    // two independent sets of real keys (the second: "another key of the algorithm")
    let load = || realkeys::all().unwrap_or_else(|e| {
        eprintln!("record_dnssec: no real keys: {e}");
        std::process::exit(2)
    });
    let (reals, others) = (load(), load());
    let mut scratch: Vec<u8> = vec![];
    let mut done = 0;
    while done < n {
        // ---- the RRset
        let t = *rng.pick(&TYPES);
        let t = if t == 65280 { 65280 + rng.below(3) as u16 } else { t };
        let mut owner = name(&mut rng, 4);
        if rng.chance(1, 4) {
            owner.insert(0, vec![b'*']);
        }
        // only the one-octet label "*" is the wildcard label
        if rng.chance(1, 8) {
            let mut l = if rng.chance(1, 3) { vec![] } else { label(&mut rng) };
            l.truncate(5);
            l.insert(0, b'*');
            if rng.chance(1, 4) {
                l.push(b'*');
            }
            if l.len() == 1 {
                l.push(b'*');
            }
            owner.insert(0, l);
        }
        // an asterisk label that is not the leftmost label is an ordinary label
        if !owner.is_empty() && rng.chance(1, 5) {
            let at = 1 + rng.below(owner.len() as u64) as usize;
            owner.insert(at.min(owner.len()), vec![b'*']);
            if rng.chance(1, 3) {
                owner.insert(0, rng.pick(&[vec![b'*'], vec![b's', b'u', b'b']]).clone());
            }
        }
        if owner.iter().map(|l| l.len() + 1).sum::<usize>() > 200 {
            continue;
        }
        let cls = if rng.chance(1, 10) { 3 } else { 1 };
        let rttl = match rng.below(5) {
            0 => 0,
            1 => 0x7FFF_FFFF,
            _ => rng.below(1_000_000) as u32,
        };
        let k = if t == 6 { 1 } else { 1 + rng.below(5) as usize };
        let mut idx: Vec<usize> = (0..k).collect();
        for i in (1..k).rev() {
            idx.swap(i, rng.below(i as u64 + 1) as usize);
        }
        let rrs: Vec<Value> = idx
            .iter()
            .map(|i| json!({"owner": jlabels(&owner), "type": t, "class": cls, "ttl": rttl, "rd": rdata(&mut rng, t, *i)}))
            .collect();
        let rrs = Value::Array(rrs);
        let recs = match records_of(&rrs) {
            Ok(r) => r,
            Err(_) => continue, // generator produced something the parser refuses: not an event
        };
        // ---- the key
        let alg = *rng.pick(&[1u8, 5, 8, 10, 13, 14, 15, 16, 253]);
        let mut publen = 3 + rng.below(130) as usize;
        if rng.chance(1, 10) {
            publen = 260;
        }
        let key = json!({"flags": *rng.pick(&[0u16, 256, 257, 384, 65535]), "proto": 3, "alg": alg,
                         "pub": jbytes(&rng.bytes(publen))});
        let key_owner = name(&mut rng, 3);
        let inc = ts4(&mut rng);
        let exp = u32::from_be_bytes(inc).wrapping_add(rng.below(0x7FFF_0000) as u32).to_be_bytes();
        let sk = SigningKey::new(name_of(&jlabels(&key_owner)), key["flags"].as_u64().unwrap() as u16,
                                 RecKey::of_json(&key));
        // The library calls run under catch_unwind: a panic is an event the
        // trace specification has no action for.
        let (inc_t, exp_t) = (Timestamp::from(u32::from_be_bytes(inc)), Timestamp::from(u32::from_be_bytes(exp)));
        // (a) sign_rrset (sorts, fresh buffer)
        let rr = match catch_unwind(AssertUnwindSafe(|| {
            let rrset = Rrset::new_from_owned(&recs).expect("rrset");
            sign_rrset(&sk, &rrset, inc_t, exp_t)
        })) {
            Ok(Ok(r)) => r,
            Ok(Err(e)) => {
                w.event(json!({"ev": "sign_error", "err": format!("{e}")}));
                continue;
            }
            Err(_) => {
                w.event(json!({"ev": "panic", "in": "sign_rrset", "rrs": rrs}));
                continue;
            }
        };
        let buf = sk.raw_secret_key().take().pop().unwrap_or_default();
        // (b) sign_sorted_rrset_in with the scratch buffer that has been used
        // for every RRset so far; now and then the backend fails first and
        // the call is retried, or the buffer is not empty on entry
        let sorted: SortedRecords<SName, SData> = SortedRecords::from(recs.clone());
        let mut pre = vec![];
        if rng.chance(1, 4) {
            *sk.raw_secret_key().fail_next.lock().unwrap() = true;
            pre.push("fail");
        } else if rng.chance(1, 6) {
            scratch = rng.bytes(5);
            pre.push("junk");
        }
        let mut bufs_in = vec![];
        let mut oks = vec![];
        for _ in 0..(if pre.contains(&"fail") { 2 } else { 1 }) {
            let r = catch_unwind(AssertUnwindSafe(|| {
                let rrset2 = sorted.rrsets().next().expect("rrset");
                sign_sorted_rrset_in(&sk, &rrset2, inc_t, exp_t, &mut scratch).map(|r| r.data().clone())
            }));
            match r {
                Ok(res) => {
                    oks.push(res.as_ref().map(|d| d == rr.data()).unwrap_or(false));
                    bufs_in.push(jbytes(&sk.raw_secret_key().take().pop().unwrap_or_default()));
                }
                Err(_) => {
                    w.event(json!({"ev": "panic", "in": "sign_sorted_rrset_in", "rrs": rrs}));
                    bufs_in.clear();
                    break;
                }
            }
        }
        if bufs_in.is_empty() {
            continue;
        }
        let sig0 = sig_fields(rr.data());
        w.event(json!({"ev": "sign", "key": key, "keyOwner": jlabels(&key_owner),
                       "inc": jbytes(&inc), "exp": jbytes(&exp), "rrs": rrs, "pre": pre,
                       "res": {"sig0": sig0, "buf": jbytes(&buf), "bufs_in": bufs_in,
                               "last_ok": *oks.last().unwrap_or(&false)}}));
        done += 1;
        if done % 4 == 0 {
            keysign_event(&mut w, &mut rng, &reals, &others, &rrs, &recs, &key_owner, inc, exp, done / 4);
        }
        if done % 16 == 0 {
            signzone_event(&mut w, &mut rng, &reals, done / 16);
        }
        // ---- resolver side
        for _ in 0..2 {
            let mut cur = rrs.clone();
            let mut sig = sig0.clone();
            let mut names = vec![];
            let mut compress = false;
            let alter = rng.chance(1, 3);
            for _ in 0..rng.below(4) {
                let a = cur.as_array_mut().unwrap();
                match rng.below(5) {
                    0 if a.len() > 1 => {
                        let i = rng.below(a.len() as u64) as usize;
                        let j = rng.below(a.len() as u64) as usize;
                        a.swap(i, j);
                        names.push("Permute");
                    }
                    1 => {
                        for r in a.iter_mut() {
                            recase(&mut rng, &mut r["owner"]);
                        }
                        recase(&mut rng, &mut sig["signer"]);
                        names.push("Recase");
                    }
                    2 => {
                        let cur_ttl = a[0]["ttl"].as_u64().unwrap();
                        let d = rng.below(cur_ttl + 1);
                        for r in a.iter_mut() {
                            r["ttl"] = json!(cur_ttl - d);
                        }
                        names.push("DecTtl");
                    }
                    3 if owner.first().map(|l| l == &vec![b'*']).unwrap_or(false)
                        && !names.contains(&"ExpandWildcard") =>
                    {
                        let mut q: Vec<Vec<u8>> = (0..1 + rng.below(2)).map(|_| { let mut l = label(&mut rng); l.truncate(8); l }).collect();
                        q.extend(owner[1..].iter().cloned());
                        for r in a.iter_mut() {
                            let mut o = jlabels(&q);
                            recase(&mut rng, &mut o);
                            r["owner"] = o;
                        }
                        names.push("ExpandWildcard");
                    }
                    4 => {
                        compress = true;
                        names.push("Compress");
                    }
                    _ => {}
                }
            }
            if alter {
                let a = cur.as_array_mut().unwrap();
                match rng.below(8) {
                    0 => { sig["ottl"] = json!((sig["ottl"].as_u64().unwrap() + 1) & 0x7FFF_FFFF); names.push("AltOrigTtl"); }
                    1 => { sig["labels"] = json!((sig["labels"].as_u64().unwrap() + 1) & 0xFF); names.push("AltLabels"); }
                    2 => { sig["tag"] = json!((sig["tag"].as_u64().unwrap() + 1) & 0xFFFF); names.push("AltKeyTag"); }
                    3 => { let mut e = bytes_of(&sig["exp"]); e[rng.below(4) as usize] ^= 1 << rng.below(8); sig["exp"] = jbytes(&e); names.push("AltExpiration"); }
                    4 => { let mut e = bytes_of(&sig["inc"]); e[rng.below(4) as usize] ^= 1 << rng.below(8); sig["inc"] = jbytes(&e); names.push("AltInception"); }
                    5 if a.len() > 1 => { a.pop(); names.push("DropRR"); }
                    6 => { for r in a.iter_mut() { r["class"] = json!(if cls == 1 { 3 } else { 1 }); } names.push("AltClass"); }
                    _ => { sig["tc"] = json!(if t == 1 { 2 } else { 1 }); names.push("AltTypeCovered"); }
                }
            }
            let mut crecs = match records_of(&cur) {
                Ok(r) => r,
                Err(_) => continue,
            };
            if compress {
                crecs = match compress_roundtrip(&crecs) {
                    Ok(r) => r,
                    Err(_) => continue,
                };
            }
            let rsig = rrsig_of(&sig, rr.data().signature());
            // representation conversions of the RRs and the RRSIG
            let conv = *rng.pick(&["none", "none", "flatten", "octets"]);
            let (mut crecs, rsig) = match catch_unwind(AssertUnwindSafe(|| convert(conv, &crecs, &rsig))) {
                Ok(Ok(x)) => x,
                Ok(Err(e)) => {
                    w.event(json!({"ev": "conversion_changed_value", "conv": conv, "what": e, "sig": sig}));
                    continue;
                }
                Err(_) => {
                    w.event(json!({"ev": "panic", "in": "convert", "cur": cur}));
                    continue;
                }
            };
            if conv != "none" {
                names.push("Convert");
            }
            let sigc = sig_fields(&rsig);
            let mut vbuf: Vec<u8> = vec![];
            match catch_unwind(AssertUnwindSafe(|| rsig.signed_data(&mut vbuf, &mut crecs[..]).is_err())) {
                Ok(false) => {}
                Ok(true) => continue,
                Err(_) => {
                    w.event(json!({"ev": "panic", "in": "signed_data", "cur": cur}));
                    continue;
                }
            }
            w.event(json!({"ev": "validate", "cur": cur, "sig": sig, "sigc": sigc, "ops": names, "altered": alter,
                           "res": {"buf": jbytes(&vbuf)}}));
        }
    }
    w.finish();
}

fn main() {
    quiet_panics();
    let args: Vec<String> = std::env::args().collect();
    let seed: u64 = args.get(3).and_then(|s| s.parse().ok()).unwrap_or(1);
    match args.get(1).map(|s| s.as_str()) {
        Some("rrsig") => record_rrsig(&args[2], seed, args.get(4).and_then(|s| s.parse().ok()).unwrap_or(200)),
        Some("denial") => denial::record(&args[2], seed,
                                         args.get(4).and_then(|s| s.parse().ok()).unwrap_or(5),
                                         args.get(5).and_then(|s| s.parse().ok()).unwrap_or(100)),
        _ => {
            eprintln!("usage: record_dnssec rrsig|denial <out> <seed> <n> [max-names]");
            std::process::exit(2);
        }
    }
    let _ = Bytes::new();
    fn _unused<N: ToName>(_: &N) {}
}
