//! S->I executor for Server.tla (C16).
//!
//! Case kinds:
//!  * "size":  one request through the real middleware stack
//!             Mandatory(Edns(Cookies(scripted service))) with a UDP or
//!             non-UDP transport context; the scripted service answers with a
//!             response of the prescribed size / OPT size.
//!  * "conn":  a behaviour of the stream connection machine: the real
//!             `StreamServer`/`Connection` over controllable mock streams,
//!             paused clock, current-thread runtime, stepped to quiescence
//!             after every op; observation after *every* op.
//!  * "dgram": the real `DgramServer` over a mock datagram socket.
#[path = "../server.rs"]
mod server;

use std::collections::HashMap;
use std::net::SocketAddr;
use std::sync::Arc;
use std::time::Duration;

use domain::base::Message;
use domain::net::server::buf::VecBufSource;
use domain::net::server::dgram::{self, DgramServer};
use domain::net::server::message::{
    NonUdpTransportContext, Request, TransportSpecificContext, UdpTransportContext,
};
use domain::net::server::service::{Service, ServiceFeedback};
use domain::net::server::stream::{self, StreamServer};
use domain::net::server::ConnectionConfig;
use futures_util::StreamExt;
use serde_json::{json, Value};
use server::*;
use verif_harness::common::*;

/// idle timeout = write timeout = 2 half ticks
const HALF: Duration = Duration::from_secs(5);

fn rt() -> tokio::runtime::Runtime {
    tokio::runtime::Builder::new_current_thread()
        .enable_time()
        .start_paused(true)
        .build()
        .unwrap()
}

fn opt_u16(v: &Value) -> Option<u16> {
    match v.as_i64() {
        Some(n) if (0..=65535).contains(&n) => Some(n as u16),
        _ => None,
    }
}

//------------ size ----------------------------------------------------------

fn run_size(input: &Value) -> Value {
    let udp = input["udp"].as_bool().unwrap_or(true);
    let edns = if input["edns"].as_bool().unwrap_or(false) {
        opt_u16(&input["csize"])
    } else {
        None
    };
    let hint = opt_u16(&input["hint"]);
    let qlen = input["qlen"].as_u64().unwrap_or(17) as usize;
    let len = input["len"].as_u64().unwrap_or(100) as usize;
    let optlen = input["optlen"].as_u64().unwrap_or(0) as usize;
    let id = 0x4321u16;
    let req_bytes = mk_query_opts(id, qlen, edns, false, input["ropts"].as_str().unwrap_or("none"));
    let before = panics();
    let out = rt().block_on(async move {
        let svc = ScriptSvc::default();
        svc.script(id, vec![Item::Resp { len, optlen, fb: None }], 1);
        let st = stack(svc.clone());
        let msg = Message::from_octets(req_bytes.clone()).unwrap();
        let ctx: TransportSpecificContext = if udp {
            UdpTransportContext::new(hint).into()
        } else {
            NonUdpTransportContext::new(Some(HALF * 2)).into()
        };
        let req = Request::new(
            "192.0.2.1:5300".parse().unwrap(),
            tokio::time::Instant::now(),
            msg,
            ctx,
            (),
        );
        let mut stream = st.call(req).await;
        let mut resps = vec![];
        while let Some(item) = stream.next().await {
            match item {
                Ok(cr) => {
                    if let (Some(r), _) = cr.into_inner() {
                        resps.push(r.finish().as_dgram_slice().to_vec());
                    }
                }
                Err(_) => resps.push(vec![]),
            }
        }
        let arrived = svc.0.lock().unwrap().arrived.clone();
        (resps, arrived, req_bytes)
    });
    if panics() != before {
        return json!({"panic": true});
    }
    let (resps, arrived, req_bytes) = out;
    if resps.len() != 1 {
        return json!({"n": resps.len()});
    }
    let d = describe(&resps[0]);
    let reqd = describe(&req_bytes);
    let good = d["parses"] == json!(true)
        && d["id"] == json!(id)
        && d["qr"] == json!(true)
        && d["rd"] == json!(true)
        && d["q"] == reqd["q"]
        && d["ns"] == json!(0);
    let (reserved, hint_after) = arrived
        .first()
        .map(|a| (a.1 as i64, a.2.map(|h| h as i64).unwrap_or(70000)))
        .unwrap_or((-1, -2));
    json!({
        "n": 1,
        "len": d["len"],
        "tc": d["tc"],
        "trunc": d["an"] == json!(0),
        "opt": d["opt"],
        "good": good,
        "reserved": reserved,
        "hint": hint_after,
    })
}

//------------ conn ----------------------------------------------------------

fn script_for(svc: &str) -> Vec<Item> {
    let r = |fb| Item::Resp { len: 0, optlen: 0, fb };
    let reconf = |halfticks: u32| {
        Some(ServiceFeedback::Reconfigure { idle_timeout: Some(HALF * halfticks) })
    };
    match svc {
        "rlong" => vec![r(reconf(4))],
        "rshort" => vec![r(reconf(1))],
        "big" => vec![Item::Resp { len: 1840, optlen: 0, fb: None }],
        "mid" => vec![Item::Resp { len: 300, optlen: 0, fb: None }],
        "huge" => vec![Item::Resp { len: 5000, optlen: 0, fb: None }],
        "xfr" => vec![
            Item::Feedback(ServiceFeedback::BeginTransaction),
            r(None),
            r(None),
            r(None),
            r(None),
            Item::Feedback(ServiceFeedback::EndTransaction),
        ],
        "fblong" => vec![
            Item::Feedback(ServiceFeedback::Reconfigure { idle_timeout: Some(HALF * 4) }),
            r(None),
        ],
        "single" => vec![r(None)],
        "stream2" => vec![r(None), r(None)],
        "fail" => vec![Item::Fail],
        "empty" => vec![],
        "rfail" => vec![r(None), Item::Fail, r(None)],
        "txn" => vec![
            r(Some(ServiceFeedback::BeginTransaction)),
            r(None),
            r(Some(ServiceFeedback::EndTransaction)),
        ],
        _ => vec![r(None)],
    }
}

fn kind_of(d: &Value, want_q: Option<&Value>) -> &'static str {
    if d["parses"] != json!(true) || d["qr"] != json!(true) {
        return "bad";
    }
    if d["tc"] == json!(true) {
        return "trunc";
    }
    if let Some(q) = want_q {
        if &d["q"] != q {
            return "badq";
        }
    }
    match d["rcode"].as_u64() {
        Some(0) => "ans",
        Some(1) => "formerr",
        Some(2) => "servfail",
        _ => "other",
    }
}

fn run_conn(input: &Value) -> Value {
    let qcap = input["q"].as_u64().unwrap_or(1) as usize;
    let nc = input["nc"].as_u64().unwrap_or(1) as u16;
    let limit = input["limit"].as_u64().unwrap_or(100) as usize;
    // octets one poll_write of the mock transport accepts (0 = all)
    let chunk: usize = arg_value("--chunk").and_then(|s| s.parse().ok()).unwrap_or(0);
    let ops = input["ops"].as_array().cloned().unwrap_or_default();
    // defaults: no explicit configuration at all; one half tick is then half
    // of the *documented* idle / write timeout (30 s)
    let defaults = input["defaults"].as_bool().unwrap_or(false);
    let half = if defaults { Duration::from_secs(15) } else { HALF };
    let before = panics();
    let obs = rt().block_on(async move {
        let listener = MockListener::default();
        let svc = ScriptSvc::default();
        let st = Arc::new(stack(svc.clone()));
        let mut cfg = stream::Config::new();
        let mut cc = ConnectionConfig::new();
        cc.set_idle_timeout(HALF * 2);
        cc.set_response_write_timeout(HALF * 2);
        cc.set_max_queued_responses(qcap);
        cfg.set_connection_config(cc);
        cfg.set_max_concurrent_connections(limit);
        let srv = Arc::new(if defaults {
            StreamServer::new(listener.clone(), VecBufSource, st)
        } else {
            StreamServer::with_config(listener.clone(), VecBufSource, st, cfg)
        });
        let run = {
            let s = srv.clone();
            tokio::spawn(async move { s.run().await })
        };
        settle().await;
        let mut ios: HashMap<u16, IoHandle> = HashMap::new();
        let mut rest: HashMap<u16, Vec<u8>> = HashMap::new();
        let mut questions: HashMap<u16, Value> = HashMap::new();
        let mut shut = false;
        let mut out = vec![];
        for op in &ops {
            let c = op["c"].as_u64().unwrap_or(0) as u16;
            let r = op["r"].as_u64().unwrap_or(0) as u16;
            let id = c * 100 + r;
            match op["op"].as_str().unwrap_or("") {
                "open" => {
                    let (io, h) = mock_io_chunked(Some(0), chunk);
                    let addr: SocketAddr = format!("192.0.2.{}:40000", c).parse().unwrap();
                    listener.connect_with(io, addr, op["what"].as_str() != Some("fail"));
                    ios.insert(c, h);
                }
                "send" => {
                    let what = op["what"].as_str().unwrap_or("query");
                    let bytes = match what {
                        "short" => frame(&[1, 2, 3, 4, 5]),
                        "reply" => frame(&mk_query(id, 5 + 4 + r as usize, Some(1232), true)),
                        _ => {
                            svc.script(id, script_for(op["svc"].as_str().unwrap_or("single")), 0);
                            frame(&mk_query(id, 5 + 4 + r as usize, Some(1232), false))
                        }
                    };
                    if what != "short" {
                        questions.insert(id, describe(&bytes[2..])["q"].clone());
                    }
                    if let Some(h) = ios.get(&c) {
                        if what == "partial" {
                            let cut = 2 + (bytes.len() - 2) / 2;
                            h.push(&bytes[..cut]);
                            rest.insert(c, bytes[cut..].to_vec());
                        } else {
                            h.push(&bytes);
                        }
                    }
                }
                "rest" => {
                    if let (Some(h), Some(b)) = (ios.get(&c), rest.remove(&c)) {
                        h.push(&b);
                    }
                }
                "release" => svc.release(id),
                "credit" => {
                    if let Some(h) = ios.get(&c) {
                        h.add_credit(1);
                    }
                }
                "halftick" => tokio::time::advance(half).await,
                "wait" => tokio::time::advance(Duration::from_millis(r as u64)).await,
                "accepterr" => listener.accept_error(),
                "abort" => {
                    if let Some(h) = ios.get(&c) {
                        h.abort();
                    }
                }
                "shutdown" => {
                    shut = true;
                    let _ = srv.shutdown();
                }
                _ => {}
            }
            settle().await;
            let mut cs = vec![];
            for c in 1..=nc {
                match ios.get(&c) {
                    None => cs.push(json!({"w": [], "cl": false})),
                    Some(h) => {
                        let (frames, left) = deframe(&h.written());
                        let mut w = vec![];
                        for f in &frames {
                            let d = describe(f);
                            let fid = d["id"].as_u64().unwrap_or(0) as u16;
                            let fr = if fid / 100 == c { (fid % 100) as i64 } else { -1 };
                            w.push(json!([fr, kind_of(&d, questions.get(&fid)), d["k"]]));
                        }
                        if left > 0 {
                            w.push(json!([-2, "partial-frame", left]));
                        }
                        cs.push(json!({"w": w, "cl": h.is_closed()}));
                    }
                }
            }
            let alive = panics() == before && (shut || !run.is_finished());
            out.push(json!({"cs": cs, "alive": alive}));
        }
        drop(srv);
        out
    });
    if panics() != before {
        return json!({"panic": true, "steps": obs});
    }
    json!(obs)
}

//------------ dgram ---------------------------------------------------------

fn run_dgram(input: &Value) -> Value {
    let ops = input["ops"].as_array().cloned().unwrap_or_default();
    let hint = opt_u16(&input["hint"]);
    let defaults = input["defaults"].as_bool().unwrap_or(false);
    let before = panics();
    let obs = rt().block_on(async move {
        let sock = MockDgram::default();
        let svc = ScriptSvc::default();
        let st = Arc::new(stack(svc.clone()));
        let mut cfg = dgram::Config::new();
        cfg.set_max_response_size(hint);
        let srv = Arc::new(if defaults {
            DgramServer::new(sock.clone(), VecBufSource, st)
        } else {
            DgramServer::with_config(sock.clone(), VecBufSource, st, cfg)
        });
        let run = {
            let s = srv.clone();
            tokio::spawn(async move { s.run().await })
        };
        settle().await;
        let from: SocketAddr = "192.0.2.9:5353".parse().unwrap();
        let mut out = vec![];
        for op in &ops {
            let r = op["r"].as_u64().unwrap_or(0) as u16;
            let id = 100 + r;
            match op["op"].as_str().unwrap_or("") {
                "recv" => {
                    let what = op["what"].as_str().unwrap_or("query");
                    if what != "reply" && what != "shortqr" {
                        svc.script(id, script_for(op["svc"].as_str().unwrap_or("single")), 0);
                    }
                    let idb = id.to_be_bytes();
                    let bytes = match what {
                        "short" => vec![idb[0], idb[1]],
                        "shortqr" => vec![idb[0], idb[1], 0x80],
                        "reply" => mk_query(id, 9 + r as usize, None, true),
                        _ if matches!(op["svc"].as_str(), Some("big") | Some("mid")) => {
                            mk_query(id, 9 + r as usize, Some(4096), false)
                        }
                        _ if op["svc"].as_str() == Some("huge") => {
                            mk_query(id, 9 + r as usize, Some(65535), false)
                        }
                        _ => mk_query(id, 9 + r as usize, None, false),
                    };
                    sock.deliver(&bytes, from);
                }
                "release" => svc.release(id),
                "reconf" => {
                    let mut cfg = dgram::Config::new();
                    cfg.set_max_response_size(Some(r));
                    let _ = srv.reconfigure(cfg);
                }
                "spurious" => sock.spurious_readable(),
                "senderr" => sock.fail_next_send(),
                _ => {}
            }
            settle().await;
            let mut w = vec![];
            for (bytes, to) in sock.sent() {
                let d = describe(&bytes);
                let fid = d["id"].as_u64().unwrap_or(0) as u16;
                let fr = if fid / 100 == 1 { (fid % 100) as i64 } else { -1 };
                let kind = if to != from { "wrong-dest" } else { kind_of(&d, None) };
                w.push(json!([fr, kind, d["k"]]));
            }
            let alive = panics() == before && !run.is_finished();
            out.push(json!({"sent": w, "alive": alive}));
        }
        out
    });
    if panics() != before {
        return json!({"panic": true, "steps": obs});
    }
    json!(obs)
}

fn main() {
    count_panics();
    run_cases_counting(|input| match input["kind"].as_str() {
        Some("size") => run_size(input),
        Some("conn") => run_conn(input),
        Some("dgram") => run_dgram(input),
        Some("cfg") => {
            let c = stream::Config::default();
            json!({"max_concurrent_connections": c.max_concurrent_connections(),
                   "accept_connections_at_max": c.accept_connections_at_max()})
        }
        _ => json!({"bad_case": true}),
    });
}

/// `run_cases` installs a silent panic hook; ours counts as well, so
/// install it again afterwards is not possible (run_cases owns the loop).
/// Instead wrap: run_cases calls `quiet_panics()` first, then we re-install
/// the counting hook lazily on the first case.
fn run_cases_counting<F: FnMut(&Value) -> Value>(mut f: F) {
    let mut installed = false;
    run_cases(move |input| {
        if !installed {
            count_panics();
            installed = true;
        }
        f(input)
    });
}
