//! S->I executor for Server.tla (C16).
//!
//! Case kinds:
//!  * "size":  one request through the real middleware stack
//!             Mandatory(Edns(Cookies(scripted service))) with a UDP or
//!             non-UDP transport context; the scripted service answers with a
//!             response of the prescribed size / OPT size.
//!  * "conn":  a behaviour of the stream connection machine: the real
//!             `StreamServer`/`Connection` over controllable mock streams,
//!             paused clock, current-thread runtime, stepped to quiescence
//!             after every op; observation after *every* op.
//!  * "dgram": the real `DgramServer` over a mock datagram socket.
//!  * "pre":   one request of any shape through a stack of any configuration
//!             (Server.tla part 1b): who answers, with what.
//!  * "sock":  a "size" case and a follow-up request through `DgramServer` /
//!             `StreamServer` on real loopback sockets, multi-thread runtime.
#[path = "../server.rs"]
mod server;

use std::collections::HashMap;
use std::net::SocketAddr;
use std::sync::{Arc, Mutex};
use std::time::Duration;

use domain::base::Message;
use domain::net::server::buf::VecBufSource;
use domain::net::server::dgram::{self, DgramServer};
use domain::net::server::message::{
    NonUdpTransportContext, Request, TransportSpecificContext, UdpTransportContext,
};
use domain::net::server::service::{Service, ServiceFeedback};
use domain::net::server::stream::{self, StreamServer};
use domain::net::server::ConnectionConfig;
use futures_util::stream::Stream as _;
use futures_util::StreamExt;
use serde_json::{json, Value};
use server::*;
use verif_harness::common::*;

/// idle timeout = write timeout = 2 half ticks
const HALF: Duration = Duration::from_secs(5);

fn rt() -> tokio::runtime::Runtime {
    tokio::runtime::Builder::new_current_thread()
        .enable_time()
        .start_paused(true)
        .build()
        .unwrap()
}

fn opt_u16(v: &Value) -> Option<u16> {
    match v.as_i64() {
        Some(n) if (0..=65535).contains(&n) => Some(n as u16),
        _ => None,
    }
}

//------------ size ----------------------------------------------------------

const CLIENT: &str = "192.0.2.1:5300";

/// What one call of the stack yields: per stream item the complete stream
/// slice (prefix + message; empty for Err), and the size hints before the
/// first poll and after every item.
struct Driven {
    items: Vec<Vec<u8>>,
    hints: Vec<(usize, Option<usize>)>,
    as_target_same: bool,
    response_accessor_same: bool,
}

async fn drive<S>(st: &S, req: Request<Vec<u8>, ()>) -> Driven
where
    S: Service<Vec<u8>, ()>,
    S::Target: AsRef<[u8]>,
{
    let mut stream = st.call(req).await;
    let mut d = Driven {
        items: vec![],
        hints: vec![stream.size_hint()],
        as_target_same: true,
        response_accessor_same: true,
    };
    while let Some(item) = stream.next().await {
        match item {
            Ok(cr) => {
                // CallResult::response() is the response into_inner() hands out
                let seen = cr.response().map(|r| r.as_slice().to_vec());
                if let (Some(r), _) = cr.into_inner() {
                    if seen.as_deref() != Some(r.as_slice()) {
                        d.response_accessor_same = false;
                    }
                    let t = r.finish();
                    if t.as_target().as_ref() != t.as_stream_slice() {
                        d.as_target_same = false;
                    }
                    d.items.push(t.as_stream_slice().to_vec());
                }
            }
            Err(_) => d.items.push(vec![]),
        }
        d.hints.push(stream.size_hint());
    }
    d
}

fn hints_json(h: &[(usize, Option<usize>)]) -> Value {
    json!(h
        .iter()
        .map(|(lo, hi)| json!([lo, hi.map(|x| x as i64).unwrap_or(70000)]))
        .collect::<Vec<_>>())
}

fn mk_request(bytes: &[u8], udp: bool, hint: Option<u16>) -> Request<Vec<u8>, ()> {
    let msg = Message::from_octets(bytes.to_vec()).unwrap();
    let ctx: TransportSpecificContext = if udp {
        UdpTransportContext::new(hint).into()
    } else {
        NonUdpTransportContext::new(Some(HALF * 2)).into()
    };
    Request::new(CLIENT.parse().unwrap(), tokio::time::Instant::now(), msg, ctx, ())
}

fn size_inputs(input: &Value) -> (bool, Option<u16>, AnsSpec, Vec<u8>, StackCfg) {
    let udp = input["udp"].as_bool().unwrap_or(true);
    let edns = if input["edns"].as_bool().unwrap_or(false) {
        opt_u16(&input["csize"])
    } else {
        None
    };
    let hint = opt_u16(&input["hint"]);
    let qlen = input["qlen"].as_u64().unwrap_or(17) as usize;
    let spec = AnsSpec {
        len: input["len"].as_u64().unwrap_or(100) as usize,
        optlen: input["optlen"].as_u64().unwrap_or(0) as usize,
        recipe: input["recipe"].as_str().unwrap_or("plain").into(),
        route: input["route"].as_str().unwrap_or("mk").into(),
        alay: input["alay"].as_str().unwrap_or("none").into(),
    };
    let req_bytes =
        mk_query_opts(0x4321, qlen, edns, false, input["ropts"].as_str().unwrap_or("none"));
    let cfg = StackCfg {
        edns_on: input["eon"].as_bool().unwrap_or(true),
        ..Default::default()
    };
    (udp, hint, spec, req_bytes, cfg)
}

fn run_size(input: &Value) -> Value {
    let (udp, hint, spec, req_bytes, cfg) = size_inputs(input);
    let id = 0x4321u16;
    let before = panics();
    let rb = req_bytes.clone();
    let svcroute = input["svcroute"].as_str().unwrap_or("impl").to_string();
    let tgt = input["tgt"].as_str().unwrap_or("vec").to_string();
    let (d, state) = rt().block_on(async move {
        let req = mk_request(&rb, udp, hint);
        if svcroute == "fn" {
            // the service is made with util::service_fn
            let state: Arc<Mutex<SvcState>> = Default::default();
            let svc = domain::net::server::util::service_fn(fn_handler, (spec, state.clone()));
            let st = stack_over(svc, &cfg);
            (drive(&st, req).await, state)
        } else if tgt == "bytes" {
            let svc = ScriptSvc::<bytes::BytesMut>::default();
            svc.script(id, vec![Item::RespX { spec, fb: None }], 1);
            let st = stack_over(svc.clone(), &cfg);
            (drive(&st, req).await, svc.0.clone())
        } else {
            let svc = ScriptSvc::<Vec<u8>>::default();
            svc.script(id, vec![Item::RespX { spec, fb: None }], 1);
            let st = stack_over(svc.clone(), &cfg);
            (drive(&st, req).await, svc.0.clone())
        }
    });
    if panics() != before {
        return json!({"panic": true});
    }
    if d.items.len() != 1 {
        return json!({"n": d.items.len()});
    }
    let whole = &d.items[0];
    if whole.len() < 2 {
        return json!({"n": 1, "err": true});
    }
    let dg = describe(&whole[2..]);
    let reqd = describe(&req_bytes);
    let good = dg["parses"] == json!(true)
        && dg["id"] == json!(id)
        && dg["qr"] == json!(true)
        && dg["rd"] == json!(true)
        && dg["q"] == reqd["q"]
        && dg["ns"] == json!(0)
        && d.as_target_same
        && d.response_accessor_same;
    let s = state.lock().unwrap();
    let (reserved, hint_after) = s
        .arrived
        .first()
        .map(|a| (a.1 as i64, a.2.map(|h| h as i64).unwrap_or(70000)))
        .unwrap_or((-1, -2));
    json!({
        "n": 1,
        "len": dg["len"],
        "tc": dg["tc"],
        "trunc": dg["an"] == json!(0),
        "opt": dg["opt"],
        "good": good,
        "reserved": reserved,
        "hint": hint_after,
        // what a stream transport would put in front of the message
        "frame": if udp { -1 } else { u16::from_be_bytes([whole[0], whole[1]]) as i64 },
        "fwd": s.fwd.first().copied().unwrap_or(false),
        "nonudp": s.non_udp.first().copied().unwrap_or(udp),
        "hints": hints_json(&d.hints),
    })
}

//------------ sock ----------------------------------------------------------

/// The servers as deployed: a multi-thread runtime and the operating
/// system's sockets (`impl AsyncDgramSock for UdpSocket`, `impl AsyncAccept
/// for TcpListener`), on the loopback interface.
fn sock_rt() -> &'static tokio::runtime::Runtime {
    static RT: std::sync::OnceLock<tokio::runtime::Runtime> = std::sync::OnceLock::new();
    RT.get_or_init(|| {
        tokio::runtime::Builder::new_multi_thread()
            .worker_threads(2)
            .enable_all()
            .build()
            .unwrap()
    })
}

const SOCK_WAIT: Duration = Duration::from_secs(30);

/// A "size" case over real sockets, followed on the same socket /
/// connection (pipelined, in one write) by a plain request: both are
/// answered, each with its own ID, the stream answers correctly framed.
fn run_sock(input: &Value) -> Value {
    use std::io::{Read, Write};
    let (udp, hint, spec, req_bytes, cfg) = size_inputs(input);
    let id = 0x4321u16;
    let id2 = 0x4322u16;
    let follow = mk_query(id2, 17, None, false);
    let before = panics();
    let svc = ScriptSvc::<Vec<u8>>::default();
    svc.script(id, vec![Item::RespX { spec, fb: None }], 1);
    svc.script(id2, vec![Item::Resp { len: 0, optlen: 0, fb: None }], 1);
    let st = Arc::new(stack_over(svc.clone(), &cfg));
    let rt = sock_rt();
    // (first answer, follow-up answer) as read from the wire; for streams
    // the first element of each is the length prefix
    let got: Result<Vec<(i64, Vec<u8>)>, &'static str> = if udp {
        let sock = match rt.block_on(tokio::net::UdpSocket::bind("127.0.0.1:0")) {
            Ok(s) => s,
            Err(_) => return json!({"setup_failed": "bind"}),
        };
        let addr = sock.local_addr().unwrap();
        let mut dcfg = dgram::Config::new();
        dcfg.set_max_response_size(hint);
        let srv = Arc::new(DgramServer::with_config(sock, VecBufSource, st, dcfg));
        let run = {
            let s = srv.clone();
            rt.spawn(async move { s.run().await })
        };
        let client = std::net::UdpSocket::bind("127.0.0.1:0").unwrap();
        client.set_read_timeout(Some(SOCK_WAIT)).unwrap();
        let mut out = vec![];
        let mut res = Ok(());
        for q in [&req_bytes, &follow] {
            let mut buf = vec![0u8; 65536];
            if client.send_to(q, addr).is_err() {
                res = Err("send");
                break;
            }
            match client.recv_from(&mut buf) {
                Ok((n, from)) if from == addr => out.push((-1, buf[..n].to_vec())),
                Ok(_) => {
                    res = Err("wrong-source");
                    break;
                }
                Err(_) => {
                    res = Err("timeout");
                    break;
                }
            }
        }
        let _ = srv.shutdown();
        run.abort();
        res.map(|_| out)
    } else {
        let listener = match rt.block_on(tokio::net::TcpListener::bind("127.0.0.1:0")) {
            Ok(s) => s,
            Err(_) => return json!({"setup_failed": "bind"}),
        };
        let addr = listener.local_addr().unwrap();
        let srv = Arc::new(StreamServer::with_config(listener, VecBufSource, st, stream::Config::new()));
        let run = {
            let s = srv.clone();
            rt.spawn(async move { s.run().await })
        };
        let res = (|| {
            let mut c = std::net::TcpStream::connect(addr).map_err(|_| "connect")?;
            c.set_read_timeout(Some(SOCK_WAIT)).unwrap();
            let mut both = frame(&req_bytes);
            both.extend_from_slice(&frame(&follow));
            c.write_all(&both).map_err(|_| "write")?;
            let mut out = vec![];
            for _ in 0..2 {
                let mut l = [0u8; 2];
                c.read_exact(&mut l).map_err(|_| "timeout")?;
                let n = u16::from_be_bytes(l) as usize;
                let mut body = vec![0u8; n];
                c.read_exact(&mut body).map_err(|_| "timeout")?;
                out.push((n as i64, body));
            }
            Ok(out)
        })();
        let _ = srv.shutdown();
        run.abort();
        res
    };
    if panics() != before {
        return json!({"panic": true});
    }
    let got = match got {
        Ok(g) => g,
        Err(e) => return json!({"n": 0, "failed": e}),
    };
    // the two request tasks of a connection run concurrently: match by ID
    let find = |want: u16| got.iter().find(|g| describe(&g.1)["id"] == json!(want));
    let (Some(first), Some(second)) = (find(id), find(id2)) else {
        return json!({"n": got.len(), "failed": "ids"});
    };
    let dg = describe(&first.1);
    let reqd = describe(&req_bytes);
    let good = dg["parses"] == json!(true)
        && dg["qr"] == json!(true)
        && dg["rd"] == json!(true)
        && dg["q"] == reqd["q"]
        && dg["ns"] == json!(0);
    let d2 = describe(&second.1);
    let then = if second.0 >= 0 && second.0 as usize != second.1.len() {
        "misframed"
    } else {
        kind_of(&d2, Some(&describe(&follow)["q"]))
    };
    let s = svc.0.lock().unwrap();
    let (reserved, hint_after) = s
        .arrived
        .iter()
        .find(|a| a.0 == id)
        .map(|a| (a.1 as i64, a.2.map(|h| h as i64).unwrap_or(70000)))
        .unwrap_or((-1, -2));
    json!({
        "n": 1,
        "len": dg["len"],
        "tc": dg["tc"],
        "trunc": dg["an"] == json!(0),
        "opt": dg["opt"],
        "good": good,
        "reserved": reserved,
        "hint": hint_after,
        "frame": first.0,
        "then": then,
    })
}

//------------ pre -----------------------------------------------------------

/// One request of any shape through a stack of any configuration: who
/// answers, with what.
fn run_pre(input: &Value) -> Value {
    let udp = input["udp"].as_bool().unwrap_or(true);
    let client: std::net::SocketAddr = CLIENT.parse().unwrap();
    let cfg = StackCfg::from_json(&input["cfg"], client.ip());
    let r = &input["req"];
    let id = 0x5a5au16;
    let nopt = r["nopt"].as_u64().unwrap_or(0) as usize;
    let ck = r["ck"].clone();
    let before = panics();
    let out = rt().block_on(async move {
        let svc = ScriptSvc::<Vec<u8>>::default();
        let st = stack_over(svc.clone(), &cfg);
        // the COOKIE option
        let mut ckdata = if ck["form"].as_str() == Some("badlen") {
            let n = ck["d"][0].as_u64().unwrap_or(0);
            cookie_data(&json!({"form": "len", "n": n}), client.ip(), &SECRET)
        } else {
            cookie_data(&ck, client.ip(), &SECRET)
        };
        if cfg.random_secret && ck["form"].as_str() == Some("std") && ck["hash"].as_str() == Some("ok")
        {
            // nobody knows the secret: ask the server for a cookie first
            // (RFC 7873 5.4: QDCOUNT 0, client cookie only) and present it
            let ask = mk_query_raw(&RawReq {
                id: 0x0101,
                qlen: 17,
                qd: 0,
                opcode: 0,
                qr: false,
                opts: vec![(1232, 0, vec![(10, CLIENT_COOKIE.to_vec())])],
            });
            let got = drive(&st, mk_request(&ask, udp, Some(1232))).await;
            ckdata = got.items.first().and_then(|w| response_cookie(&w[2..]));
            if ckdata.is_none() {
                return Err("no cookie obtained");
            }
        }
        let mut options: Vec<(u16, Vec<u8>)> = vec![];
        if r["kato"].as_bool().unwrap_or(false) {
            options.push((11, vec![0, 100]));
        }
        if let Some(c) = ckdata {
            options.push((10, c));
        }
        let mut opts = vec![];
        if nopt >= 1 {
            opts.push((1232u16, r["ver"].as_u64().unwrap_or(0) as u8, options));
        }
        if nopt >= 2 {
            opts.push((4096u16, 0u8, vec![]));
        }
        let bytes = mk_query_raw(&RawReq {
            id,
            qlen: 17,
            qd: r["qd"].as_u64().unwrap_or(1) as u16,
            opcode: if r["opcode"].as_str() == Some("iquery") { 1 } else { 0 },
            qr: false,
            opts,
        });
        svc.script(id, vec![Item::Resp { len: 0, optlen: 0, fb: None }], 1);
        let d = drive(&st, mk_request(&bytes, udp, Some(1232))).await;
        let reached = svc.0.lock().unwrap().arrived.iter().any(|a| a.0 == id);
        Ok((d, bytes, reached))
    });
    if panics() != before {
        return json!({"panic": true});
    }
    let (d, req_bytes, reached) = match out {
        Ok(x) => x,
        Err(e) => return json!({"setup_failed": e}),
    };
    if d.items.len() != 1 || d.items[0].len() < 2 {
        return json!({"n": d.items.len()});
    }
    let whole = &d.items[0];
    let dg = describe(&whole[2..]);
    let reqd = describe(&req_bytes);
    let framed = u16::from_be_bytes([whole[0], whole[1]]) as usize == whole.len() - 2;
    let good = dg["parses"] == json!(true)
        && dg["id"] == json!(id)
        && dg["qr"] == json!(true)
        && dg["rd"] == json!(true)
        && framed
        && d.as_target_same;
    let q = if dg["q"] == reqd["q"] {
        "req"
    } else if dg["q"] == json!([]) {
        "none"
    } else {
        "other"
    };
    let by = if reached {
        "service"
    } else {
        // a mandatory-made response is a ready one-item stream; the inner
        // two are told apart by what they answer (rcode, question, cookie)
        match d.hints.first() {
            Some((1, Some(1))) => "mandatory",
            _ => "inner",
        }
    };
    json!({
        "n": 1,
        "by": by,
        "rcode": dg["xrcode"],
        "tc": dg["tc"],
        "q": q,
        "ck": dg["ck"],
        "good": good && dg["nck"].as_u64().unwrap_or(9) <= 1,
        "hints": hints_json(&d.hints),
    })
}

//------------ conn ----------------------------------------------------------

fn script_for(svc: &str) -> Vec<Item> {
    let r = |fb| Item::Resp { len: 0, optlen: 0, fb };
    let rx = |recipe: &str, optlen: usize| Item::RespX {
        spec: AnsSpec { len: 0, optlen, recipe: recipe.into(), ..Default::default() },
        fb: None,
    };
    let reconf = |halfticks: u32| {
        Some(ServiceFeedback::Reconfigure { idle_timeout: Some(HALF * halfticks) })
    };
    match svc {
        "rlong" => vec![r(reconf(4))],
        "rshort" => vec![r(reconf(1))],
        "big" => vec![Item::Resp { len: 1840, optlen: 0, fb: None }],
        "mid" => vec![Item::Resp { len: 300, optlen: 0, fb: None }],
        "huge" => vec![Item::Resp { len: 5000, optlen: 0, fb: None }],
        "xfr" => vec![
            Item::Feedback(ServiceFeedback::BeginTransaction),
            r(None),
            r(None),
            r(None),
            r(None),
            Item::Feedback(ServiceFeedback::EndTransaction),
        ],
        "fblong" => vec![
            Item::Feedback(ServiceFeedback::Reconfigure { idle_timeout: Some(HALF * 4) }),
            r(None),
        ],
        // the service attaches an OPT record although the request had none
        "strip" => vec![rx("plain", 11)],
        "strip2" => vec![rx("plain", 11), rx("rewind", 11)],
        // the service fills its message until a push fails
        "fill" => vec![rx("filllimit", 0)],
        "fill64" => vec![rx("fill64k", 0)],
        "ffail" => vec![Item::FailWith("formerr")],
        "refuse" => vec![Item::FailWith("refused")],
        "nimp" => vec![Item::FailWith("notimp")],
        "single" => vec![r(None)],
        "stream2" => vec![r(None), r(None)],
        "fail" => vec![Item::Fail],
        "empty" => vec![],
        "rfail" => vec![r(None), Item::Fail, r(None)],
        "txn" => vec![
            r(Some(ServiceFeedback::BeginTransaction)),
            r(None),
            r(Some(ServiceFeedback::EndTransaction)),
        ],
        _ => vec![r(None)],
    }
}

fn kind_of(d: &Value, want_q: Option<&Value>) -> &'static str {
    if d["parses"] != json!(true) || d["qr"] != json!(true) {
        return "bad";
    }
    if d["tc"] == json!(true) {
        return "trunc";
    }
    if let Some(q) = want_q {
        if &d["q"] != q {
            return "badq";
        }
    }
    match d["rcode"].as_u64() {
        Some(0) => "ans",
        Some(1) => "formerr",
        Some(2) => "servfail",
        Some(4) => "notimp",
        Some(5) => "refused",
        _ => "other",
    }
}

fn run_conn(input: &Value) -> Value {
    let qcap = input["q"].as_u64().unwrap_or(1) as usize;
    let nc = input["nc"].as_u64().unwrap_or(1) as u16;
    let limit = input["limit"].as_u64().unwrap_or(100) as usize;
    // octets one poll_write of the mock transport accepts (0 = all)
    let chunk: usize = arg_value("--chunk").and_then(|s| s.parse().ok()).unwrap_or(0);
    let ops = input["ops"].as_array().cloned().unwrap_or_default();
    // defaults: no explicit configuration at all; one half tick is then half
    // of the *documented* idle / write timeout (30 s)
    let defaults = input["defaults"].as_bool().unwrap_or(false);
    let half = if defaults { Duration::from_secs(15) } else { HALF };
    let before = panics();
    let obs = rt().block_on(async move {
        let listener = MockListener::default();
        let svc = ScriptSvc::<Vec<u8>>::default();
        let st = Arc::new(stack(svc.clone()));
        let mut cfg = stream::Config::new();
        let mut cc = ConnectionConfig::new();
        cc.set_idle_timeout(HALF * 2);
        cc.set_response_write_timeout(HALF * 2);
        cc.set_max_queued_responses(qcap);
        cfg.set_connection_config(cc);
        cfg.set_max_concurrent_connections(limit);
        if !input["aam"].as_bool().unwrap_or(true) {
            cfg.set_accept_connections_at_max(false);
        }
        let srv = Arc::new(if defaults {
            StreamServer::new(listener.clone(), VecBufSource, st)
        } else {
            StreamServer::with_config(listener.clone(), VecBufSource, st, cfg)
        });
        let run = {
            let s = srv.clone();
            tokio::spawn(async move { s.run().await })
        };
        settle().await;
        let mut ios: HashMap<u16, IoHandle> = HashMap::new();
        let mut rest: HashMap<u16, Vec<u8>> = HashMap::new();
        let mut questions: HashMap<u16, Value> = HashMap::new();
        let mut shut = false;
        let mut out = vec![];
        for op in &ops {
            let c = op["c"].as_u64().unwrap_or(0) as u16;
            let r = op["r"].as_u64().unwrap_or(0) as u16;
            let id = c * 100 + r;
            match op["op"].as_str().unwrap_or("") {
                "open" => {
                    let (io, h) = mock_io_chunked(Some(0), chunk);
                    let addr: SocketAddr = format!("192.0.2.{}:40000", c).parse().unwrap();
                    listener.connect_with(io, addr, op["what"].as_str() != Some("fail"));
                    ios.insert(c, h);
                }
                "send" => {
                    let what = op["what"].as_str().unwrap_or("query");
                    let bytes = match what {
                        "short" => frame(&[1, 2, 3, 4, 5]),
                        "reply" => frame(&mk_query(id, 5 + 4 + r as usize, Some(1232), true)),
                        _ => {
                            let kind = op["svc"].as_str().unwrap_or("single");
                            svc.script(id, script_for(kind), 0);
                            let ip: std::net::IpAddr = format!("192.0.2.{}", c).parse().unwrap();
                            frame(&request_for(kind, id, 5 + 4 + r as usize, Some(1232), ip))
                        }
                    };
                    if what != "short" {
                        // Server.tla part 1b: the cookie middleware's own
                        // FORMERR carries no question section
                        let q = if op["svc"].as_str() == Some("cklen") {
                            json!([])
                        } else {
                            describe(&bytes[2..])["q"].clone()
                        };
                        questions.insert(id, q);
                    }
                    if let Some(h) = ios.get(&c) {
                        if what == "partial" {
                            let cut = 2 + (bytes.len() - 2) / 2;
                            h.push(&bytes[..cut]);
                            rest.insert(c, bytes[cut..].to_vec());
                        } else {
                            h.push(&bytes);
                        }
                    }
                }
                "rest" => {
                    if let (Some(h), Some(b)) = (ios.get(&c), rest.remove(&c)) {
                        h.push(&b);
                    }
                }
                "release" => svc.release(id),
                "credit" => {
                    if let Some(h) = ios.get(&c) {
                        h.add_credit(1);
                    }
                }
                "halftick" => tokio::time::advance(half).await,
                "wait" => tokio::time::advance(Duration::from_millis(r as u64)).await,
                "accepterr" => listener.accept_error(),
                "abort" => {
                    if let Some(h) = ios.get(&c) {
                        h.abort();
                    }
                }
                "shutdown" => {
                    shut = true;
                    let _ = srv.shutdown();
                }
                // StreamServer::reconfigure: a new limit / aam, the
                // connection configuration the server was built with
                "sreconf" => {
                    let mut cfg = stream::Config::new();
                    cfg.set_connection_config(cc);
                    cfg.set_max_concurrent_connections(r as usize);
                    cfg.set_accept_connections_at_max(op["what"].as_str() != Some("noaam"));
                    let _ = srv.reconfigure(cfg);
                }
                _ => {}
            }
            settle().await;
            let mut cs = vec![];
            for c in 1..=nc {
                match ios.get(&c) {
                    None => cs.push(json!({"w": [], "cl": false})),
                    Some(h) => {
                        let (frames, left) = deframe(&h.written());
                        let mut w = vec![];
                        for f in &frames {
                            let d = describe(f);
                            let fid = d["id"].as_u64().unwrap_or(0) as u16;
                            let fr = if fid / 100 == c { (fid % 100) as i64 } else { -1 };
                            w.push(json!([fr, kind_of(&d, questions.get(&fid)), d["k"]]));
                        }
                        if left > 0 {
                            w.push(json!([-2, "partial-frame", left]));
                        }
                        cs.push(json!({"w": w, "cl": h.is_closed()}));
                    }
                }
            }
            let alive = panics() == before && (shut || !run.is_finished());
            out.push(json!({"cs": cs, "alive": alive}));
        }
        drop(srv);
        out
    });
    if panics() != before {
        return json!({"panic": true, "steps": obs});
    }
    json!(obs)
}

//------------ dgram ---------------------------------------------------------

fn run_dgram(input: &Value) -> Value {
    let ops = input["ops"].as_array().cloned().unwrap_or_default();
    let hint = opt_u16(&input["hint"]);
    let defaults = input["defaults"].as_bool().unwrap_or(false);
    let before = panics();
    let obs = rt().block_on(async move {
        let sock = MockDgram::default();
        let svc = ScriptSvc::<Vec<u8>>::default();
        let st = Arc::new(stack(svc.clone()));
        let mut cfg = dgram::Config::new();
        cfg.set_max_response_size(hint);
        let srv = Arc::new(if defaults {
            DgramServer::new(sock.clone(), VecBufSource, st)
        } else {
            DgramServer::with_config(sock.clone(), VecBufSource, st, cfg)
        });
        let run = {
            let s = srv.clone();
            tokio::spawn(async move { s.run().await })
        };
        settle().await;
        let from: SocketAddr = "192.0.2.9:5353".parse().unwrap();
        let mut out = vec![];
        for op in &ops {
            let r = op["r"].as_u64().unwrap_or(0) as u16;
            let id = 100 + r;
            match op["op"].as_str().unwrap_or("") {
                "recv" => {
                    let what = op["what"].as_str().unwrap_or("query");
                    if what != "reply" && what != "shortqr" {
                        svc.script(id, script_for(op["svc"].as_str().unwrap_or("single")), 0);
                    }
                    let idb = id.to_be_bytes();
                    let bytes = match what {
                        "short" => vec![idb[0], idb[1]],
                        "shortqr" => vec![idb[0], idb[1], 0x80],
                        "reply" => mk_query(id, 9 + r as usize, None, true),
                        _ if matches!(op["svc"].as_str(), Some("big") | Some("mid")) => {
                            mk_query(id, 9 + r as usize, Some(4096), false)
                        }
                        _ if op["svc"].as_str() == Some("huge") => {
                            mk_query(id, 9 + r as usize, Some(65535), false)
                        }
                        _ => request_for(
                            op["svc"].as_str().unwrap_or("single"),
                            id,
                            9 + r as usize,
                            None,
                            from.ip(),
                        ),
                    };
                    sock.deliver(&bytes, from);
                }
                "release" => svc.release(id),
                "reconf" => {
                    let mut cfg = dgram::Config::new();
                    cfg.set_max_response_size(Some(r));
                    let _ = srv.reconfigure(cfg);
                }
                "spurious" => sock.spurious_readable(),
                "senderr" => sock.fail_next_send(),
                _ => {}
            }
            settle().await;
            let mut w = vec![];
            for (bytes, to) in sock.sent() {
                let d = describe(&bytes);
                let fid = d["id"].as_u64().unwrap_or(0) as u16;
                let fr = if fid / 100 == 1 { (fid % 100) as i64 } else { -1 };
                let kind = if to != from { "wrong-dest" } else { kind_of(&d, None) };
                w.push(json!([fr, kind, d["k"]]));
            }
            let alive = panics() == before && !run.is_finished();
            out.push(json!({"sent": w, "alive": alive}));
        }
        out
    });
    if panics() != before {
        return json!({"panic": true, "steps": obs});
    }
    json!(obs)
}

fn main() {
    count_panics();
    run_cases_counting(|input| match input["kind"].as_str() {
        Some("size") => run_size(input),
        Some("sock") => run_sock(input),
        Some("pre") => run_pre(input),
        Some("conn") => run_conn(input),
        Some("dgram") => run_dgram(input),
        Some("cfg") => {
            let c = stream::Config::default();
            json!({"max_concurrent_connections": c.max_concurrent_connections(),
                   "accept_connections_at_max": c.accept_connections_at_max()})
        }
        _ => json!({"bad_case": true}),
    });
}

/// `run_cases` installs a silent panic hook; ours counts as well, so
/// install it again afterwards is not possible (run_cases owns the loop).
/// Instead wrap: run_cases calls `quiet_panics()` first, then we re-install
/// the counting hook lazily on the first case.
fn run_cases_counting<F: FnMut(&Value) -> Value>(mut f: F) {
    let mut installed = false;
    run_cases(move |input| {
        if !installed {
            count_panics();
            installed = true;
        }
        f(input)
    });
}
