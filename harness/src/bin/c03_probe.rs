// temporary probe (C03 builder) — removed before finishing
use domain::base::name::*;
use std::panic::{catch_unwind, AssertUnwindSafe};
use std::str::FromStr;

fn hex(b: &[u8]) -> String {
    b.iter().map(|x| format!("{:02x}", x)).collect::<Vec<_>>().join(" ")
}

fn main() {
    std::panic::set_hook(Box::new(|_| {}));
    // D_push_253
    let mut b = NameBuilder::new_vec();
    for _ in 0..3 {
        b.append_label(&[b'a'; 63]).unwrap();
    }
    b.append_label(&[b'a'; 60]).unwrap();
    println!("len {} in_label {}", b.len(), b.in_label()); // 192+61=253
    println!("push at 253 closed: {:?} len {}", b.clone().push(b'x'), {
        let mut c = b.clone();
        let _ = c.push(b'x');
        c.len()
    });
    let mut c = b.clone();
    let _ = c.push(b'x');
    let n = c.clone().into_name().unwrap();
    println!("into_name len {} from_octets {:?}", n.len(), Name::from_octets(n.as_slice().to_vec()).is_ok());
    let r = c.clone().finish();
    println!("finish len {} from_octets {:?}", r.len(), RelativeName::from_octets(r.as_slice().to_vec()).is_ok());
    // slice new label plus1
    let mut b = NameBuilder::new_vec();
    for _ in 0..25 {
        b.append_label(b"123456789").unwrap();
    }
    let mut c = b.clone();
    println!("append_slice(4) at 250: {:?} len {}", c.append_slice(b"1234"), c.len());
    // in-label: off-by-one and underflow
    let mut b = NameBuilder::new_vec();
    b.append_slice(&[b'a'; 60]).unwrap();
    println!("cur=60 append_slice(3): {:?}", b.clone().append_slice(b"123"));
    println!("cur=60 append_slice(2): {:?}", b.clone().append_slice(b"12"));
    let mut b = NameBuilder::new_vec();
    b.append_slice(&[b'a'; 63]).unwrap();
    let r = catch_unwind(AssertUnwindSafe(|| {
        let mut c = b.clone();
        let r = c.append_slice(b"x");
        (r, c.len())
    }));
    println!("cur=63 append_slice(1): {:?}", r.map_err(|_| "panic"));
    let mut b = NameBuilder::new_vec();
    b.append_slice(&[b'a'; 62]).unwrap();
    println!("cur=62 append_slice(1): {:?}", b.clone().append_slice(b"x"));
    println!("cur=62 push: {:?}", b.clone().push(b'x'));
    // in-label no total
    let mut b = NameBuilder::new_vec();
    for _ in 0..3 {
        b.append_label(&[b'a'; 63]).unwrap();
    }
    b.append_label(&[b'a'; 58]).unwrap(); // 192+59 = 251
    b.push(b'x').unwrap(); // 253 open cur 1
    println!("len {} open {}", b.len(), b.in_label());
    let mut c = b.clone();
    println!("in-label append_slice(61) at 253: {:?} len {}", c.append_slice(&[b'b'; 61]), c.len());
    println!("  into_name: {:?}", c.clone().into_name().map(|n| n.len()));
    // append_name open label
    let mut b = NameBuilder::new_vec();
    b.push(b'x').unwrap();
    let rel = RelativeName::<Vec<u8>>::from_str("a.b").unwrap();
    println!("append_name open: {:?} octets {} in_label {}", b.append_name(&rel), hex(b.as_slice()), b.in_label());
    // append_label empty
    let mut b = NameBuilder::new_vec();
    b.push(b'x').unwrap();
    println!("append_label(empty): {:?} {} open {}", b.append_label(b""), hex(b.as_slice()), b.in_label());
    // Chain rel+rel 255
    let l = RelativeName::<Vec<u8>>::from_octets([vec![63u8], vec![b'a'; 63], vec![62u8], vec![b'a'; 62]].concat()).unwrap();
    let r = RelativeName::<Vec<u8>>::from_octets([vec![63u8], vec![b'a'; 63], vec![63u8], vec![b'a'; 63]].concat()).unwrap();
    println!("l {} r {}", l.len(), r.len());
    match l.clone().chain(r.clone()) {
        Ok(ch) => {
            println!("chain rel+rel ok compose_len {}", ch.compose_len());
            let rn: RelativeName<Vec<u8>> = ch.to_relative_name();
            println!("  to_relative_name len {} valid {}", rn.len(), RelativeName::from_octets(rn.as_slice().to_vec()).is_ok());
            let r = catch_unwind(AssertUnwindSafe(|| rn.clone().into_absolute().map(|n| n.len())));
            println!("  into_absolute {:?}", r.map_err(|_| "panic"));
        }
        Err(e) => println!("chain rel+rel err {:?}", e),
    }
    // UncertainName::from_octets 255 relative
    let o = [vec![63u8], vec![b'a'; 63], vec![63u8], vec![b'a'; 63], vec![63u8], vec![b'a'; 63], vec![62u8], vec![b'a'; 62]].concat();
    println!("uncertain from_octets len {} -> {:?}", o.len(), UncertainName::from_octets(o.clone()).map(|u| (u.is_relative(), u.as_slice().len())).map_err(|_| "err"));
    // from_str 256
    let s = format!("{}.{}.{}.{}", "a".repeat(63), "a".repeat(63), "a".repeat(63), "a".repeat(60));
    for extra in ["", ".x", ".xy"] {
        let t = format!("{}{}", s, extra);
        println!("from_str {} chars -> {:?}", t.len(), Name::<Vec<u8>>::from_str(&t).map(|n| n.len()).map_err(|e| e.to_string()));
        println!("rel from_str -> {:?}", RelativeName::<Vec<u8>>::from_str(&t).map(|n| n.len()).map_err(|e| e.to_string()));
    }
}
