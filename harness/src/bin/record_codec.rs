//! C19 recorder: random build scripts executed on the established
//! MessageBuilder (TreeCompressor) and on `new::base::build::MessageBuilder`
//! (NameCompressor); each side's output is read by both codecs and compared
//! with the script.  Small outputs are logged with their octets so that TLC
//! re-parses them with Wire.tla (`built` events); outputs that cross the
//! 16384-octet compression limit (filler records) are judged here and logged
//! as `bigbuilt` events with the verdicts.
//!   record_codec <trace.ndjson> <seed> <n_scripts>
#[path = "../wire.rs"]
mod wire;
#[path = "../wire_new.rs"]
mod wire_new;

use domain::base::iana::{Class, Rtype};
use domain::base::message_builder::{MessageBuilder, TreeCompressor};
use domain::base::name::Name;
use domain::base::{Question, Record, Ttl};
use domain::new::base::build::{MessageBuilder as NewBuilder, NameCompressor};
use domain::new::base::name::{Name as NewName, NameBuf, RevNameBuf};
use domain::new::base::wire::{ParseBytes, U16};
use domain::new::base::{HeaderFlags, QClass, QType, RClass, RType, TTL};
use domain::new::rdata as nrd;
use domain::base::rdata::UnknownRecordData;
use domain::rdata::{Cname, Mx, Ns, A};
use serde_json::{json, Value};
use std::panic::{catch_unwind, AssertUnwindSafe};
use std::str::FromStr;
use verif_harness::common::*;

#[derive(Clone, Debug)]
enum Rd {
    Ns(String),
    Cname(String),
    Mx(String),
    A,
    Raw(usize),
}
#[derive(Clone, Debug)]
struct Rec {
    sec: u8, // 1..3
    owner: String,
    rd: Rd,
}
#[derive(Clone, Debug)]
struct Script {
    qname: String,
    recs: Vec<Rec>,
    /// an EDNS record at the end: payload size, extended rcode, version, DO
    edns: Option<(u16, u8, u8, bool)>,
}

const POOL: &[&str] = &[
    "example.com.", "www.example.com.", "WWW.Example.COM.", "mail.example.com.", "a.", "b.a.", "c.b.a.",
    "com.", "x.y.example.com.", "ww.example.com.", "example.org.", "w.example.com.",
];

/// a tree of 56 names with shared suffixes (4 apexes x 13 children + apexes):
/// more distinct names than the new compressor has entries (32), parents and
/// children, so that long scripts force evictions and revisit evicted names
fn tree_name(rng: &mut Rng) -> String {
    const APEX: &[&str] = &["apex.example.", "other.", "third.net.", "deep.sub.zone.org."];
    const CHILD: &[&str] = &["www", "mail", "ns1", "ns2", "ns3", "ns4", "ns5", "ns6", "ns7", "a.b", "x", "WWW", "c.a.b"];
    let a = APEX[rng.below(APEX.len() as u64) as usize];
    if rng.chance(1, 8) {
        a.to_string()
    } else {
        format!("{}.{}", CHILD[rng.below(CHILD.len() as u64) as usize], a)
    }
}

fn labels_of(s: &str) -> Value {
    let n = Name::<Vec<u8>>::from_str(s).unwrap();
    Value::Array(
        n.iter().filter(|l| !l.is_root()).map(|l| json_bytes(&l.as_slice().to_ascii_lowercase())).collect(),
    )
}

fn lower(v: &Value) -> Value {
    // lower-case every label octet: a compressor may point to an equal name
    // that differs in case
    match v {
        Value::Array(a) => Value::Array(a.iter().map(lower).collect()),
        Value::Number(n) => {
            let x = n.as_u64().unwrap_or(0);
            json!(if (65..=90).contains(&x) { x + 32 } else { x })
        }
        o => o.clone(),
    }
}

/// what a reader must see (names lower-cased, only the name fields)
fn expected_items(s: &Script) -> Value {
    let mut items = vec![json!([0, [labels_of(&s.qname), 1, 1]])];
    for r in &s.recs {
        let (t, names) = match &r.rd {
            Rd::Ns(n) => (2, vec![labels_of(n)]),
            Rd::Cname(n) => (5, vec![labels_of(n)]),
            Rd::Mx(n) => (15, vec![labels_of(n)]),
            Rd::A => (1, vec![]),
            Rd::Raw(_) => (65280, vec![]),
        };
        items.push(json!([r.sec, [labels_of(&r.owner), t, 1, 0, 60, names, []]]));
    }
    if let Some((udp, ext, ver, dok)) = s.edns {
        let flags: u16 = if dok { 0x8000 } else { 0 };
        items.push(json!([4, [[], 41, udp, (u16::from(ext) << 8) | u16::from(ver), flags, [], []]]));
    }
    Value::Array(items)
}

fn lower_items(view: &Value) -> Value {
    // lower-case only the name fields of a flattened view
    let mut out = vec![];
    for it in view["items"].as_array().cloned().unwrap_or_default() {
        let tag = it[0].clone();
        let body = it[1].as_array().cloned().unwrap_or_default();
        let mut nb = body.clone();
        if !nb.is_empty() {
            nb[0] = lower(&body[0]);
        }
        if nb.len() == 7 {
            nb[5] = lower(&body[5]);
        }
        out.push(json!([tag, nb]));
    }
    Value::Array(out)
}

fn build_old(s: &Script) -> Result<Vec<u8>, String> {
    let name = |x: &str| Name::<Vec<u8>>::from_str(x).unwrap();
    let mb = MessageBuilder::from_target(TreeCompressor::new(Vec::new())).map_err(|_| "target")?;
    let mut qb = mb.question();
    qb.header_mut().set_id(0x1234);
    qb.header_mut().set_qr(true);
    qb.push(Question::new(name(&s.qname), Rtype::A, Class::IN)).map_err(|e| e.to_string())?;
    let ttl = Ttl::from_secs(60);
    let mut ab = qb.answer();
    macro_rules! push {
        ($b:expr, $r:expr) => {
            match &$r.rd {
                Rd::Ns(n) => $b.push(Record::new(name(&$r.owner), Class::IN, ttl, Ns::new(name(n)))),
                Rd::Cname(n) => $b.push(Record::new(name(&$r.owner), Class::IN, ttl, Cname::new(name(n)))),
                Rd::Mx(n) => $b.push(Record::new(name(&$r.owner), Class::IN, ttl, Mx::new(10, name(n)))),
                Rd::A => $b.push(Record::new(name(&$r.owner), Class::IN, ttl, A::from_octets(1, 2, 3, 4))),
                Rd::Raw(k) => $b.push(Record::new(
                    name(&$r.owner),
                    Class::IN,
                    ttl,
                    UnknownRecordData::from_octets(Rtype::from_int(65280), vec![7u8; *k]).unwrap(),
                )),
            }
            .map_err(|e| e.to_string())?
        };
    }
    for r in s.recs.iter().filter(|r| r.sec == 1) {
        push!(ab, r);
    }
    let mut nb = ab.authority();
    for r in s.recs.iter().filter(|r| r.sec == 2) {
        push!(nb, r);
    }
    let mut xb = nb.additional();
    for r in s.recs.iter().filter(|r| r.sec == 3) {
        push!(xb, r);
    }
    if let Some((udp, ext, ver, dok)) = s.edns {
        xb.opt(|o| {
            o.set_udp_payload_size(udp);
            o.set_rcode(domain::base::iana::OptRcode::masked_from_int(u16::from(ext) << 4));
            o.set_version(ver);
            o.set_dnssec_ok(dok);
            Ok(())
        })
        .map_err(|e| e.to_string())?;
    }
    Ok(xb.finish().into_target())
}

fn build_new(s: &Script, bufsize: usize) -> Result<Vec<u8>, String> {
    let mut buffer = vec![0u8; bufsize];
    let mut compressor = NameCompressor::default();
    let mut flags = HeaderFlags::default();
    flags.set_qr(true);
    let mut b = NewBuilder::new(&mut buffer, &mut compressor, U16::new(0x1234), flags);
    let rn = |x: &str| RevNameBuf::from_str(x).unwrap();
    let nn = |x: &str| NameBuf::from_str(x).unwrap();
    b.push_question(&domain::new::base::Question { qname: rn(&s.qname), qtype: QType::A, qclass: QClass::IN })
        .map_err(|e| e.to_string())?;
    for r in &s.recs {
        let raw;
        // the RDATA name goes through the forward-name path of the compressor
        // (compress_name), the owner through the reversed one (compress_revname)
        let holder: NameBuf = match &r.rd {
            Rd::Ns(n) | Rd::Cname(n) | Rd::Mx(n) => nn(n),
            _ => nn("a."),
        };
        let nref: &NewName = &holder;
        let rdata: nrd::RecordData<'_, &NewName> = match &r.rd {
            Rd::Ns(_) => nrd::RecordData::Ns(nrd::Ns { server: nref }),
            Rd::Cname(_) => nrd::RecordData::CName(nrd::CName { name: nref }),
            Rd::Mx(_) => nrd::RecordData::Mx(nrd::Mx { preference: U16::new(10), exchange: nref }),
            Rd::A => nrd::RecordData::A(nrd::A { octets: [1, 2, 3, 4] }),
            Rd::Raw(k) => {
                raw = vec![7u8; *k];
                nrd::RecordData::Unknown(RType::from(65280u16), <&nrd::UnknownRecordData>::parse_bytes(&raw).unwrap())
            }
        };
        let t: u16 = match &r.rd {
            Rd::Ns(_) => 2,
            Rd::Cname(_) => 5,
            Rd::Mx(_) => 15,
            Rd::A => 1,
            Rd::Raw(_) => 65280,
        };
        let rec = domain::new::base::Record {
            rname: rn(&r.owner),
            rtype: RType::from(t),
            rclass: RClass::IN,
            ttl: TTL::from(60),
            rdata,
        };
        match r.sec {
            1 => b.push_answer(&rec).map_err(|e| e.to_string())?,
            2 => b.push_authority(&rec).map_err(|e| e.to_string())?,
            _ => b.push_additional(&rec).map_err(|e| e.to_string())?,
        }
    }
    if let Some((udp, ext, ver, dok)) = s.edns {
        use domain::new::edns::{EdnsFlags, EdnsRecord};
        let e = EdnsRecord {
            max_udp_payload: U16::new(udp),
            ext_rcode: ext,
            version: ver,
            flags: EdnsFlags::default().set_dnssec_ok(dok),
            data: domain::new::base::wire::SizePrefixed::new(nrd::Opt::EMPTY),
        };
        // both public routes: push_edns and push(MessageItem::Edns)
        if udp % 2 == 0 {
            b.push_edns(&e).map_err(|e| e.to_string())?;
        } else {
            b.push(&domain::new::base::MessageItem::<(), (), _>::Edns(e)).map_err(|e| e.to_string())?;
        }
    }
    let msg = b.finish();
    let mut out = vec![];
    out.extend_from_slice(domain::new::base::wire::AsBytes::as_bytes(&msg.header));
    out.extend_from_slice(&msg.contents);
    Ok(out)
}

/// every compression pointer in the names of `m` must point backwards,
/// below 16384, and the names must be what the script pushed; judged by
/// reading `m` with both codecs
fn judge(m: &[u8], want: &Value) -> Value {
    let o = catch_unwind(AssertUnwindSafe(|| wire_new::old_view(m, &[], &wire_new::Mask::none())["msg"].clone())).unwrap_or(json!({"panic": true}));
    let n = catch_unwind(AssertUnwindSafe(|| wire_new::new_view(m, &[], &wire_new::Mask::none())["msg"].clone())).unwrap_or(json!({"panic": true}));
    json!({
        "old_reads": o["end"] == json!("done") && &lower_items(&o) == want,
        "new_reads": n["end"] == json!("done") && &lower_items(&n) == want,
    })
}

fn gen_long_script(rng: &mut Rng) -> Script {
    let mut recs = vec![];
    let mut sec = 1u8;
    let n = 50 + rng.below(60);
    // a working set that drifts through the tree: names are revisited soon
    // after their first use and again much later
    let mut recent: Vec<String> = vec![];
    for i in 0..n {
        if sec < 3 && i > 0 && i % (n / 3).max(1) == 0 {
            sec += 1;
        }
        let mut pick = |rng: &mut Rng, recent: &mut Vec<String>| {
            if !recent.is_empty() && rng.chance(1, 3) {
                recent[rng.below(recent.len() as u64) as usize].clone()
            } else {
                let x = tree_name(rng);
                recent.push(x.clone());
                x
            }
        };
        let owner = pick(rng, &mut recent);
        let rd = match rng.below(4) {
            0 => Rd::Ns(pick(rng, &mut recent)),
            1 => Rd::Cname(pick(rng, &mut recent)),
            2 => Rd::Mx(pick(rng, &mut recent)),
            _ => Rd::A,
        };
        recs.push(Rec { sec, owner, rd });
    }
    Script { qname: tree_name(rng), recs, edns: None }
}

/// More parent/child pairs than the new compressor has entries (32): a
/// parent name is pushed, then a child of it, for 17..40 distinct parents
/// with the same few child labels, through the owner (reversed-name) and
/// the RDATA (forward-name) path; then some pairs are revisited.  Whatever
/// the compressor evicts, a child must never be resolved under another
/// parent.
fn gen_evict_script(rng: &mut Rng) -> Script {
    let childs = ["www", "ns1", "a.b"];
    let c = childs[rng.below(3) as usize];
    let shared = rng.chance(1, 2);
    let npar = 17 + rng.below(24);
    let parent = |i: u64| if shared { format!("p{}.example.", i) } else { format!("zone{}.", i) };
    let mut recs = vec![];
    let mut sec = 1u8;
    let mut push_pair = |rng: &mut Rng, recs: &mut Vec<Rec>, sec: u8, i: u64| {
        let p = parent(i);
        let ch = format!("{}.{}", c, p);
        match rng.below(3) {
            0 => {
                recs.push(Rec { sec, owner: p, rd: Rd::A });
                recs.push(Rec { sec, owner: ch, rd: Rd::A });
            }
            1 => {
                recs.push(Rec { sec, owner: p.clone(), rd: Rd::Ns(p) });
                recs.push(Rec { sec, owner: "a.".into(), rd: Rd::Cname(ch) });
            }
            _ => {
                recs.push(Rec { sec, owner: "a.".into(), rd: Rd::Ns(p) });
                recs.push(Rec { sec, owner: ch.clone(), rd: Rd::Mx(ch) });
            }
        }
    };
    for i in 0..npar {
        if sec < 3 && i > 0 && i % 14 == 0 {
            sec += 1;
        }
        push_pair(rng, &mut recs, sec, i);
    }
    for _ in 0..rng.below(8) {
        let i = rng.below(npar);
        push_pair(rng, &mut recs, sec, i);
    }
    Script { qname: format!("{}.{}", c, parent(rng.below(npar))), recs, edns: None }
}

/// Names that share a first label and a non-adjacent suffix: for labels a,
/// b, c the triples {c., a.b.c., a.c.} and {b.c., a.b.c., a.c.} (plus a
/// fourth relative), in every order, through the owner (reversed-name) or
/// the RDATA (forward-name) path.  A child of a partly matched name must not
/// be taken for a child of the matched suffix.
fn gen_triple_script(rng: &mut Rng) -> Script {
    let labs = [["www", "example", "org"], ["a", "b", "c"], ["ns", "sub", "example"], ["x", "www", "x"]];
    let l = labs[rng.below(labs.len() as u64) as usize];
    let (a, b, c) = (l[0], l[1], l[2]);
    let mut names = vec![
        if rng.chance(1, 2) { format!("{}.", c) } else { format!("{}.{}.", b, c) },
        format!("{}.{}.{}.", a, b, c),
        format!("{}.{}.", a, c),
    ];
    if rng.chance(1, 2) {
        names.push(format!("{}.{}.{}.", b, a, c));
    }
    // a random order
    for i in (1..names.len()).rev() {
        let j = rng.below(i as u64 + 1) as usize;
        names.swap(i, j);
    }
    let qname = if rng.chance(1, 2) { names.remove(0) } else { "q.".to_string() };
    let mut recs = vec![];
    for n in names {
        match rng.below(3) {
            0 => recs.push(Rec { sec: 1, owner: n, rd: Rd::A }),
            1 => recs.push(Rec { sec: 1, owner: "q.".into(), rd: Rd::Ns(n) }),
            _ => recs.push(Rec { sec: 1, owner: n.clone(), rd: Rd::Cname(n) }),
        }
    }
    Script { qname, recs, edns: None }
}

/// The guard of D_new_compressor_partial_match_children, as a property of
/// the names of a script: two names end in a.S and a.T for the same label a
/// where T is a non-empty proper suffix of S (so T can match an entry for S
/// only partly while `a` is remembered as a child of that entry).
fn prone_to_partial_match(s: &Script) -> bool {
    let mut names: Vec<Vec<String>> = vec![];
    let mut add = |n: &str| {
        let ls: Vec<String> = n.trim_end_matches('.').split('.').filter(|x| !x.is_empty()).map(|x| x.to_ascii_lowercase()).collect();
        names.push(ls);
    };
    add(&s.qname);
    for r in &s.recs {
        add(&r.owner);
        match &r.rd {
            Rd::Ns(n) | Rd::Cname(n) | Rd::Mx(n) => add(n),
            _ => {}
        }
    }
    for n1 in &names {
        for n2 in &names {
            // n1 = .. a S, n2 = .. a T
            for i in 0..n1.len() {
                for j in 0..n2.len() {
                    if n1[i] != n2[j] {
                        continue;
                    }
                    let (s1, t) = (&n1[i + 1..], &n2[j + 1..]);
                    if !t.is_empty() && t.len() < s1.len() && s1[s1.len() - t.len()..] == *t {
                        return true;
                    }
                }
            }
        }
    }
    false
}

/// The first occurrence of a name is placed so that its suffix zone-x.test.
/// starts at message offset `x` (the sweep 16360..16400 crosses the last
/// offset a pointer can express, 16383), through the reversed-name path
/// (owner) or the forward-name path (RDATA); later names of both kinds end
/// in that suffix.
fn gen_sweep_script(x: usize, forward: bool) -> Script {
    // header 12 + question q. (3 + 4); a filler is C0 0C + 10 + k octets
    let mut recs = vec![];
    let mut at = 19usize;
    for _ in 0..4 {
        recs.push(Rec { sec: 1, owner: "q.".into(), rd: Rd::Raw(3900) });
        at += 12 + 3900;
    }
    // the suffix starts 5 octets into the name (04 leaf), the name itself
    // at the record start (owner) or 12 octets into the record (RDATA)
    let name_at = x - 5;
    let rec_at = if forward { name_at - 12 } else { name_at };
    let k = rec_at - at - 12;
    recs.push(Rec { sec: 1, owner: "q.".into(), rd: Rd::Raw(k) });
    if forward {
        recs.push(Rec { sec: 1, owner: "q.".into(), rd: Rd::Ns("leaf.zone-x.test.".into()) });
    } else {
        recs.push(Rec { sec: 1, owner: "leaf.zone-x.test.".into(), rd: Rd::A });
    }
    recs.push(Rec { sec: 1, owner: "www.zone-x.test.".into(), rd: Rd::A });
    recs.push(Rec { sec: 1, owner: "q.".into(), rd: Rd::Cname("mail.zone-x.test.".into()) });
    recs.push(Rec { sec: 2, owner: "zone-x.test.".into(), rd: Rd::Ns("test.".into()) });
    Script { qname: "q.".into(), recs, edns: None }
}

fn find_sub(hay: &[u8], needle: &[u8]) -> Option<usize> {
    hay.windows(needle.len()).position(|w| w == needle)
}

/// One step of a fill script: the section, whether the push succeeded and
/// the header counts afterwards.
fn step_json(sec: u8, ok: bool, c: [u16; 4]) -> Value {
    json!({"sec": sec, "ok": ok, "counts": [c[0], c[1], c[2], c[3]]})
}

/// "fill until full, then finish" on the established builder with a push
/// limit: every push is attempted, failures included
fn fill_old(s: &Script, limit: usize) -> (Vec<Value>, Vec<bool>, Vec<u8>) {
    let name = |x: &str| Name::<Vec<u8>>::from_str(x).unwrap();
    let mut mb = MessageBuilder::from_target(TreeCompressor::new(Vec::new())).unwrap();
    mb.set_push_limit(limit);
    let mut steps = vec![];
    let mut accepted = vec![];
    let cnt = |c: domain::base::header::HeaderCounts| [c.qdcount(), c.ancount(), c.nscount(), c.arcount()];
    let mut qb = mb.question();
    qb.header_mut().set_id(0x1234);
    qb.header_mut().set_qr(true);
    let ok = qb.push(Question::new(name(&s.qname), Rtype::A, Class::IN)).is_ok();
    steps.push(step_json(0, ok, cnt(qb.counts())));
    accepted.push(ok);
    let ttl = Ttl::from_secs(60);
    macro_rules! push {
        ($b:expr, $r:expr) => {{
            let ok = match &$r.rd {
                Rd::Ns(n) => $b.push(Record::new(name(&$r.owner), Class::IN, ttl, Ns::new(name(n)))),
                Rd::Cname(n) => $b.push(Record::new(name(&$r.owner), Class::IN, ttl, Cname::new(name(n)))),
                Rd::Mx(n) => $b.push(Record::new(name(&$r.owner), Class::IN, ttl, Mx::new(10, name(n)))),
                Rd::A => $b.push(Record::new(name(&$r.owner), Class::IN, ttl, A::from_octets(1, 2, 3, 4))),
                Rd::Raw(k) => $b.push(Record::new(
                    name(&$r.owner),
                    Class::IN,
                    ttl,
                    UnknownRecordData::from_octets(Rtype::from_int(65280), vec![7u8; *k]).unwrap(),
                )),
            }
            .is_ok();
            steps.push(step_json($r.sec, ok, cnt($b.counts())));
            accepted.push(ok);
        }};
    }
    let mut ab = qb.answer();
    for r in s.recs.iter().filter(|r| r.sec == 1) {
        push!(ab, r);
    }
    let mut nb = ab.authority();
    for r in s.recs.iter().filter(|r| r.sec == 2) {
        push!(nb, r);
    }
    let mut xb = nb.additional();
    for r in s.recs.iter().filter(|r| r.sec == 3) {
        push!(xb, r);
    }
    (steps, accepted, xb.finish().into_target())
}

/// the same on the new builder with a buffer of `limit` octets
fn fill_new(s: &Script, limit: usize) -> (Vec<Value>, Vec<bool>, Vec<u8>) {
    let mut buffer = vec![0u8; limit.max(12)];
    let mut compressor = NameCompressor::default();
    let mut flags = HeaderFlags::default();
    flags.set_qr(true);
    let mut b = NewBuilder::new(&mut buffer, &mut compressor, U16::new(0x1234), flags);
    let rn = |x: &str| RevNameBuf::from_str(x).unwrap();
    let nn = |x: &str| NameBuf::from_str(x).unwrap();
    let mut steps = vec![];
    let mut accepted = vec![];
    let cnt = |b: &NewBuilder<'_, '_>| {
        let c = b.header().counts;
        [c.questions.get(), c.answers.get(), c.authorities.get(), c.additionals.get()]
    };
    let ok = b
        .push_question(&domain::new::base::Question { qname: rn(&s.qname), qtype: QType::A, qclass: QClass::IN })
        .is_ok();
    steps.push(step_json(0, ok, cnt(&b)));
    accepted.push(ok);
    for r in &s.recs {
        let raw;
        let holder: NameBuf = match &r.rd {
            Rd::Ns(n) | Rd::Cname(n) | Rd::Mx(n) => nn(n),
            _ => nn("a."),
        };
        let nref: &NewName = &holder;
        let rdata: nrd::RecordData<'_, &NewName> = match &r.rd {
            Rd::Ns(_) => nrd::RecordData::Ns(nrd::Ns { server: nref }),
            Rd::Cname(_) => nrd::RecordData::CName(nrd::CName { name: nref }),
            Rd::Mx(_) => nrd::RecordData::Mx(nrd::Mx { preference: U16::new(10), exchange: nref }),
            Rd::A => nrd::RecordData::A(nrd::A { octets: [1, 2, 3, 4] }),
            Rd::Raw(k) => {
                raw = vec![7u8; *k];
                nrd::RecordData::Unknown(RType::from(65280u16), <&nrd::UnknownRecordData>::parse_bytes(&raw).unwrap())
            }
        };
        let t: u16 = match &r.rd {
            Rd::Ns(_) => 2,
            Rd::Cname(_) => 5,
            Rd::Mx(_) => 15,
            Rd::A => 1,
            Rd::Raw(_) => 65280,
        };
        let rec = domain::new::base::Record {
            rname: rn(&r.owner),
            rtype: RType::from(t),
            rclass: RClass::IN,
            ttl: TTL::from(60),
            rdata,
        };
        let ok = match r.sec {
            1 => b.push_answer(&rec).is_ok(),
            2 => b.push_authority(&rec).is_ok(),
            _ => b.push_additional(&rec).is_ok(),
        };
        steps.push(step_json(r.sec, ok, cnt(&b)));
        accepted.push(ok);
    }
    let msg = b.finish();
    let mut out = vec![];
    out.extend_from_slice(domain::new::base::wire::AsBytes::as_bytes(&msg.header));
    out.extend_from_slice(&msg.contents);
    (steps, accepted, out)
}

const TPOOL: &[&str] = &[
    "www.example.org.", "www.example.org.uk.", "mail.example.org.", "example.org.", "mail.example.org.uk.",
    "example.com.", "www.example.com.", "org.", "uk.",
];

fn gen_trunc_segment(rng: &mut Rng, qname: Option<String>) -> Script {
    let pick = |rng: &mut Rng| TPOOL[rng.below(TPOOL.len() as u64) as usize].to_string();
    let mut recs = vec![];
    let mut sec = 1u8;
    for _ in 0..rng.below(4) {
        if rng.chance(1, 3) && sec < 3 {
            sec += 1;
        }
        let owner = pick(rng);
        let rd = match rng.below(4) {
            0 => Rd::Ns(pick(rng)),
            1 => Rd::Cname(pick(rng)),
            2 => Rd::Mx(pick(rng)),
            _ => Rd::A,
        };
        recs.push(Rec { sec, owner, rd });
    }
    Script { qname: qname.unwrap_or_else(|| pick(rng)), recs, edns: None }
}

fn op_json(op: &str, sec: u8, ok: bool, c: [u16; 4]) -> Value {
    json!({"op": op, "sec": sec, "ok": ok, "counts": [c[0], c[1], c[2], c[3]]})
}

/// push a segment, discard everything (`truncate()`), push another segment
/// into the same builder, finish: new builder
fn trunc_new(s1: &Script, s2: &Script) -> (Vec<Value>, Vec<u8>) {
    let mut buffer = vec![0u8; 2000];
    let mut compressor = NameCompressor::default();
    let mut flags = HeaderFlags::default();
    flags.set_qr(true);
    let mut b = NewBuilder::new(&mut buffer, &mut compressor, U16::new(0x1234), flags);
    let rn = |x: &str| RevNameBuf::from_str(x).unwrap();
    let nn = |x: &str| NameBuf::from_str(x).unwrap();
    let mut steps = vec![];
    let cnt = |b: &NewBuilder<'_, '_>| {
        let c = b.header().counts;
        [c.questions.get(), c.answers.get(), c.authorities.get(), c.additionals.get()]
    };
    for (i, s) in [s1, s2].into_iter().enumerate() {
        let ok = b
            .push_question(&domain::new::base::Question { qname: rn(&s.qname), qtype: QType::A, qclass: QClass::IN })
            .is_ok();
        steps.push(op_json("push", 0, ok, cnt(&b)));
        for r in &s.recs {
            let holder: NameBuf = match &r.rd {
                Rd::Ns(n) | Rd::Cname(n) | Rd::Mx(n) => nn(n),
                _ => nn("a."),
            };
            let nref: &NewName = &holder;
            let (t, rdata): (u16, nrd::RecordData<'_, &NewName>) = match &r.rd {
                Rd::Ns(_) => (2, nrd::RecordData::Ns(nrd::Ns { server: nref })),
                Rd::Cname(_) => (5, nrd::RecordData::CName(nrd::CName { name: nref })),
                Rd::Mx(_) => (15, nrd::RecordData::Mx(nrd::Mx { preference: U16::new(10), exchange: nref })),
                _ => (1, nrd::RecordData::A(nrd::A { octets: [1, 2, 3, 4] })),
            };
            let rec = domain::new::base::Record {
                rname: rn(&r.owner),
                rtype: RType::from(t),
                rclass: RClass::IN,
                ttl: TTL::from(60),
                rdata,
            };
            let ok = match r.sec {
                1 => b.push_answer(&rec).is_ok(),
                2 => b.push_authority(&rec).is_ok(),
                _ => b.push_additional(&rec).is_ok(),
            };
            steps.push(op_json("push", r.sec, ok, cnt(&b)));
        }
        if i == 0 {
            b.truncate();
            steps.push(op_json("trunc", 0, true, cnt(&b)));
            if cnt(&b) != [0, 0, 0, 0] {
                // what a caller has to do by hand today to go on
                b.header_mut().counts = domain::new::base::SectionCounts::default();
                steps.push(op_json("reset", 0, true, cnt(&b)));
            }
        }
    }
    let msg = b.finish();
    let mut out = vec![];
    out.extend_from_slice(domain::new::base::wire::AsBytes::as_bytes(&msg.header));
    out.extend_from_slice(&msg.contents);
    (steps, out)
}

/// the same on the established builder: `builder()` rewinds all sections
fn trunc_old(s1: &Script, s2: &Script) -> (Vec<Value>, Vec<u8>) {
    let name = |x: &str| Name::<Vec<u8>>::from_str(x).unwrap();
    let cnt = |c: domain::base::header::HeaderCounts| [c.qdcount(), c.ancount(), c.nscount(), c.arcount()];
    let ttl = Ttl::from_secs(60);
    let mut steps = vec![];
    let mut mb = MessageBuilder::from_target(TreeCompressor::new(Vec::new())).unwrap();
    mb.header_mut().set_id(0x1234);
    mb.header_mut().set_qr(true);
    let mut out = vec![];
    for (i, s) in [s1, s2].into_iter().enumerate() {
        let mut qb = mb.question();
        let ok = qb.push(Question::new(name(&s.qname), Rtype::A, Class::IN)).is_ok();
        steps.push(op_json("push", 0, ok, cnt(qb.counts())));
        macro_rules! push {
            ($b:expr, $r:expr) => {{
                let ok = match &$r.rd {
                    Rd::Ns(n) => $b.push(Record::new(name(&$r.owner), Class::IN, ttl, Ns::new(name(n)))),
                    Rd::Cname(n) => $b.push(Record::new(name(&$r.owner), Class::IN, ttl, Cname::new(name(n)))),
                    Rd::Mx(n) => $b.push(Record::new(name(&$r.owner), Class::IN, ttl, Mx::new(10, name(n)))),
                    _ => $b.push(Record::new(name(&$r.owner), Class::IN, ttl, A::from_octets(1, 2, 3, 4))),
                }
                .is_ok();
                steps.push(op_json("push", $r.sec, ok, cnt($b.counts())));
            }};
        }
        let mut ab = qb.answer();
        for r in s.recs.iter().filter(|r| r.sec == 1) {
            push!(ab, r);
        }
        let mut nb = ab.authority();
        for r in s.recs.iter().filter(|r| r.sec == 2) {
            push!(nb, r);
        }
        let mut xb = nb.additional();
        for r in s.recs.iter().filter(|r| r.sec == 3) {
            push!(xb, r);
        }
        if i == 0 {
            mb = xb.builder();
            mb.header_mut().set_tc(true);
            steps.push(op_json("trunc", 0, true, cnt(mb.counts())));
        } else {
            out = xb.finish().into_target();
            break;
        }
    }
    (steps, out)
}

//------------ size limits: every limiting entry point of both builders ------------

/// A target with a capacity chosen at run time: appending beyond `cap`
/// octets fails with ShortBuf, like `octseq::Array<N>` does for its N.
struct Capped {
    v: Vec<u8>,
    cap: usize,
}
impl AsRef<[u8]> for Capped {
    fn as_ref(&self) -> &[u8] {
        &self.v
    }
}
impl AsMut<[u8]> for Capped {
    fn as_mut(&mut self) -> &mut [u8] {
        &mut self.v
    }
}
impl octseq::builder::OctetsBuilder for Capped {
    type AppendError = octseq::builder::ShortBuf;
    fn append_slice(&mut self, slice: &[u8]) -> Result<(), Self::AppendError> {
        if self.v.len() + slice.len() > self.cap {
            return Err(octseq::builder::ShortBuf);
        }
        self.v.extend_from_slice(slice);
        Ok(())
    }
}
impl octseq::builder::Truncate for Capped {
    fn truncate(&mut self, len: usize) {
        self.v.truncate(len)
    }
}
impl domain::base::wire::Composer for Capped {}

/// How a run is limited.  `p` is the parameter handed to the entry point,
/// `at` the number of pushes made before the limiting call (0: before the
/// question), `pre` a second, laxer limit set at the very start.
#[derive(Clone, Copy, Debug)]
struct Plan {
    ep: &'static str,
    p: usize,
    at: usize,
    pre: Option<usize>,
}

fn lim_json(ok: bool, p: usize, len: usize, c: [u16; 4]) -> Value {
    json!({"op": "limit", "sec": 0, "ok": ok, "p": p, "need": 0, "len": len, "counts": [c[0], c[1], c[2], c[3]]})
}
fn push_json(sec: u8, ok: bool, need: usize, len: usize, c: [u16; 4]) -> Value {
    json!({"op": "push", "sec": sec, "ok": ok, "p": 0, "need": need, "len": len, "counts": [c[0], c[1], c[2], c[3]]})
}
fn trunc_json(len: usize, c: [u16; 4]) -> Value {
    json!({"op": "trunc", "sec": 0, "ok": true, "p": 0, "need": 0, "len": len, "counts": [c[0], c[1], c[2], c[3]]})
}

macro_rules! old_push {
    ($b:expr, $r:expr) => {{
        let name = |x: &str| Name::<Vec<u8>>::from_str(x).unwrap();
        let ttl = Ttl::from_secs(60);
        match &$r.rd {
            Rd::Ns(n) => $b.push(Record::new(name(&$r.owner), Class::IN, ttl, Ns::new(name(n)))),
            Rd::Cname(n) => $b.push(Record::new(name(&$r.owner), Class::IN, ttl, Cname::new(name(n)))),
            Rd::Mx(n) => $b.push(Record::new(name(&$r.owner), Class::IN, ttl, Mx::new(10, name(n)))),
            Rd::A => $b.push(Record::new(name(&$r.owner), Class::IN, ttl, A::from_octets(1, 2, 3, 4))),
            Rd::Raw(k) => $b.push(Record::new(
                name(&$r.owner),
                Class::IN,
                ttl,
                UnknownRecordData::from_octets(Rtype::from_int(65280), vec![7u8; *k]).unwrap(),
            )),
        }
        .is_ok()
    }};
}

/// The established builder on target `t`: the items `idx` of the script are
/// pushed (all attempted, failures included); `hook(i, builder)` runs before
/// push number i.  Returns per push (ok, length after, counts after) and the
/// finished octets.
fn old_run<T: domain::base::wire::Composer>(
    t: T,
    s: &Script,
    idx: &[usize],
    rewind: Option<(usize, usize)>,
    hook: &mut dyn FnMut(usize, &mut MessageBuilder<TreeCompressor<T>>, &mut Vec<Value>),
) -> (Vec<Value>, Vec<bool>, Vec<u8>) {
    let cnt = |c: domain::base::header::HeaderCounts| [c.qdcount(), c.ancount(), c.nscount(), c.arcount()];
    let name = |x: &str| Name::<Vec<u8>>::from_str(x).unwrap();
    let mut mb = MessageBuilder::from_target(TreeCompressor::new(t)).map_err(|_| ()).expect("target holds a header");
    mb.header_mut().set_id(0x1234);
    mb.header_mut().set_qr(true);
    let mut steps = vec![];
    let mut oks = vec![];
    // an optional first segment under push limit p that is rewound
    // (`builder()`): the limit must survive it
    if let Some((k, p)) = rewind {
        mb.set_push_limit(p);
        steps.push(lim_json(true, p, mb.as_slice().len(), cnt(mb.counts())));
        let mut qb = mb.question();
        let _ = qb.push(Question::new(name(&s.qname), Rtype::A, Class::IN));
        let mut ab = qb.answer();
        for r in s.recs.iter().take(k) {
            let _ = old_push!(ab, r);
        }
        mb = ab.builder();
        steps.push(trunc_json(mb.as_slice().len(), cnt(mb.counts())));
    }
    let mut n = 0usize; // number of pushes attempted so far
    hook(n, &mut mb, &mut steps);
    let mut qb = mb.question();
    if idx.contains(&0) {
        let before = qb.as_slice().len();
        let ok = qb.push(Question::new(name(&s.qname), Rtype::A, Class::IN)).is_ok();
        let _ = before;
        steps.push(push_json(0, ok, 0, qb.as_slice().len(), cnt(qb.counts())));
        oks.push(ok);
        n += 1;
    }
    macro_rules! section {
        ($b:expr, $sec:expr) => {
            for (i, r) in s.recs.iter().enumerate().filter(|(i, r)| r.sec == $sec && idx.contains(&(i + 1))) {
                let _ = i;
                hook(n, $b.as_builder_mut(), &mut steps);
                let ok = old_push!($b, r);
                steps.push(push_json(r.sec, ok, 0, $b.as_slice().len(), cnt($b.counts())));
                oks.push(ok);
                n += 1;
            }
        };
    }
    let mut ab = qb.answer();
    section!(ab, 1);
    let mut nb = ab.authority();
    section!(nb, 2);
    let mut xb = nb.additional();
    section!(xb, 3);
    let out = xb.finish();
    (steps, oks, out.as_ref().to_vec())
}

fn new_rec_push(b: &mut NewBuilder<'_, '_>, r: &Rec) -> bool {
    let rn = |x: &str| RevNameBuf::from_str(x).unwrap();
    let nn = |x: &str| NameBuf::from_str(x).unwrap();
    let raw;
    let holder: NameBuf = match &r.rd {
        Rd::Ns(n) | Rd::Cname(n) | Rd::Mx(n) => nn(n),
        _ => nn("a."),
    };
    let nref: &NewName = &holder;
    let (t, rdata): (u16, nrd::RecordData<'_, &NewName>) = match &r.rd {
        Rd::Ns(_) => (2, nrd::RecordData::Ns(nrd::Ns { server: nref })),
        Rd::Cname(_) => (5, nrd::RecordData::CName(nrd::CName { name: nref })),
        Rd::Mx(_) => (15, nrd::RecordData::Mx(nrd::Mx { preference: U16::new(10), exchange: nref })),
        Rd::A => (1, nrd::RecordData::A(nrd::A { octets: [1, 2, 3, 4] })),
        Rd::Raw(k) => {
            raw = vec![7u8; *k];
            (65280, nrd::RecordData::Unknown(RType::from(65280u16), <&nrd::UnknownRecordData>::parse_bytes(&raw).unwrap()))
        }
    };
    let rec = domain::new::base::Record {
        rname: rn(&r.owner),
        rtype: RType::from(t),
        rclass: RClass::IN,
        ttl: TTL::from(60),
        rdata,
    };
    match r.sec {
        1 => b.push_answer(&rec).is_ok(),
        2 => b.push_authority(&rec).is_ok(),
        _ => b.push_additional(&rec).is_ok(),
    }
}

/// the same on the new builder with a buffer of `bufsize` octets
fn new_run(
    bufsize: usize,
    s: &Script,
    idx: &[usize],
    rewind: Option<(usize, usize)>,
    hook: &mut dyn FnMut(usize, &mut NewBuilder<'_, '_>, &mut Vec<Value>),
) -> (Vec<Value>, Vec<bool>, Vec<u8>) {
    let mut buffer = vec![0u8; bufsize];
    let mut compressor = NameCompressor::default();
    let mut flags = HeaderFlags::default();
    flags.set_qr(true);
    let mut b = NewBuilder::new(&mut buffer, &mut compressor, U16::new(0x1234), flags);
    let rn = |x: &str| RevNameBuf::from_str(x).unwrap();
    let cnt = |b: &NewBuilder<'_, '_>| {
        let c = b.header().counts;
        [c.questions.get(), c.answers.get(), c.authorities.get(), c.additionals.get()]
    };
    let len = |b: &NewBuilder<'_, '_>| 12 + b.message().contents.len();
    let mut steps = vec![];
    let mut oks = vec![];
    let mut n = 0usize;
    if let Some((k, p)) = rewind {
        // limit_to(p), a first segment, truncate(): the limit must survive it
        let ok = b.limit_to(p).is_ok();
        steps.push(lim_json(ok, p, len(&b), cnt(&b)));
        let _ = b.push_question(&domain::new::base::Question { qname: rn(&s.qname), qtype: QType::A, qclass: QClass::IN });
        for r in s.recs.iter().take(k) {
            let _ = new_rec_push(&mut b, r);
        }
        b.truncate();
        // TC is the mark truncate() leaves; cleared so that the octets compare with the other runs
        b.header_mut().flags.set_tc(false);
        steps.push(trunc_json(len(&b), cnt(&b)));
    }
    hook(n, &mut b, &mut steps);
    if idx.contains(&0) {
        let ok = b
            .push_question(&domain::new::base::Question { qname: rn(&s.qname), qtype: QType::A, qclass: QClass::IN })
            .is_ok();
        steps.push(push_json(0, ok, 0, len(&b), cnt(&b)));
        oks.push(ok);
        n += 1;
    }
    for (i, r) in s.recs.iter().enumerate() {
        if !idx.contains(&(i + 1)) {
            continue;
        }
        hook(n, &mut b, &mut steps);
        let ok = new_rec_push(&mut b, r);
        steps.push(push_json(r.sec, ok, 0, len(&b), cnt(&b)));
        oks.push(ok);
        n += 1;
    }
    let msg = b.finish();
    let mut out = vec![];
    out.extend_from_slice(domain::new::base::wire::AsBytes::as_bytes(&msg.header));
    out.extend_from_slice(&msg.contents);
    (steps, oks, out)
}

/// One limited run of script `s` on one side: every item is attempted.  The
/// `need` of a push - the length the message has if the push is admitted - is
/// measured on an unlimited builder of the same side that is given the items
/// accepted so far and then this one.
fn limited_run(side: &str, s: &Script, plan: Plan) -> Value {
    let all: Vec<usize> = (0..=s.recs.len()).collect();
    let big = 4000usize;
    let rewind = if plan.ep.ends_with("_rewound") { Some((2usize, plan.p)) } else { None };
    let (mut steps, oks, m) = if side == "old" {
        let mut hook = |n: usize, mb: &mut MessageBuilder<TreeCompressor<Capped>>, st: &mut Vec<Value>| {
            let cnt = |c: domain::base::header::HeaderCounts| [c.qdcount(), c.ancount(), c.nscount(), c.arcount()];
            if plan.ep == "push_limit" {
                if n == 0 {
                    if let Some(q) = plan.pre {
                        mb.set_push_limit(q);
                        st.push(lim_json(true, q, mb.as_slice().len(), cnt(mb.counts())));
                    }
                }
                if n == plan.at {
                    mb.set_push_limit(plan.p);
                    st.push(lim_json(true, plan.p, mb.as_slice().len(), cnt(mb.counts())));
                }
            }
        };
        let cap = if plan.ep == "capacity" { plan.p } else { big };
        old_run(Capped { v: vec![], cap }, s, &all, rewind, &mut hook)
    } else {
        let mut done = (false, false);
        let mut hook = |n: usize, b: &mut NewBuilder<'_, '_>, st: &mut Vec<Value>| {
            let c = b.header().counts;
            let c4 = [c.questions.get(), c.answers.get(), c.authorities.get(), c.additionals.get()];
            if plan.ep == "limit_to" {
                if n == 0 && !done.0 {
                    done.0 = true;
                    if let Some(q) = plan.pre {
                        let ok = b.limit_to(q).is_ok();
                        st.push(lim_json(ok, q, 12 + b.message().contents.len(), c4));
                    }
                }
                if n == plan.at && !done.1 {
                    done.1 = true;
                    let ok = b.limit_to(plan.p).is_ok();
                    st.push(lim_json(ok, plan.p, 12 + b.message().contents.len(), c4));
                }
            }
        };
        let bufsize = if plan.ep == "buffer" { plan.p } else { big };
        new_run(bufsize, s, &all, rewind, &mut hook)
    };
    // the need of every push, from unlimited builders
    let mut acc: Vec<usize> = vec![];
    let mut k = 0usize;
    for st in steps.iter_mut() {
        if st["op"] != "push" {
            continue;
        }
        let mut idx = acc.clone();
        idx.push(k);
        let need = if side == "old" {
            let (ps, _, _) = old_run(Capped { v: vec![], cap: big }, s, &idx, None, &mut |_, _, _| {});
            ps.last().unwrap()["len"].clone()
        } else {
            let (ps, _, _) = new_run(big, s, &idx, None, &mut |_, _, _| {});
            ps.last().unwrap()["len"].clone()
        };
        st["need"] = need;
        if oks[k] {
            acc.push(k);
        }
        k += 1;
    }
    json!({"side": side, "ep": plan.ep, "p": plan.p, "at": plan.at, "cap": if plan.ep == "capacity" || plan.ep == "buffer" { plan.p } else { big },
           "steps": steps, "oks": oks, "m": json_bytes(&m)})
}

const LPOOL: &[&str] = &[
    "example.com.", "www.example.com.", "mail.example.com.", "a.", "b.a.", "c.b.a.", "com.", "x.y.example.com.",
    "example.org.", "w.example.com.", "ns.example.org.",
];

/// a short script over lower-case names (the two compressors agree on
/// those): question and 3..5 records of every size class
fn gen_limit_script(rng: &mut Rng) -> Script {
    let pick = |rng: &mut Rng| LPOOL[rng.below(LPOOL.len() as u64) as usize].to_string();
    let mut recs = vec![];
    let mut sec = 1u8;
    for _ in 0..(3 + rng.below(3)) {
        if rng.chance(1, 3) && sec < 3 {
            sec += 1;
        }
        let owner = pick(rng);
        let rd = match rng.below(6) {
            0 => Rd::Ns(pick(rng)),
            1 => Rd::Cname(pick(rng)),
            2 => Rd::Mx(pick(rng)),
            3 | 4 => Rd::A,
            _ => Rd::Raw(rng.below(14) as usize),
        };
        recs.push(Rec { sec, owner, rd });
    }
    Script { qname: pick(rng), recs, edns: None }
}

/// octets of an item that are not part of a name
fn fixed_octets(s: &Script) -> Vec<usize> {
    let mut v = vec![4usize];
    for r in &s.recs {
        v.push(10 + match &r.rd {
            Rd::Ns(_) | Rd::Cname(_) => 0,
            Rd::Mx(_) => 2,
            Rd::A => 4,
            Rd::Raw(k) => *k,
        });
    }
    v
}

/// All limiting entry points of both builders under the abstract limit `m`
/// (the largest message, header included, that may be built): one `limit`
/// event.  set_push_limit(p) refuses a message of p octets, so its
/// parameter for the abstract limit m is m + 1.
fn limit_event(s: &Script, m: usize) -> Value {
    let k = 1 + m % 3;
    let mut plans: Vec<(&str, Plan)> = vec![
        ("old", Plan { ep: "push_limit", p: m + 1, at: 0, pre: None }),
        ("old", Plan { ep: "capacity", p: m, at: 0, pre: None }),
        ("new", Plan { ep: "buffer", p: m, at: 0, pre: None }),
        ("new", Plan { ep: "limit_to", p: m, at: 0, pre: None }),
        ("old", Plan { ep: "push_limit", p: m + 1, at: k, pre: None }),
        ("new", Plan { ep: "limit_to", p: m, at: k, pre: None }),
        ("old", Plan { ep: "push_limit_rewound", p: m + 1, at: 0, pre: None }),
        ("new", Plan { ep: "limit_to_rewound", p: m, at: 0, pre: None }),
    ];
    if m % 2 == 0 {
        // a laxer limit first, the stricter one replaces / narrows it
        plans.push(("old", Plan { ep: "push_limit", p: m + 1, at: 0, pre: Some(m + 8) }));
        plans.push(("new", Plan { ep: "limit_to", p: m, at: 0, pre: Some(m + 7) }));
    } else {
        // the stricter limit first, then a laxer one: the established
        // builder's soft limit is replaced, limit_to() can only narrow
        plans.push(("new", Plan { ep: "limit_to", p: m + 7, at: 0, pre: Some(m) }));
    }
    let mut runs = vec![];
    let mut outs: Vec<Value> = vec![];
    let all = expected_items(s);
    for (side, plan) in plans {
        let r = catch_unwind(AssertUnwindSafe(|| limited_run(side, s, plan)));
        match r {
            Ok(run) => {
                if !outs.iter().any(|o| o["m"] == run["m"] && o["oks"] == run["oks"]) {
                    let oks: Vec<bool> = run["oks"].as_array().unwrap().iter().map(|b| b.as_bool().unwrap()).collect();
                    let want = accepted_items(s, &oks);
                    let mb = bytes_of(&run["m"]);
                    let j = judge(&mb, &want);
                    outs.push(json!({"m": run["m"], "oks": run["oks"], "old_reads": j["old_reads"], "new_reads": j["new_reads"]}));
                }
                runs.push(run);
            }
            Err(_) => runs.push(json!({"side": side, "ep": plan.ep, "p": plan.p, "at": plan.at, "cap": 0, "steps": [], "oks": [],
                                       "m": [], "panic": true})),
        }
    }
    json!({"ev": "limit", "limit": m, "items": all, "fixed": fixed_octets(s), "runs": runs, "outs": outs})
}

fn gen_fill_script(rng: &mut Rng) -> Script {
    let pick = |rng: &mut Rng| POOL[rng.below(POOL.len() as u64) as usize].to_string();
    let mut recs = vec![];
    let mut sec = 1u8;
    for _ in 0..(4 + rng.below(8)) {
        if rng.chance(1, 3) && sec < 3 {
            sec += 1;
        }
        let owner = pick(rng);
        let rd = match rng.below(6) {
            0 => Rd::Ns(pick(rng)),
            1 => Rd::Cname(pick(rng)),
            2 => Rd::Mx(pick(rng)),
            3 => Rd::A,
            // records of very different sizes: a large one fails, a small
            // one behind it still fits
            4 => Rd::Raw(rng.below(80) as usize),
            _ => Rd::Raw(rng.below(8) as usize),
        };
        recs.push(Rec { sec, owner, rd });
    }
    Script { qname: pick(rng), recs, edns: None }
}

/// the items of a script that were accepted (accepted[0] is the question)
fn accepted_items(s: &Script, accepted: &[bool]) -> Value {
    let all = expected_items(s);
    Value::Array(
        all.as_array().unwrap().iter().zip(accepted.iter()).filter(|(_, ok)| **ok).map(|(v, _)| v.clone()).collect(),
    )
}

fn gen_script(rng: &mut Rng, big: bool) -> Script {
    let pick = |rng: &mut Rng| POOL[rng.below(POOL.len() as u64) as usize].to_string();
    let mut recs = vec![];
    let mut sec = 1u8;
    let nrec = 1 + rng.below(6);
    let mut push_rec = |rng: &mut Rng, recs: &mut Vec<Rec>, sec: u8| {
        let owner = pick(rng);
        let rd = match rng.below(4) {
            0 => Rd::Ns(pick(rng)),
            1 => Rd::Cname(pick(rng)),
            2 => Rd::Mx(pick(rng)),
            _ => Rd::A,
        };
        recs.push(Rec { sec, owner, rd });
    };
    for _ in 0..nrec {
        if rng.chance(1, 4) && sec < 3 {
            sec += 1;
        }
        push_rec(rng, &mut recs, sec);
    }
    if big {
        // filler up to just below the 16384 limit, then more records
        // (the records before the filler take some 100..250 octets: the first
        // record behind it starts between about 16150 and 16500)
        let target = 16150 + rng.below(260) as usize;
        let mut filler = vec![];
        let mut total = 0usize;
        while total + 4000 < target {
            filler.push(Rec { sec, owner: "a.".into(), rd: Rd::Raw(3900) });
            total += 3915;
        }
        let rest = target.saturating_sub(total + 200);
        filler.push(Rec { sec, owner: "a.".into(), rd: Rd::Raw(rest) });
        recs.extend(filler);
        // every second script: a long name straddling the limit (it starts
        // below it, its tail lies beyond), written through the forward-name
        // or the reversed-name path, then names that share only its tail
        if rng.chance(1, 2) {
            let long = format!("{}.{}.tail.example.net.", "a".repeat(63), "b".repeat(40 + rng.below(24) as usize));
            if rng.chance(2, 3) {
                recs.push(Rec { sec, owner: "a.".into(), rd: Rd::Ns(long) });
            } else {
                recs.push(Rec { sec, owner: long, rd: Rd::A });
            }
            for pre in ["www", "mail"] {
                let n = format!("{}.tail.example.net.", pre);
                if rng.chance(1, 2) {
                    recs.push(Rec { sec, owner: "a.".into(), rd: Rd::Cname(n) });
                } else {
                    recs.push(Rec { sec, owner: n, rd: Rd::A });
                }
            }
        }
        for i in 0..(3 + rng.below(5)) {
            let fresh = format!("n{}.fresh{}.example.net.", i, rng.below(3));
            let owner = if rng.chance(1, 2) { fresh.clone() } else { pick(rng) };
            let rd = if rng.chance(1, 2) { Rd::Ns(fresh) } else { Rd::Cname(pick(rng)) };
            recs.push(Rec { sec, owner, rd });
        }
    }
    Script { qname: pick(rng), recs, edns: None }
}

//------------ names and strings at their length limits, read by every route ------------

/// label lengths summing (with length octets and root) to `total` octets
fn partition(rng: &mut Rng, total: usize) -> Vec<usize> {
    let mut left = total - 1; // the root
    let mut out = vec![];
    let style = rng.below(4);
    while left > 0 {
        let max = (left - 1).min(63);
        if max == 0 && out.is_empty() {
            break;
        }
        if max == 0 {
            // one octet cannot hold a label: lengthen a label that has room,
            // or split a full one in two (63 + 1 + 1 = 31 + 1 + 32 + 1)
            match out.iter_mut().find(|l| **l < 63) {
                Some(l) => *l += 1,
                None => {
                    out.pop();
                    out.push(31);
                    out.push(32);
                }
            }
            break;
        }
        let l = match style {
            0 => max,                                   // few long labels
            1 => 1 + rng.below(2) as usize,             // many short ones
            2 => 1 + rng.below(max as u64) as usize,    // anything
            _ => if rng.chance(1, 3) { max } else { 1 + rng.below(max.min(8) as u64) as usize },
        }
        .min(max);
        out.push(l);
        left -= l + 1;
    }
    out
}

fn label_octets(rng: &mut Rng, n: usize) -> Vec<u8> {
    const ALPHA: &[u8] = b"abcdefghijklmnopqrstuvwxyzABCDEFGHIJKLMNOPQRSTUVWXYZ0123456789-_";
    (0..n).map(|_| if rng.chance(1, 40) { rng.next() as u8 } else { *rng.pick(ALPHA) }).collect()
}

fn wire_name(rng: &mut Rng, lens: &[usize]) -> Vec<u8> {
    let mut v = vec![];
    for &l in lens {
        v.push(l as u8);
        v.extend(label_octets(rng, l));
    }
    v
}

fn rfix(t: u16, rdlen: usize) -> Vec<u8> {
    let mut v = t.to_be_bytes().to_vec();
    v.extend([0, 1, 0, 0, 0, 60]);
    v.extend((rdlen as u16).to_be_bytes());
    v
}

/// One message with a name of 250..259 octets (or character strings of up to
/// 255) in a random place; every route of both codecs reads it.  Returns the
/// `plain` event.
fn plain_event(rng: &mut Rng, k: usize) -> Value {
    // the place and the length follow a fixed schedule (every place gets
    // 255, 256, 254, 257, 253, ... in turn); partition and octets are random
    const LENS: [usize; 10] = [255, 256, 254, 257, 253, 252, 258, 251, 259, 250];
    const KINDS: usize = 16;
    let total = LENS[(k / KINDS) % LENS.len()];
    let lens = partition(rng, total);
    let mut name = wire_name(rng, &lens);
    name.push(0);
    let tail_a: Vec<u8> = [vec![0u8], rfix(1, 4), vec![1, 2, 3, 4]].concat();
    let hdr = |qd: u16, an: u16, ar: u16| -> Vec<u8> {
        let mut h = vec![0x12, 0x34, 0x80, 0];
        h.extend(qd.to_be_bytes());
        h.extend(an.to_be_bytes());
        h.extend([0, 0]);
        h.extend(ar.to_be_bytes());
        h
    };
    let q0: Vec<u8> = vec![1, b'a', 0, 0, 1, 0, 1];
    let kind = k % KINDS;
    let (m, starts, probes, slot): (Vec<u8>, Vec<usize>, Vec<(usize, usize)>, String) = if kind == 0 {
        // question name
        let m = [hdr(1, 0, 0), name.clone(), vec![0, 1, 0, 1]].concat();
        let e = 12 + name.len();
        (m.clone(), vec![12], vec![(12, e), (12, m.len()), (12, e - 1)], "qn".into())
    } else if kind == 1 {
        // record owner
        let m = [hdr(1, 1, 1), q0.clone(), name.clone(), rfix(1, 4), vec![1, 2, 3, 4], tail_a.clone()].concat();
        let re = 19 + name.len() + 14;
        (m.clone(), vec![19], vec![(19, m.len()), (19, re), (19, 19 + name.len()), (19, re - 1)], "own".into())
    } else if kind == 2 {
        // character strings
        let t = *rng.pick(&[16u16, 13]);
        let mut rd = vec![];
        for _ in 0..(1 + rng.below(3)) {
            let l = *rng.pick(&[255usize, 255, 254, 0, 1, 200]);
            rd.push(l as u8);
            let have = if rng.chance(1, 6) { l.saturating_sub(1) } else { l };
            rd.extend(label_octets(rng, have));
        }
        let m = [hdr(1, 1, 1), q0.clone(), vec![1, b'c', 0], rfix(t, rd.len()), rd.clone(), tail_a.clone()].concat();
        let re = 19 + 3 + 10 + rd.len();
        (m.clone(), vec![19], vec![(19, m.len()), (19, re)], format!("str{}", t))
    } else {
        // inside RDATA; kind 15: completed by a pointer into a long question name
        const SLOTS: &[(u16, &[u8], usize)] = &[
            (2, &[], 0), (5, &[], 0), (12, &[], 0), (15, &[0, 10], 0), (6, &[], 21), (6, &[0], 20),
            (17, &[], 1), (17, &[0], 0), (33, &[0, 1, 0, 2, 0, 80], 0), (39, &[], 0), (47, &[], 3), (46, &[0; 18], 3),
        ];
        let (t, pre, postn) = if kind == 15 { *rng.pick(SLOTS) } else { SLOTS[kind - 3] };
        let post: Vec<u8> = match (t, postn) {
            (47, _) => vec![0, 1, 64],
            (46, _) => vec![9, 9, 9],
            (6, 21) => [vec![0u8], vec![0; 20]].concat(),
            (_, n) => vec![0; n],
        };
        if kind == 15 {
            let qtotal = 254 + rng.below(2) as usize;
            let qlens = partition(rng, qtotal);
            let mut qn = wire_name(rng, &qlens);
            qn.push(0);
            // a pointer to the start of one of the question name's labels
            let k = rng.below(qlens.len() as u64) as usize;
            let target = 12 + qlens[..k].iter().map(|l| l + 1).sum::<usize>();
            let suffix: usize = qlens[k..].iter().map(|l| l + 1).sum::<usize>() + 1;
            // prefix so that the whole name has 253..257 octets (when that is possible)
            let want = total.clamp(253, 257);
            let plen = want.saturating_sub(suffix);
            let mut nm = if plen >= 2 { let pl = partition(rng, plen + 1); wire_name(rng, &pl) } else { vec![] };
            nm.extend([0xC0 | (target >> 8) as u8, target as u8]);
            let rd = [pre.to_vec(), nm.clone(), post].concat();
            let rs = 12 + qn.len() + 4;
            let m = [hdr(1, 1, 1), qn, vec![0, 1, 0, 1], vec![0xC0, 12], rfix(t, rd.len()), rd.clone(), tail_a.clone()].concat();
            let ns = rs + 12 + pre.len();
            let re = rs + 12 + rd.len();
            (m.clone(), vec![rs, ns], vec![(rs, re), (ns, ns + nm.len()), (12, m.len())], format!("ptr{}", t))
        } else {
            let rd = [pre.to_vec(), name.clone(), post].concat();
            let m = [hdr(1, 1, 1), q0.clone(), vec![1, b'c', 0], rfix(t, rd.len()), rd.clone(), tail_a.clone()].concat();
            let ns = 19 + 3 + 10 + pre.len();
            let re = 19 + 3 + 10 + rd.len();
            (m.clone(), vec![19, ns], vec![(19, m.len()), (19, re), (ns, ns + name.len()), (ns, re), (19, re - 1)], format!("rd{}", t))
        }
    };
    let mask = wire_new::Mask::none();
    let strip = |mut v: Value| {
        if let Some(o) = v.as_object_mut() {
            o.remove("acc");
        }
        v
    };
    let old = observe(|| wire_new::old_view(&m, &starts, &mask));
    let new = observe(|| wire_new::new_view(&m, &starts, &mask));
    let plain = wire_new::plain_view(&m, &probes, &mask);
    json!({"ev": "plain", "slot": slot, "namelen": if kind == 2 { 0 } else { total }, "m": json_bytes(&m), "starts": starts,
           "probes": probes.iter().map(|(a, b)| json!([a, b])).collect::<Vec<_>>(),
           "old": strip(old), "new": strip(new), "plain": plain})
}

fn main() {
    if std::env::var("CODEC_DEBUG").is_err() {
        quiet_panics();
    }
    let args: Vec<String> = std::env::args().collect();
    let path = &args[1];
    let seed: u64 = args.get(2).and_then(|s| s.parse().ok()).unwrap_or_else(seed);
    let n: usize = args.get(3).and_then(|s| s.parse().ok()).unwrap_or(100);
    let mut rng = Rng::new(seed);
    let mut tw = TraceWriter::create(path);
    // names and strings at their length limits through every reading route
    {
        let mut prng = Rng::new(seed ^ 0x5EED_11A1);
        for k in 0..(n / 3).max(32) {
            tw.event(plain_event(&mut prng, k));
        }
    }
    // every size limit from 12 to beyond the full length, through every
    // limiting entry point of both builders
    {
        let mut lrng = Rng::new(seed ^ 0x11A1_7007);
        for _ in 0..(n / 240).max(1) {
            let s = gen_limit_script(&mut lrng);
            let (full, _, _) = old_run(Capped { v: vec![], cap: 4000 }, &s, &(0..=s.recs.len()).collect::<Vec<_>>(), None, &mut |_, _, _| {});
            let flen = full.last().unwrap()["len"].as_u64().unwrap() as usize;
            for m in 12..=(flen + 14) {
                tw.event(limit_event(&s, m));
            }
        }
    }
    for i in 0..n {
        // every sixth script fills a small buffer until pushes fail
        if i % 6 == 5 {
            let s = gen_fill_script(&mut rng);
            let limit = 30 + rng.below(150) as usize;
            for side in ["old", "new"] {
                let r = catch_unwind(AssertUnwindSafe(|| if side == "old" { fill_old(&s, limit) } else { fill_new(&s, limit) }));
                match r {
                    Ok((steps, accepted, m)) => {
                        let want = accepted_items(&s, &accepted);
                        let j = if accepted[0] { judge(&m, &want) } else { json!({"old_reads": true, "new_reads": true}) };
                        tw.event(json!({"ev": "fill", "side": side, "limit": limit, "steps": steps, "m": json_bytes(&m),
                                        "items": want, "qok": accepted[0],
                                        "old_reads": j["old_reads"], "new_reads": j["new_reads"]}));
                    }
                    Err(_) => tw.event(json!({"ev": "fillpanic", "side": side, "limit": limit,
                                              "script": format!("{:?}", s).chars().take(600).collect::<String>()})),
                }
            }
            continue;
        }
        // push, truncate(), push again into the same builder
        if i % 6 == 4 {
            let s1 = gen_trunc_segment(&mut rng, None);
            let q2 = if rng.chance(1, 2) { Some(s1.qname.clone()) } else { None };
            let s2 = gen_trunc_segment(&mut rng, q2);
            let want = expected_items(&s2);
            for side in ["old", "new"] {
                let r = catch_unwind(AssertUnwindSafe(|| if side == "old" { trunc_old(&s1, &s2) } else { trunc_new(&s1, &s2) }));
                match r {
                    Ok((steps, m)) => {
                        let j = judge(&m, &want);
                        tw.event(json!({"ev": "trunc", "side": side, "steps": steps, "m": json_bytes(&m), "items": want,
                                        "old_reads": j["old_reads"], "new_reads": j["new_reads"]}));
                    }
                    Err(_) => tw.event(json!({"ev": "truncpanic", "side": side,
                                              "script": format!("{:?} / {:?}", s1, s2).chars().take(700).collect::<String>()})),
                }
            }
            continue;
        }
        let big = i % 6 == 3;
        let long = i % 6 == 1;
        let evict = i % 6 == 2;
        let s = if i % 6 == 0 && i % 12 == 0 {
            gen_triple_script(&mut rng)
        } else if long {
            gen_long_script(&mut rng)
        } else if evict {
            gen_evict_script(&mut rng)
        } else {
            gen_script(&mut rng, big)
        };
        let mut s = s;
        if rng.chance(1, 2) {
            // extended rcode and version differ more often than not
            s.edns = Some((*rng.pick(&[0u16, 512, 1232, 4097, 65535]), *rng.pick(&[0u8, 1, 1, 23, 255]),
                           *rng.pick(&[0u8, 0, 1, 2, 254]), rng.chance(1, 2)));
        }
        let want = expected_items(&s);
        let bufsize = if big { 40000 } else { 12000 };
        let sides: Vec<(&str, Result<Vec<u8>, String>)> = vec![
            ("old", catch_unwind(AssertUnwindSafe(|| build_old(&s))).unwrap_or(Err("panic".into()))),
            ("new", catch_unwind(AssertUnwindSafe(|| build_new(&s, bufsize))).unwrap_or(Err("panic".into()))),
        ];
        for (side, built) in sides {
            match built {
                Ok(m) => {
                    let j = judge(&m, &want);
                    if m.len() <= 220 {
                        tw.event(json!({"ev": "built", "side": side, "m": json_bytes(&m), "items": want,
                                        "prone": prone_to_partial_match(&s),
                                        "old_reads": j["old_reads"], "new_reads": j["new_reads"]}));
                    } else {
                        tw.event(json!({"ev": "bigbuilt", "side": side, "len": m.len(), "built": "ok",
                                        "prone": prone_to_partial_match(&s), "suffix_at": 0,
                                        "old_reads": j["old_reads"], "new_reads": j["new_reads"],
                                        "script": format!("{:?}", s).chars().take(600).collect::<String>()}));
                    }
                }
                Err(e) => tw.event(json!({"ev": "bigbuilt", "side": side, "len": 0, "built": e, "prone": false,
                                          "old_reads": false, "new_reads": false,
                                          "script": format!("{:?}", s).chars().take(600).collect::<String>()})),
            }
        }
    }
    // the 16383/16384 boundary, offset by offset, both compressor paths
    let (lo, hi) = if n >= 400 { (16360usize, 16400usize) } else { (16376, 16392) };
    for x in lo..=hi {
        for forward in [false, true] {
            let s = gen_sweep_script(x, forward);
            let want = expected_items(&s);
            for side in ["old", "new"] {
                let built = if side == "old" {
                    catch_unwind(AssertUnwindSafe(|| build_old(&s))).unwrap_or(Err("panic".into()))
                } else {
                    catch_unwind(AssertUnwindSafe(|| build_new(&s, 40000))).unwrap_or(Err("panic".into()))
                };
                match built {
                    Ok(m) => {
                        let j = judge(&m, &want);
                        let at = find_sub(&m, b"\x06zone-x\x04test\x00").unwrap_or(0);
                        tw.event(json!({"ev": "bigbuilt", "side": side, "len": m.len(), "built": "ok", "prone": false,
                                        "suffix_at": at, "forward": forward,
                                        "old_reads": j["old_reads"], "new_reads": j["new_reads"], "script": "sweep"}));
                    }
                    Err(e) => tw.event(json!({"ev": "bigbuilt", "side": side, "len": 0, "built": e, "prone": false,
                                              "suffix_at": x, "forward": forward,
                                              "old_reads": false, "new_reads": false, "script": "sweep"})),
                }
            }
        }
    }
    println!("RECORDED {}", tw.finish());
}
