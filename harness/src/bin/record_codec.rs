//! C19 recorder: random build scripts executed on the established
//! MessageBuilder (TreeCompressor) and on `new::base::build::MessageBuilder`
//! (NameCompressor); each side's output is read by both codecs and compared
//! with the script.  Small outputs are logged with their octets so that TLC
//! re-parses them with Wire.tla (`built` events); outputs that cross the
//! 16384-octet compression limit (filler records) are judged here and logged
//! as `bigbuilt` events with the verdicts.
//!   record_codec <trace.ndjson> <seed> <n_scripts>
#[path = "../wire.rs"]
mod wire;
#[path = "../wire_new.rs"]
mod wire_new;

use domain::base::iana::{Class, Rtype};
use domain::base::message_builder::{MessageBuilder, TreeCompressor};
use domain::base::name::Name;
use domain::base::{Question, Record, Ttl};
use domain::new::base::build::{MessageBuilder as NewBuilder, NameCompressor};
use domain::new::base::name::{Name as NewName, NameBuf, RevNameBuf};
use domain::new::base::wire::{ParseBytes, U16};
use domain::new::base::{HeaderFlags, QClass, QType, RClass, RType, TTL};
use domain::new::rdata as nrd;
use domain::base::rdata::UnknownRecordData;
use domain::rdata::{Cname, Mx, Ns, A};
use serde_json::{json, Value};
use std::panic::{catch_unwind, AssertUnwindSafe};
use std::str::FromStr;
use verif_harness::common::*;

#[derive(Clone, Debug)]
enum Rd {
    Ns(String),
    Cname(String),
    Mx(String),
    A,
    Raw(usize),
}
#[derive(Clone, Debug)]
struct Rec {
    sec: u8, // 1..3
    owner: String,
    rd: Rd,
}
#[derive(Clone, Debug)]
struct Script {
    qname: String,
    recs: Vec<Rec>,
}

const POOL: &[&str] = &[
    "example.com.", "www.example.com.", "WWW.Example.COM.", "mail.example.com.", "a.", "b.a.", "c.b.a.",
    "com.", "x.y.example.com.", "ww.example.com.", "example.org.", "w.example.com.",
];

fn labels_of(s: &str) -> Value {
    let n = Name::<Vec<u8>>::from_str(s).unwrap();
    Value::Array(
        n.iter().filter(|l| !l.is_root()).map(|l| json_bytes(&l.as_slice().to_ascii_lowercase())).collect(),
    )
}

fn lower(v: &Value) -> Value {
    // lower-case every label octet: a compressor may point to an equal name
    // that differs in case
    match v {
        Value::Array(a) => Value::Array(a.iter().map(lower).collect()),
        Value::Number(n) => {
            let x = n.as_u64().unwrap_or(0);
            json!(if (65..=90).contains(&x) { x + 32 } else { x })
        }
        o => o.clone(),
    }
}

/// what a reader must see (names lower-cased, only the name fields)
fn expected_items(s: &Script) -> Value {
    let mut items = vec![json!([0, [labels_of(&s.qname), 1, 1]])];
    for r in &s.recs {
        let (t, names) = match &r.rd {
            Rd::Ns(n) => (2, vec![labels_of(n)]),
            Rd::Cname(n) => (5, vec![labels_of(n)]),
            Rd::Mx(n) => (15, vec![labels_of(n)]),
            Rd::A => (1, vec![]),
            Rd::Raw(_) => (65280, vec![]),
        };
        items.push(json!([r.sec, [labels_of(&r.owner), t, 1, 0, 60, names, []]]));
    }
    Value::Array(items)
}

fn lower_items(view: &Value) -> Value {
    // lower-case only the name fields of a flattened view
    let mut out = vec![];
    for it in view["items"].as_array().cloned().unwrap_or_default() {
        let tag = it[0].clone();
        let body = it[1].as_array().cloned().unwrap_or_default();
        let mut nb = body.clone();
        if !nb.is_empty() {
            nb[0] = lower(&body[0]);
        }
        if nb.len() == 7 {
            nb[5] = lower(&body[5]);
        }
        out.push(json!([tag, nb]));
    }
    Value::Array(out)
}

fn build_old(s: &Script) -> Result<Vec<u8>, String> {
    let name = |x: &str| Name::<Vec<u8>>::from_str(x).unwrap();
    let mb = MessageBuilder::from_target(TreeCompressor::new(Vec::new())).map_err(|_| "target")?;
    let mut qb = mb.question();
    qb.header_mut().set_id(0x1234);
    qb.header_mut().set_qr(true);
    qb.push(Question::new(name(&s.qname), Rtype::A, Class::IN)).map_err(|e| e.to_string())?;
    let ttl = Ttl::from_secs(60);
    let mut ab = qb.answer();
    macro_rules! push {
        ($b:expr, $r:expr) => {
            match &$r.rd {
                Rd::Ns(n) => $b.push(Record::new(name(&$r.owner), Class::IN, ttl, Ns::new(name(n)))),
                Rd::Cname(n) => $b.push(Record::new(name(&$r.owner), Class::IN, ttl, Cname::new(name(n)))),
                Rd::Mx(n) => $b.push(Record::new(name(&$r.owner), Class::IN, ttl, Mx::new(10, name(n)))),
                Rd::A => $b.push(Record::new(name(&$r.owner), Class::IN, ttl, A::from_octets(1, 2, 3, 4))),
                Rd::Raw(k) => $b.push(Record::new(
                    name(&$r.owner),
                    Class::IN,
                    ttl,
                    UnknownRecordData::from_octets(Rtype::from_int(65280), vec![7u8; *k]).unwrap(),
                )),
            }
            .map_err(|e| e.to_string())?
        };
    }
    for r in s.recs.iter().filter(|r| r.sec == 1) {
        push!(ab, r);
    }
    let mut nb = ab.authority();
    for r in s.recs.iter().filter(|r| r.sec == 2) {
        push!(nb, r);
    }
    let mut xb = nb.additional();
    for r in s.recs.iter().filter(|r| r.sec == 3) {
        push!(xb, r);
    }
    Ok(xb.finish().into_target())
}

fn build_new(s: &Script, bufsize: usize) -> Result<Vec<u8>, String> {
    let mut buffer = vec![0u8; bufsize];
    let mut compressor = NameCompressor::default();
    let mut flags = HeaderFlags::default();
    flags.set_qr(true);
    let mut b = NewBuilder::new(&mut buffer, &mut compressor, U16::new(0x1234), flags);
    let rn = |x: &str| RevNameBuf::from_str(x).unwrap();
    let nn = |x: &str| NameBuf::from_str(x).unwrap();
    b.push_question(&domain::new::base::Question { qname: rn(&s.qname), qtype: QType::A, qclass: QClass::IN })
        .map_err(|e| e.to_string())?;
    for r in &s.recs {
        let raw;
        // the RDATA name goes through the forward-name path of the compressor
        // (compress_name), the owner through the reversed one (compress_revname)
        let holder: NameBuf = match &r.rd {
            Rd::Ns(n) | Rd::Cname(n) | Rd::Mx(n) => nn(n),
            _ => nn("a."),
        };
        let nref: &NewName = &holder;
        let rdata: nrd::RecordData<'_, &NewName> = match &r.rd {
            Rd::Ns(_) => nrd::RecordData::Ns(nrd::Ns { server: nref }),
            Rd::Cname(_) => nrd::RecordData::CName(nrd::CName { name: nref }),
            Rd::Mx(_) => nrd::RecordData::Mx(nrd::Mx { preference: U16::new(10), exchange: nref }),
            Rd::A => nrd::RecordData::A(nrd::A { octets: [1, 2, 3, 4] }),
            Rd::Raw(k) => {
                raw = vec![7u8; *k];
                nrd::RecordData::Unknown(RType::from(65280u16), <&nrd::UnknownRecordData>::parse_bytes(&raw).unwrap())
            }
        };
        let t: u16 = match &r.rd {
            Rd::Ns(_) => 2,
            Rd::Cname(_) => 5,
            Rd::Mx(_) => 15,
            Rd::A => 1,
            Rd::Raw(_) => 65280,
        };
        let rec = domain::new::base::Record {
            rname: rn(&r.owner),
            rtype: RType::from(t),
            rclass: RClass::IN,
            ttl: TTL::from(60),
            rdata,
        };
        match r.sec {
            1 => b.push_answer(&rec).map_err(|e| e.to_string())?,
            2 => b.push_authority(&rec).map_err(|e| e.to_string())?,
            _ => b.push_additional(&rec).map_err(|e| e.to_string())?,
        }
    }
    let msg = b.finish();
    let mut out = vec![];
    out.extend_from_slice(domain::new::base::wire::AsBytes::as_bytes(&msg.header));
    out.extend_from_slice(&msg.contents);
    Ok(out)
}

/// every compression pointer in the names of `m` must point backwards,
/// below 16384, and the names must be what the script pushed; judged by
/// reading `m` with both codecs
fn judge(m: &[u8], want: &Value) -> Value {
    let o = catch_unwind(AssertUnwindSafe(|| wire_new::old_view(m, &[])["msg"].clone())).unwrap_or(json!({"panic": true}));
    let n = catch_unwind(AssertUnwindSafe(|| wire_new::new_view(m, &[])["msg"].clone())).unwrap_or(json!({"panic": true}));
    json!({
        "old_reads": o["end"] == json!("done") && &lower_items(&o) == want,
        "new_reads": n["end"] == json!("done") && &lower_items(&n) == want,
    })
}

fn gen_script(rng: &mut Rng, big: bool) -> Script {
    let pick = |rng: &mut Rng| POOL[rng.below(POOL.len() as u64) as usize].to_string();
    let mut recs = vec![];
    let mut sec = 1u8;
    let nrec = 1 + rng.below(6);
    let mut push_rec = |rng: &mut Rng, recs: &mut Vec<Rec>, sec: u8| {
        let owner = pick(rng);
        let rd = match rng.below(4) {
            0 => Rd::Ns(pick(rng)),
            1 => Rd::Cname(pick(rng)),
            2 => Rd::Mx(pick(rng)),
            _ => Rd::A,
        };
        recs.push(Rec { sec, owner, rd });
    };
    for _ in 0..nrec {
        if rng.chance(1, 4) && sec < 3 {
            sec += 1;
        }
        push_rec(rng, &mut recs, sec);
    }
    if big {
        // filler up to just below the 16384 limit, then more records
        let target = 16330 + rng.below(80) as usize;
        let mut filler = vec![];
        let mut total = 0usize;
        while total + 4000 < target {
            filler.push(Rec { sec, owner: "a.".into(), rd: Rd::Raw(3900) });
            total += 3915;
        }
        let rest = target.saturating_sub(total + 200);
        filler.push(Rec { sec, owner: "a.".into(), rd: Rd::Raw(rest) });
        recs.extend(filler);
        for i in 0..(3 + rng.below(5)) {
            let fresh = format!("n{}.fresh{}.example.net.", i, rng.below(3));
            let owner = if rng.chance(1, 2) { fresh.clone() } else { pick(rng) };
            let rd = if rng.chance(1, 2) { Rd::Ns(fresh) } else { Rd::Cname(pick(rng)) };
            recs.push(Rec { sec, owner, rd });
        }
    }
    Script { qname: pick(rng), recs }
}

fn main() {
    if std::env::var("CODEC_DEBUG").is_err() {
        quiet_panics();
    }
    let args: Vec<String> = std::env::args().collect();
    let path = &args[1];
    let seed: u64 = args.get(2).and_then(|s| s.parse().ok()).unwrap_or_else(seed);
    let n: usize = args.get(3).and_then(|s| s.parse().ok()).unwrap_or(100);
    let mut rng = Rng::new(seed);
    let mut tw = TraceWriter::create(path);
    for i in 0..n {
        let big = i % 4 == 3;
        let s = gen_script(&mut rng, big);
        let want = expected_items(&s);
        // the old builder's compressors have their own open finding for
        // names first written beyond 16384 (C02 D_ptr_limit_c000): big scripts
        // are built with the new builder only
        let sides: Vec<(&str, Result<Vec<u8>, String>)> = if big {
            vec![("new", catch_unwind(AssertUnwindSafe(|| build_new(&s, 40000))).unwrap_or(Err("panic".into())))]
        } else {
            vec![
                ("old", catch_unwind(AssertUnwindSafe(|| build_old(&s))).unwrap_or(Err("panic".into()))),
                ("new", catch_unwind(AssertUnwindSafe(|| build_new(&s, 4000))).unwrap_or(Err("panic".into()))),
            ]
        };
        for (side, built) in sides {
            match built {
                Ok(m) => {
                    let j = judge(&m, &want);
                    if m.len() <= 220 {
                        tw.event(json!({"ev": "built", "side": side, "m": json_bytes(&m), "items": want,
                                        "old_reads": j["old_reads"], "new_reads": j["new_reads"]}));
                    } else {
                        tw.event(json!({"ev": "bigbuilt", "side": side, "len": m.len(), "built": "ok",
                                        "old_reads": j["old_reads"], "new_reads": j["new_reads"],
                                        "script": format!("{:?}", s).chars().take(600).collect::<String>()}));
                    }
                }
                Err(e) => tw.event(json!({"ev": "bigbuilt", "side": side, "len": 0, "built": e,
                                          "old_reads": false, "new_reads": false,
                                          "script": format!("{:?}", s).chars().take(600).collect::<String>()})),
            }
        }
    }
    println!("RECORDED {}", tw.finish());
}
