//! S->I executor for the stream-client part of spec/Xfr.tla (C10; cases from
//! MC_XfrClient!EmitClient).
//!
//! A case is one response stream as the peer sends it: every abstract message
//! of `in.msgs` is rendered with the real `MessageBuilder`, and the stream is
//! received through a real `net::client::stream::Connection` with a
//! multi-response request of type `in.req` (see `xfr::client_run`).  What
//! `get_response()` handed out - which messages, in which order, where the
//! end of the stream was reported, or that the request only ended when the
//! peer closed the connection - is compared with `ClientRun`.
#[path = "../client.rs"]
#[allow(dead_code, unused)]
mod client;
#[path = "../xfr.rs"]
mod xfr;
#[path = "../xfr_client.rs"]
mod xfr_client;
use serde_json::Value;
use verif_harness::common::*;

fn main() {
    run_cases(|input| {
        let qtype = input["req"].as_u64().unwrap_or(252) as u16;
        let abs = input["msgs"].as_array().cloned().unwrap_or_default();
        let msgs: Vec<Vec<u8>> = abs.iter().map(|m| xfr::render(m).as_slice().to_vec()).collect();
        let own: Vec<bool> = abs.iter().map(|m| m["id"].as_i64().unwrap_or(1) == 1).collect();
        let v: Value = xfr_client::client_run(qtype, &msgs, &own);
        v
    });
}
