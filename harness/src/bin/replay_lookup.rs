//! X09 S->I executor: cases generated from spec/SrvLookup.tla,
//! spec/HostLookup.tla, spec/RevName.tla and spec/ResolvConfFile.tla are
//! performed on the real `lookup_srv` / `FoundSrvs` / `lookup_host` /
//! `lookup_addr` / `ResolvConf::parse` with a scripted in-memory resolver.
//!
//! Families (field `fam` of the case input):
//! * `srv`     — one world (SRV answer, additional section, host lookup
//!   outcomes); the whole lookup + stream is run `runs` times (the order
//!   inside a priority is random) and must give the same order-free
//!   observation every time;
//! * `srvstat` — one priority group, `draws` lookups: every output a
//!   permutation, every order the RFC gives positive probability observed,
//!   every order's frequency inside the RFC bounds (+- a wide tolerance);
//! * `merge`   — `FoundSrvs::merge` of two lookups;
//! * `host`    — `lookup_host` and the `FoundHosts` accessors;
//! * `rev`     — `lookup_addr`: the question asked and the names returned;
//! * `conf`    — `ResolvConf::parse` line by line, whole file, `finalize`;
//! * `lex`     — one raw line over a five-symbol alphabet.

#[path = "../lookup.rs"]
mod lookup;

use domain::base::iana::Rtype;
use domain::resolv::lookup::{lookup_addr, lookup_host};
use domain::resolv::stub::conf::ResolvConf;
use futures_util::stream::StreamExt;
use lookup::*;
use serde_json::{json, Value};
use std::collections::BTreeMap;
use std::net::IpAddr;
use std::panic::{catch_unwind, AssertUnwindSafe};
use std::sync::Arc;
use verif_harness::common::run_cases;

/// One complete run of a world; the observation does not depend on the
/// random order inside a priority.
fn run_srv_once(rt: &tokio::runtime::Runtime, inp: &Value) -> Value {
    let res = Scripted::new(srv_script(inp));
    let port = geti(inp, "port") as u16;
    let found = match do_lookup_srv(rt, &res, port) {
        Err(()) => return json!({"res": "err", "q0": q_json(&res.log()[0]), "items": [],
                                   "prio_ok": true, "same_order": true, "panic": false}),
        Ok(None) => return json!({"res": "none", "q0": q_json(&res.log()[0]), "items": [],
                                    "prio_ok": true, "same_order": true, "panic": false}),
        Ok(Some(f)) => f,
    };
    let srvs: Vec<(i64, i64, i64, i64)> = found.clone().into_srvs().map(|s| srv_tuple(&s)).collect();
    let log0 = res.log();
    let mut items = vec![];
    let mut same_order = true;
    let mut prio_ok = true;
    rt.block_on(async {
        let stream = found.into_stream(&res);
        futures_util::pin_mut!(stream);
        let mut j = 0usize;
        loop {
            let before = res.asked();
            let item = match stream.next().await {
                None => break,
                Some(i) => i,
            };
            let qs: Vec<Value> = res.log()[before..].iter().map(q_json).collect();
            let base = srvs.get(j).cloned().unwrap_or((-1, -1, -1, -1));
            match item {
                Ok(it) => {
                    let t = srv_tuple(&*it);
                    if t != base {
                        same_order = false;
                    }
                    let mut kind = if qs.is_empty() { "addl" } else { "host" };
                    let mut addrs = vec![];
                    for sa in it.resolved() {
                        if sa.port() as i64 != t.2 {
                            kind = "badport";
                        }
                        addrs.push(addr_abs(&sa.ip()));
                    }
                    items.push(json!([t.0, t.1, t.2, t.3, kind, addrs, qs]));
                }
                Err(_) => {
                    items.push(json!([base.0, base.1, base.2, base.3, "err", [], qs]));
                }
            }
            j += 1;
        }
        if j != srvs.len() {
            same_order = false;
        }
    });
    for w in srvs.windows(2) {
        if w[0].0 > w[1].0 {
            prio_ok = false;
        }
    }
    let fallback = srvs.len() == 1 && srvs[0].3 == 9;
    sort_json(&mut items);
    json!({"res": if fallback { "fallback" } else { "found" }, "q0": q_json(&log0[0]), "items": items,
           "prio_ok": prio_ok, "same_order": same_order, "panic": false})
}

fn run_srv(rt: &tokio::runtime::Runtime, inp: &Value) -> Value {
    let runs = geti(inp, "runs").max(1);
    let mut first: Option<Value> = None;
    for _ in 0..runs {
        let obs = match catch_unwind(AssertUnwindSafe(|| run_srv_once(rt, inp))) {
            Ok(v) => v,
            Err(_) => return json!({"panic": true}),
        };
        match &first {
            None => first = Some(obs),
            Some(f) => {
                if *f != obs {
                    return json!({"unstable": [f, obs]});
                }
            }
        }
    }
    first.unwrap()
}

//------------ srvstat ---------------------------------------------------------

/// in: {ws: [w...], orders: [[order, [lo, hi, den]]...], draws}
fn run_srvstat(rt: &tokio::runtime::Runtime, inp: &Value) -> Value {
    let ws: Vec<i64> = arr(inp, "ws").iter().map(|x| x.as_i64().unwrap()).collect();
    let draws = geti(inp, "draws").max(100);
    let tol = inp.get("tol").and_then(|x| x.as_f64()).unwrap_or(0.04);
    let recs: Vec<Value> = ws
        .iter()
        .enumerate()
        .map(|(j, w)| json!([0, w, 1001 + j, j + 1, 1]))
        .collect();
    let world = json!({"srv": "ok", "alias": false, "recs": recs, "addl": [], "hosts": ["Data", "Data"]});
    let res = Scripted::new(srv_script(&world));
    let mut counts: BTreeMap<Vec<i64>, u64> = BTreeMap::new();
    let mut perm = true;
    for _ in 0..draws {
        let r = catch_unwind(AssertUnwindSafe(|| do_lookup_srv(rt, &res, 80)));
        res.log.lock().unwrap().clear();
        let found = match r {
            Err(_) => return json!({"panic": true}),
            Ok(Ok(Some(f))) => f,
            Ok(_) => return json!({"panic": false, "perm": false, "detail": "no result"}),
        };
        let order: Vec<i64> = found.into_srvs().map(|s| srv_tuple(&s).3).collect();
        let mut sorted = order.clone();
        sorted.sort();
        if sorted != (1..=ws.len() as i64).collect::<Vec<_>>() {
            perm = false;
        }
        *counts.entry(order).or_insert(0) += 1;
    }
    let mut cover = true;
    let mut law = true;
    let mut detail = vec![];
    for o in arr(inp, "orders") {
        let order: Vec<i64> = o[0].as_array().unwrap().iter().map(|x| x.as_i64().unwrap()).collect();
        let lo = o[1][0].as_f64().unwrap() / o[1][2].as_f64().unwrap();
        let hi = o[1][1].as_f64().unwrap() / o[1][2].as_f64().unwrap();
        let n = *counts.get(&order).unwrap_or(&0);
        let f = n as f64 / draws as f64;
        if lo > 0.0 && n == 0 {
            cover = false;
            detail.push(json!({"never": order, "lo": lo}));
        }
        if f < lo - tol || f > hi + tol {
            law = false;
            detail.push(json!({"order": order, "freq": f, "lo": lo, "hi": hi}));
        }
    }
    if !perm {
        return json!({"panic": false, "perm": false, "detail": detail});
    }
    if !cover {
        // frequencies are not judged when orders are missing altogether
        return json!({"panic": false, "perm": true, "cover": false});
    }
    if !law {
        return json!({"panic": false, "perm": true, "cover": true, "law": false, "detail": detail});
    }
    json!({"panic": false, "perm": true, "cover": true, "law": true})
}

//------------ merge -----------------------------------------------------------

/// in: {a: [[p,w,port,t,own]...], b: [...]}; both looked up (empty: the
/// fallback item), then a.merge(&b).
fn run_merge(rt: &tokio::runtime::Runtime, inp: &Value) -> Value {
    let runs = geti(inp, "runs").max(1);
    let mut first: Option<Value> = None;
    for _ in 0..runs {
        let r = catch_unwind(AssertUnwindSafe(|| {
            let mut found = vec![];
            for (k, port) in [("a", 80u16), ("b", 81u16)] {
                let world = json!({"srv": "ok", "alias": false, "recs": inp[k], "addl": [], "hosts": ["Data", "Data"]});
                let res = Scripted::new(srv_script(&world));
                match do_lookup_srv(rt, &res, port) {
                    Ok(Some(f)) => found.push(f),
                    _ => return json!({"lookup_failed": k}),
                }
            }
            let b = found.pop().unwrap();
            let mut a = found.pop().unwrap();
            a.merge(&b);
            let srvs: Vec<(i64, i64, i64, i64)> = a.into_srvs().map(|s| srv_tuple(&s)).collect();
            let prio_ok = srvs.windows(2).all(|w| w[0].0 <= w[1].0);
            let mut bag: Vec<Value> = srvs.iter().map(|t| json!([t.0, t.1, t.2, t.3])).collect();
            sort_json(&mut bag);
            json!({"bag": bag, "prio_ok": prio_ok, "panic": false})
        }));
        let obs = match r {
            Ok(v) => v,
            Err(_) => return json!({"panic": true}),
        };
        match &first {
            None => first = Some(obs),
            Some(f) => {
                if *f != obs {
                    return json!({"unstable": [f, obs]});
                }
            }
        }
    }
    first.unwrap()
}

fn run_host(rt: &tokio::runtime::Runtime, inp: &Value) -> Value {
    let a = inp["a"].clone();
    let aaaa = inp["aaaa"].clone();
    let res = Scripted::new(Arc::new(move |_q: &str, t: Rtype| {
        if t == Rtype::A {
            host_reply(&a, 4)
        } else {
            host_reply(&aaaa, 6)
        }
    }));
    let port = geti(inp, "port") as u16;
    let found = rt.block_on(lookup_host(&res, name(HQ)));
    let qs: Vec<Value> = res.log().iter().map(|a| json!([a.name, type_str(a.qtype)])).collect();
    let found = match found {
        Err(_) => return json!({"qs": qs, "res": {"err": true}}),
        Ok(f) => f,
    };
    let canon_ok: Vec<String> = arr(inp, "canon_ok").iter().map(|x| x.as_str().unwrap().to_string()).collect();
    let canon = match catch_unwind(AssertUnwindSafe(|| lower_dotted(&found.canonical_name()))) {
        Err(_) => json!("panic"),
        Ok(n) => {
            if canon_ok.contains(&n) {
                json!("ok")
            } else {
                json!(n)
            }
        }
    };
    let qname = match catch_unwind(AssertUnwindSafe(|| lower_dotted(&found.qname()))) {
        Err(_) => json!("panic"),
        Ok(n) => json!(n),
    };
    let addrs: Vec<IpAddr> = found.iter().collect();
    let socks: Vec<std::net::SocketAddr> = found.port_iter(port).collect();
    let socks_ok = socks.len() == addrs.len()
        && socks.iter().zip(addrs.iter()).all(|(s, a)| s.ip() == *a && s.port() == port);
    json!({"qs": qs, "res": {"empty": found.is_empty(), "canon": canon, "qname": qname,
           "addrs": addrs.iter().map(addr_abs).collect::<Vec<_>>(), "socks": socks_ok}})
}

//------------ rev -------------------------------------------------------------

fn ip_of(inp: &Value) -> IpAddr {
    let o: Vec<u8> = arr(inp, "o").iter().map(|x| x.as_u64().unwrap() as u8).collect();
    if geti(inp, "v") == 4 {
        IpAddr::from([o[0], o[1], o[2], o[3]])
    } else {
        let mut b = [0u8; 16];
        b.copy_from_slice(&o[..16]);
        IpAddr::from(b)
    }
}

fn run_rev(rt: &tokio::runtime::Runtime, inp: &Value) -> Value {
    let addr = ip_of(inp);
    let res = Scripted::new(rev_script(inp["ans"].as_str().unwrap_or("ptr").to_string(), geti(inp, "n")));
    let found = rt.block_on(lookup_addr(&res, addr));
    let log = res.log();
    let q = log.first().map(|a| a.labels.clone()).unwrap_or(json!(null));
    let qt = log.first().map(|a| type_str(a.qtype)).unwrap_or("none");
    let r = match found {
        Err(_) => json!("err"),
        Ok(f) => Value::Array(f.iter().map(|n| json!(ptr_of(&lower_dotted(&n)))).collect()),
    };
    json!({"q": q, "qtype": qt, "nq": log.len(), "res": r})
}

//------------ conf ------------------------------------------------------------

fn render_line(line: &Value, lead: &str, sep: &str) -> String {
    let words: Vec<String> = line.as_array().unwrap().iter().map(|w| w.as_str().unwrap().to_string()).collect();
    format!("{}{}", lead, words.join(sep))
}

fn run_conf(inp: &Value) -> Value {
    let lead = inp["lead"].as_str().unwrap_or("");
    let sep = inp["sep"].as_str().unwrap_or(" ");
    let lines: Vec<String> = arr(inp, "lines").iter().map(|l| render_line(l, lead, sep)).collect();
    let mut conf = ResolvConf::new();
    let mut steps = vec![];
    for l in &lines {
        let text = format!("{}\n", l);
        let ok = conf.parse(&mut std::io::Cursor::new(text)).is_ok();
        steps.push(json!({"ok": ok, "st": conf_state(&conf)}));
    }
    // the same file in one piece, the last line without a line terminator
    let mut whole = ResolvConf::new();
    let ok = whole.parse(&mut std::io::Cursor::new(lines.join("\n"))).is_ok();
    let whole_st = conf_state(&whole);
    let mut fin = conf.clone();
    fin.finalize();
    json!({"steps": steps, "whole": {"ok": ok, "st": whole_st}, "fin": conf_state(&fin)})
}

fn run_lex(inp: &Value) -> Value {
    let text: String = arr(inp, "chars")
        .iter()
        .map(|c| char::from_u32(c.as_u64().unwrap() as u32).unwrap())
        .collect();
    let mut conf = ResolvConf::new();
    let ok = conf.parse(&mut std::io::Cursor::new(text)).is_ok();
    let untouched = conf_state(&conf) == conf_state(&ResolvConf::new());
    json!({"skip": ok, "untouched": untouched})
}

fn main() {
    let rt = runtime();
    run_cases(|inp| match inp["fam"].as_str().unwrap_or("") {
        "srv" => run_srv(&rt, inp),
        "srvstat" => run_srvstat(&rt, inp),
        "merge" => run_merge(&rt, inp),
        "host" => run_host(&rt, inp),
        "rev" => run_rev(&rt, inp),
        "conf" => run_conf(inp),
        "lex" => run_lex(inp),
        other => json!({"unknown_family": other}),
    });
}
