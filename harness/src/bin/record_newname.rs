//! I->S recorder for X10: drives the real new-API name types on random
//! inputs far beyond TLC's constants (names up to 255 octets, random
//! compression layouts, random LabelBuf programs) and logs one ndjson event
//! per observation, with every argument, for Trace_NewNames.tla.
//! usage: record_newname <out.ndjson> <seed> <events>
#[path = "../newname.rs"]
mod newname;
use newname::*;
use serde_json::{json, Value};
use verif_harness::common::*;

const ALPHA: &[u8] = b"aAbBzZ09-_*.\\ @;\"()\x00\x01\x02\x03\x3f\x40\x41\x5b\x60\x7b\x7f\x80\xc0\xff";

fn rand_label(rng: &mut Rng, max: usize) -> Vec<u8> {
    let max = max.min(63).max(1);
    let n = match rng.below(10) {
        0 => 1,
        1 => 2,
        2 => max,
        3 => max.saturating_sub(1).max(1),
        _ => 1 + rng.below(max.min(12) as u64) as usize,
    };
    (0..n)
        .map(|_| if rng.chance(1, 8) { rng.next() as u8 } else { *rng.pick(ALPHA) })
        .collect()
}

/// labels of a random valid name; `fill` drives the length towards 255
fn rand_labels(rng: &mut Rng) -> Vec<Vec<u8>> {
    let fill = rng.chance(1, 4);
    let target = if fill { 255 - rng.below(3) as usize } else { 1 + rng.below(60) as usize };
    let mut used = 1usize;
    let mut out = vec![];
    while used < target && out.len() < 127 {
        let room = target - used;
        if room < 2 {
            break;
        }
        let l = if fill && rng.chance(3, 4) { rand_label(rng, 63.min(room - 1)).len().max((room - 1).min(63)) } else { 0 };
        let mut lab = rand_label(rng, room - 1);
        if l > 0 {
            lab = (0..l).map(|_| *rng.pick(ALPHA)).collect();
        }
        used += 1 + lab.len();
        out.push(lab);
    }
    out
}

fn wire_of(labels: &[Vec<u8>]) -> Vec<u8> {
    let mut w = vec![];
    for l in labels {
        w.push(l.len() as u8);
        w.extend_from_slice(l);
    }
    w.push(0);
    w
}

fn flip_case(w: &[u8], rng: &mut Rng) -> Vec<u8> {
    // only content octets are letters >= 65; length octets are < 64
    w.iter()
        .map(|&b| if b.is_ascii_alphabetic() && rng.chance(1, 2) { b ^ 0x20 } else { b })
        .collect()
}

fn related(rng: &mut Rng, labels: &[Vec<u8>]) -> Vec<u8> {
    let a = wire_of(labels);
    match rng.below(8) {
        0 => flip_case(&a, rng),
        1 if !labels.is_empty() => wire_of(&labels[1..]),
        2 if !labels.is_empty() => {
            // change one octet of one label
            let mut ls = labels.to_vec();
            let i = rng.below(ls.len() as u64) as usize;
            let j = rng.below(ls[i].len() as u64) as usize;
            ls[i][j] = ls[i][j].wrapping_add(1 + rng.below(3) as u8);
            wire_of(&ls)
        }
        3 | 4 => {
            // one label whose content ends with the other name's label octets:
            // the wire form of `a` becomes a byte-suffix without being a label-suffix
            let body = &a[..a.len() - 1];
            if !body.is_empty() && body.len() + 1 <= 63 && a.len() + 2 <= 255 {
                let mut lab = vec![*rng.pick(ALPHA)];
                lab.extend_from_slice(body);
                wire_of(&[lab])
            } else {
                wire_of(&rand_labels(rng))
            }
        }
        5 if labels.len() >= 2 => {
            // same rightmost labels, different left part
            let k = 1 + rng.below(labels.len() as u64 - 1) as usize;
            let mut ls = vec![rand_label(rng, 5)];
            ls.extend_from_slice(&labels[k..]);
            let w = wire_of(&ls);
            if w.len() <= 255 { w } else { a }
        }
        _ => wire_of(&rand_labels(rng)),
    }
}

fn ev(kind: &str, mut input: Value, obs: Value) -> Value {
    let m = input.as_object_mut().unwrap();
    m.insert("ev".into(), json!(kind));
    if let Value::Object(o) = obs {
        for (k, v) in o {
            m.insert(k, v);
        }
    }
    input
}

/// a message body with several names, some ending in compression pointers
fn rand_contents(rng: &mut Rng) -> (Vec<u8>, Vec<usize>) {
    let mut c: Vec<u8> = vec![];
    let mut label_starts: Vec<usize> = vec![];
    let mut name_starts: Vec<usize> = vec![];
    let names = 2 + rng.below(6);
    for _ in 0..names {
        // a little non-name filler (record fields)
        for _ in 0..rng.below(4) {
            c.push(rng.next() as u8);
        }
        name_starts.push(c.len());
        let labs = rand_labels(rng);
        let take = if labs.is_empty() { 0 } else { rng.below(labs.len() as u64 + 1) as usize };
        let mut here = vec![];
        for l in &labs[..take.min(6)] {
            here.push(c.len());
            c.push(l.len() as u8);
            c.extend_from_slice(l);
        }
        match rng.below(10) {
            0 | 1 => c.push(0),
            2 => {
                // pointer to anything
                let t = rng.below(c.len() as u64 + 20);
                c.push(0xC0 | ((t >> 8) as u8 & 0x3F));
                c.push(t as u8);
            }
            3 => {
                // pointer into the run it ends / to itself
                let t = if here.is_empty() { c.len() } else { *rng.pick(&here) } + 12;
                c.push(0xC0 | ((t >> 8) as u8));
                c.push(t as u8);
            }
            _ if !label_starts.is_empty() => {
                let t = *rng.pick(&label_starts) + 12;
                c.push(0xC0 | ((t >> 8) as u8));
                c.push(t as u8);
            }
            _ => c.push(0),
        }
        label_starts.extend(here);
    }
    let mut starts = name_starts;
    for _ in 0..3 {
        starts.push(rng.below(c.len() as u64 + 1) as usize);
    }
    if rng.chance(1, 10) {
        starts.push(c.len() + 1 + rng.below(3) as usize);
    }
    (c, starts)
}

fn mutate_text(rng: &mut Rng, t: &[u8]) -> Vec<u8> {
    let mut s = t.to_vec();
    match rng.below(9) {
        0 => {
            s.pop();
        }
        1 => s.push(b'.'),
        2 if !s.is_empty() => {
            let i = rng.below(s.len() as u64) as usize;
            s[i] = *rng.pick(b" \\.;@a0\xff\"");
        }
        3 if !s.is_empty() => {
            let i = rng.below(s.len() as u64) as usize;
            s.insert(i, *rng.pick(b"\\.9 a"));
        }
        4 => s.extend_from_slice(b"\\25"),
        5 => s.extend_from_slice(b"\\256."),
        _ => {}
    }
    s
}

fn main() {
    quiet_panics();
    let args: Vec<String> = std::env::args().collect();
    let path = args.get(1).expect("output path");
    let sd: u64 = args.get(2).and_then(|s| s.parse().ok()).unwrap_or_else(seed);
    let n: u64 = args.get(3).and_then(|s| s.parse().ok()).unwrap_or(1500);
    let mut rng = Rng::new(sd);
    let mut tw = TraceWriter::create(path);
    let mut buf = domain::new::base::name::LabelBuf::new();
    tw.event(ev("lbuf", json!({"op": "new", "arg": []}), json!({"res": apply_lbuf(&mut buf, "new", &json!([])), "s": [], "issues": []})));
    while tw.n < n {
        match rng.below(20) {
            0..=3 => {
                let labs = rand_labels(&mut rng);
                let a = wire_of(&labs);
                let b = related(&mut rng, &labs);
                let (a, b) = if rng.chance(1, 2) { (a, b) } else { (b, a) };
                tw.event(ev("pair", json!({"a": json_bytes(&a), "b": json_bytes(&b)}), obs_pair(&a, &b)));
            }
            4..=6 => {
                let (c, starts) = rand_contents(&mut rng);
                for st in starts {
                    tw.event(ev("msg", json!({"c": json_bytes(&c), "start": st}), obs_msg(&c, st)));
                }
            }
            7 | 8 => {
                let a = wire_of(&rand_labels(&mut rng));
                tw.event(ev("show", json!({"a": json_bytes(&a)}), obs_show(&a)));
                let text = format!("{}", domain::new::base::name::NameBuf::parse_str(
                    format!("{}", <domain::new::base::name::NameBuf as domain::new::base::wire::ParseBytes>::parse_bytes(&a).unwrap()).as_bytes()).unwrap());
                let s = mutate_text(&mut rng, text.as_bytes());
                tw.event(ev("text", json!({"s": json_bytes(&s)}), obs_text(&s)));
            }
            9 | 10 => {
                let mut b = match rng.below(5) {
                    0 => wire_of(&rand_labels(&mut rng)),
                    1 => {
                        let l = rand_label(&mut rng, 63);
                        let mut w = vec![l.len() as u8];
                        w.extend_from_slice(&l);
                        w
                    }
                    2 => {
                        let k = rng.below(300) as usize;
                        let d = rng.bytes(k);
                        let mut w = vec![d.len().min(255) as u8];
                        w.extend_from_slice(&d);
                        w
                    }
                    3 => {
                        let k = rng.below(300) as usize;
                        let d = rng.bytes(k);
                        let mut w = (d.len() as u16).to_be_bytes().to_vec();
                        w.extend_from_slice(&d);
                        w
                    }
                    _ => {
                        let k = rng.below(12) as usize;
                        rng.bytes(k)
                    }
                };
                match rng.below(4) {
                    0 => {
                        b.pop();
                    }
                    1 => {
                        let k = 1 + rng.below(3) as usize;
                        b.extend_from_slice(&rng.bytes(k))
                    }
                    _ => {}
                }
                tw.event(ev("bytes", json!({"b": json_bytes(&b)}), obs_bytes(&b)));
            }
            11 => {
                let a = wire_of(&rand_labels(&mut rng));
                let k = (a.len() + rng.below(6) as usize).saturating_sub(2);
                tw.event(ev("build", json!({"a": json_bytes(&a), "k": k}), obs_build(&a, k)));
            }
            _ => {
                // the LabelBuf program continues
                let len = buf.contents().len();
                let (op, arg): (&str, Value) = match rng.below(14) {
                    0 => ("new", json!([])),
                    1..=3 => ("push", json!([rng.next() as u8])),
                    4..=6 => {
                        let room = 63 - len;
                        let k = match rng.below(6) {
                            0 => room,
                            1 => room + 1,
                            2 => 0,
                            _ => rng.below(20) as usize,
                        };
                        ("append", json_bytes(&(0..k).map(|_| *rng.pick(ALPHA)).collect::<Vec<u8>>()))
                    }
                    7 | 8 => {
                        let k = if rng.chance(1, 6) { len + 1 + rng.below(3) as usize } else { rng.below(len as u64 + 1) as usize };
                        ("truncate", json!([k]))
                    }
                    9 => ("lower", json!([])),
                    10 => ("copy", json_bytes(&rand_label(&mut rng, 63))),
                    _ => {
                        let l = rand_label(&mut rng, 63);
                        let t = format!("{}", &*label_buf(&l).unwrap());
                        ("parse_str", json_bytes(&mutate_text(&mut rng, t.as_bytes())))
                    }
                };
                let res = apply_lbuf(&mut buf, op, &arg);
                tw.event(ev("lbuf", json!({"op": op, "arg": arg}),
                            json!({"res": res, "s": json_bytes(buf.contents()), "issues": lbuf_issues(&buf)})));
            }
        }
    }
    tw.finish();
}
