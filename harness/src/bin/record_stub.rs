//! X04 I->S recorder: random configurations and environment scripts, much
//! larger than the model-checking constants (up to 5 servers, search lists
//! of up to 5 suffixes, 5 latencies), run on the real resolver with mock
//! servers under a paused clock; one ndjson event per observable step for
//! spec/Trace_StubResolver.tla.
//!
//! `lookup::search_host` / `lookup_host` are driven through a `Resolver`
//! whose `query` forwards every question to a *fresh* `StubResolver` (so
//! that every question meets the initial RTT statistics of
//! `net::client::redundant`, which the specification models exactly) and
//! whose search list is the real resolver's.
//!
//! usage: record_stub <out.ndjson> <seed> <runs>

#[path = "../stub.rs"]
mod stub;

use bytes::Bytes;
use domain::base::iana::Rtype;
use domain::base::name::{Name, ToName};
use domain::base::question::Question;
use domain::resolv::lookup::{lookup_host, search_host};
use domain::resolv::resolver::{Resolver, SearchNames};
use domain::resolv::stub::conf::{ResolvConf, SearchSuffix};
use domain::resolv::stub::{Answer, SearchIter, StubResolver};
use serde_json::{json, Value};
use std::future::Future;
use std::pin::Pin;
use std::str::FromStr;
use std::sync::{Arc, Mutex};
use std::time::Duration;
use stub::*;
use verif_harness::common::{Rng, TraceWriter};

/// (candidate, qtype is AAAA, server) -> (outcome, latency)
type World = Arc<dyn Fn(i64, bool, usize) -> (Out, i64) + Send + Sync>;

struct Fresh {
    conf: ResolvConf,
    base: StubResolver,
    ns: usize,
    dots: usize,
    world: World,
    /// one record per question, in the order the questions were started
    questions: Arc<Mutex<Vec<Value>>>,
}

impl Resolver for Fresh {
    type Octets = Bytes;
    type Answer = Answer;
    type Query<'a> = Pin<Box<dyn Future<Output = Result<Answer, std::io::Error>> + Send + 'a>>;

    fn query<'a, N, Q>(&'a self, question: Q) -> Self::Query<'a>
    where
        N: ToName,
        Q: Into<Question<N>>,
    {
        let q: Question<N> = question.into();
        let qname: Name<Vec<u8>> = q.qname().to_name();
        let qtype = q.qtype();
        Box::pin(async move {
            let c = cand_of(&format!("{}", qname), self.dots);
            let aaaa = qtype == Rtype::AAAA;
            let idx = {
                let mut qs = self.questions.lock().unwrap();
                qs.push(json!(null));
                qs.len() - 1
            };
            let log = Log::default();
            let t0 = tokio::time::Instant::now();
            let world = self.world.clone();
            let resolver = mock_resolver(
                self.conf.clone(),
                self.ns,
                Arc::new(move |s: usize, _n: &str, _t: Rtype| world(c, aaaa, s)),
                &log,
                t0,
            )
            .await;
            let res = resolver.query((qname, qtype)).await;
            let t = t0.elapsed().as_millis() as u64;
            let script: Vec<Value> = (0..self.ns)
                .map(|s| {
                    let (o, l) = (self.world)(c, aaaa, s);
                    json!([o.name(), l])
                })
                .collect();
            let reqs: Vec<Value> = log
                .take()
                .iter()
                .map(|e| json!({"s": e["s"], "t": e["t"].as_u64().unwrap() / TICK_MS, "exact": e["t"].as_u64().unwrap() % TICK_MS == 0}))
                .collect();
            let r = match &res {
                Ok(a) => {
                    let r = abstract_response(a.as_ref());
                    json!({"ok": {"out": r["out"], "from": r["from"], "via": r["via"]}})
                }
                Err(e) => json!({"err": io_err_kind(e)}),
            };
            self.questions.lock().unwrap()[idx] = json!({
                "c": c, "qt": if aaaa { "AAAA" } else { "A" }, "script": script,
                "reqs": reqs, "res": r, "t": t / TICK_MS, "exact": t % TICK_MS == 0,
            });
            res
        })
    }
}

impl SearchNames for Fresh {
    type Name = SearchSuffix;
    type Iter<'a> = SearchIter<'a>;
    fn search_iter<'a>(&'a self) -> Self::Iter<'a> {
        self.base.search_iter()
    }
}

fn main() {
    let args: Vec<String> = std::env::args().collect();
    let path = args.get(1).expect("out path");
    let seed: u64 = args.get(2).and_then(|s| s.parse().ok()).unwrap_or(1);
    let runs: usize = args.get(3).and_then(|s| s.parse().ok()).unwrap_or(50);
    let mut rng = Rng::new(seed);
    let mut tw = TraceWriter::create(path);
    let rt = paused_runtime();
    let lats = [1i64, 7, 50, 64, NEVER];
    for _ in 0..runs {
        let ns = if rng.chance(1, 25) { 0 } else { 1 + rng.below(5) as usize };
        let tmo = *rng.pick(&[40u64, 100, 500]);
        let call = *rng.pick(&["query", "lookup", "search", "search"]);
        let dots = rng.below(4) as usize;
        let ndots = rng.below(4) as usize;
        let mut search: Vec<i64> = Vec::new();
        let mut toolong: Vec<i64> = Vec::new();
        if call == "search" {
            let n = rng.below(6);
            let mut pool: Vec<i64> = vec![0, 1, 2, 3, 4, 5];
            for _ in 0..n {
                let i = rng.below(pool.len() as u64) as usize;
                search.push(pool.remove(i));
            }
            for k in &search {
                if *k != 0 && rng.chance(1, 6) {
                    toolong.push(*k);
                }
            }
            toolong.sort();
        }
        // the world: a table drawn up front so that it is a function
        let style = rng.below(4); // 0: mostly failing names, 1: anything, 2: fast only, 3: slow
        let mut table: Vec<(Out, i64)> = Vec::new();
        for _c in 0..6 {
            for _q in 0..2 {
                let all_fast = rng.chance(1, 3);
                for _s in 0..5 {
                    let lat = if style == 2 || all_fast {
                        1
                    } else if style == 3 {
                        *rng.pick(&[50, 64, NEVER, 7])
                    } else {
                        *rng.pick(&lats)
                    };
                    let mut out = match style {
                        0 => rng.pick(&[Out::Nx, Out::NoData, Out::ServFail, Out::Err, Out::Refused, Out::Data]).clone(),
                        _ => rng.pick(&[Out::Data, Out::NoData, Out::Nx, Out::ServFail, Out::Refused, Out::FormErr, Out::Err, Out::Tc]).clone(),
                    };
                    // after FORMERR the second round meets changed RTT
                    // statistics; only their order is modelled, so FORMERR
                    // is scripted only where no timer can fire
                    if out == Out::FormErr && !(all_fast || style == 2 || ns == 1) {
                        out = Out::Nx;
                    }
                    table.push((out, lat));
                }
            }
        }
        let table = Arc::new(table);
        let tb = table.clone();
        let world: World = Arc::new(move |c: i64, aaaa: bool, s: usize| {
            let c = c.clamp(0, 5) as usize;
            tb[(c * 2 + aaaa as usize) * 5 + s].clone()
        });
        tw.event(json!({"ev": "conf", "ns": ns, "tmo": tmo, "call": call, "search": search,
                        "ndots": ndots, "dots": dots, "toolong": toolong}));
        let questions = Arc::new(Mutex::new(Vec::new()));
        let qs2 = questions.clone();
        let (search2, toolong2) = (search.clone(), toolong.clone());
        let res = rt.block_on(async move {
            let mut conf = ResolvConf::new();
            conf.options.timeout = Duration::from_millis(tmo * TICK_MS);
            conf.options.ndots = ndots;
            for k in &search2 {
                let sfx = if toolong2.contains(k) { suffix_str_long(*k) } else { suffix_str(*k) };
                conf.options.search.push(SearchSuffix::from_str(&sfx).unwrap());
            }
            let fresh = Fresh {
                conf: conf.clone(),
                base: StubResolver::from_conf(conf),
                ns,
                dots,
                world,
                questions: qs2,
            };
            let abs = Name::<Vec<u8>>::from_str(&cand_name(dots, 0)).unwrap();
            match call {
                "query" => match fresh.query((abs, Rtype::A)).await {
                    Ok(a) => {
                        let r = abstract_response(a.as_ref());
                        json!({"ok": {"out": r["out"], "from": r["from"], "via": r["via"]}})
                    }
                    Err(e) => json!({"err": io_err_kind(&e)}),
                },
                _ => {
                    let r = if call == "lookup" {
                        lookup_host(&fresh, abs).await
                    } else {
                        search_host(&fresh, rel_name(dots)).await
                    };
                    match &r {
                        Ok(found) => {
                            let qn = format!("{}", found.qname());
                            json!({"found": {"cand": cand_of(&qn, dots), "empty": found.is_empty(), "n": found.iter().count()}})
                        }
                        Err(e) => json!({"err": io_err_kind(e)}),
                    }
                }
            }
        });
        let mut qs = questions.lock().unwrap().clone();
        // lookup_host starts its two questions concurrently: A first
        if call != "query" {
            let mut i = 0;
            while i + 1 < qs.len() {
                if qs[i]["qt"] == json!("AAAA") && qs[i + 1]["qt"] == json!("A") {
                    qs.swap(i, i + 1);
                }
                i += 2;
            }
        }
        for q in &qs {
            tw.event(json!({"ev": "q", "c": q["c"], "qt": q["qt"], "script": q["script"]}));
            for r in q["reqs"].as_array().unwrap() {
                tw.event(json!({"ev": "req", "s": r["s"], "t": r["t"], "exact": r["exact"]}));
            }
            tw.event(json!({"ev": "ans", "res": q["res"], "t": q["t"], "exact": q["exact"]}));
        }
        tw.event(json!({"ev": "res", "res": res}));
    }
    let n = tw.finish();
    println!("RECORDED {}", n);
}
