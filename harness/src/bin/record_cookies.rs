//! X02 I->S recorder: drives the real `CookiesMiddlewareSvc` with random
//! configurations, clock jumps (including across the 2^32 wrap and 2^31
//! away) and random / mutated COOKIE options, and logs one ndjson event per
//! public call for spec/Trace_Cookies.tla.
//!
//! Abstraction of octets into the terms of Cookies.tla: client cookies,
//! secrets and addresses are interned by value; an 8-octet hash is the term
//! Hash(s, cc, v, r, ts, ip) if this recorder's own SipHash evaluator has
//! produced exactly these octets for those arguments, and Junk otherwise.
//!
//! usage: record_cookies <out.ndjson> <seed> <events>
#[path = "../cookies.rs"]
mod cookies;

use cookies::*;
use serde_json::{json, Value};
use std::collections::HashMap;
use std::net::{IpAddr, Ipv4Addr, Ipv6Addr};
use verif_harness::common::{Rng, TraceWriter};

fn limbs(t: u32) -> Value {
    json!([t >> 16, t & 0xffff])
}

struct World {
    ccs: HashMap<[u8; 8], String>,
    hashes: HashMap<[u8; 8], Value>,
    ips: Vec<(String, IpAddr)>,
}

impl World {
    fn cc_name(&mut self, cc: &[u8]) -> String {
        let k: [u8; 8] = cc.try_into().unwrap();
        let n = self.ccs.len();
        self.ccs.entry(k).or_insert_with(|| format!("c{}", n)).clone()
    }
    /// evaluate a term and remember which octets it is
    fn term(&mut self, sname: &str, cc: &[u8; 8], v: u8, r: [u8; 3], ts: u32, ipn: usize) -> [u8; 8] {
        let h = term_hash(&secret_of(sname), cc, v, r, ts, self.ips[ipn].1);
        let ccn = self.cc_name(cc);
        let rv = ((r[0] as u32) << 16) | ((r[1] as u32) << 8) | r[2] as u32;
        self.hashes
            .insert(h, json!(["sip", sname, ccn, v, rv, limbs(ts), self.ips[ipn].0]));
        h
    }
    fn abstract_hash(&self, h: &[u8]) -> Value {
        let k: [u8; 8] = h.try_into().unwrap();
        self.hashes.get(&k).cloned().unwrap_or_else(junk)
    }
    /// COOKIE option octets -> the record of Cookies.tla
    fn abstract_cookie(&mut self, d: &[u8]) -> Value {
        let cc = if d.len() >= 8 { self.cc_name(&d[..8]) } else { "-".to_string() };
        if d.len() == 24 {
            let r = ((d[9] as u32) << 16) | ((d[10] as u32) << 8) | d[11] as u32;
            let ts = u32::from_be_bytes([d[12], d[13], d[14], d[15]]);
            json!({"k": "ck", "len": 24, "cc": cc, "v": d[8], "r": r, "ts": limbs(ts), "h": self.abstract_hash(&d[16..24])})
        } else {
            json!({"k": "ck", "len": d.len(), "cc": cc, "v": 0, "r": 0, "ts": [0, 0], "h": junk()})
        }
    }
}

fn junk() -> Value {
    json!(["junk", "-", "-", 0, 0, [0, 0], "-"])
}
fn no_ck() -> Value {
    json!({"k": "none", "len": 0, "cc": "-", "v": 0, "r": 0, "ts": [0, 0], "h": junk()})
}

fn main() {
    let args: Vec<String> = std::env::args().collect();
    let path = args.get(1).expect("output path");
    let seed: u64 = args.get(2).and_then(|s| s.parse().ok()).unwrap_or(1);
    let events: usize = args.get(3).and_then(|s| s.parse().ok()).unwrap_or(1000);
    if !hash_selftest() || !clock_selftest() {
        eprintln!("self-test failed");
        std::process::exit(3);
    }
    std::panic::set_hook(Box::new(|_| {}));
    let mut rng = Rng::new(seed);
    let mut w = TraceWriter::create(path);
    let rt = runtime();
    let svc = RecSvc::new();
    let mut world = World {
        ccs: HashMap::new(),
        hashes: HashMap::new(),
        ips: vec![
            ("i0".into(), IpAddr::V4(Ipv4Addr::new(192, 0, 2, 1))),
            ("i1".into(), IpAddr::V4(Ipv4Addr::new(192, 0, 2, 2))),
            ("i2".into(), IpAddr::V6(Ipv6Addr::new(0x2001, 0xdb8, 0, 0, 0, 0, 0, 1))),
            ("i3".into(), IpAddr::V6(Ipv6Addr::new(0x2001, 0xdb8, 0, 0, 0, 0, 0, 2))),
            ("i4".into(), IpAddr::V4(Ipv4Addr::new(0, 0, 0, 0))),
        ],
    };
    // the trace spec starts from new("s0") at clock 0
    let mut sname = "s0".to_string();
    let mut mw = new_mw(&svc, secret_of(&sname));
    let mut now: u32 = 0;
    set_now(0);
    // cookies handed out by the server so far (octets, client address index)
    let mut learned: Vec<(Vec<u8>, usize)> = vec![];
    let cc_pool: Vec<[u8; 8]> = (0..4).map(|_| rng.bytes(8).try_into().unwrap()).collect();
    let mut id: u16 = 0;
    let mut panics = 0u64;
    // vacuity statistics
    let mut enabled = true;
    let mut denied: Vec<String> = vec![];
    let (mut auth_pass, mut badcookie, mut wrap_valid) = (0u64, 0u64, 0u64);
    while (w.n as usize) < events {
        match rng.below(20) {
            0 => {
                sname = format!("s{}", rng.below(3));
                mw = new_mw(&svc, secret_of(&sname));
                enabled = true;
                denied.clear();
                w.event(json!({"ev": "new", "secret": sname}));
            }
            1 => {
                let mut names = vec![];
                let mut list = vec![];
                for (n, ip) in world.ips.iter() {
                    if rng.chance(1, 2) {
                        names.push(n.clone());
                        list.push(*ip);
                        if rng.chance(1, 4) {
                            list.push(*ip);
                        }
                    }
                }
                mw = mw.with_denied_ips(list);
                denied = names.clone();
                w.event(json!({"ev": "deny", "ips": names}));
            }
            2 => {
                let on = !rng.chance(1, 3);
                mw = mw.enable(on);
                enabled = on;
                w.event(json!({"ev": "enable", "on": on}));
            }
            3..=6 => {
                now = match rng.below(8) {
                    0 => rng.next() as u32,
                    1 => now.wrapping_add(1),
                    2 => now.wrapping_add(rng.below(400) as u32),
                    3 => now.wrapping_add(3590 + rng.below(20) as u32),
                    4 => now.wrapping_sub(290 + rng.below(20) as u32),
                    5 => (0u32).wrapping_sub(rng.below(4000) as u32),
                    6 => 0x8000_0000u32.wrapping_add(rng.below(8000) as u32).wrapping_sub(4000),
                    _ => now.wrapping_add(0x8000_0000),
                };
                set_now(now);
                w.event(json!({"ev": "clock", "now": limbs(now)}));
            }
            _ => {
                id = id.wrapping_add(1);
                let mut ipn = rng.below(world.ips.len() as u64) as usize;
                let udp = rng.chance(2, 3);
                let qd = if rng.chance(1, 4) { 0 } else if rng.chance(1, 10) { 2 } else { 1 };
                let opt = match rng.below(10) {
                    0 => "none",
                    1 => "bad",
                    _ => "ok",
                };
                let mut cookies: Vec<Vec<u8>> = vec![];
                if opt == "ok" {
                    let ncook = match rng.below(10) {
                        0 => 0,
                        1 => 2,
                        _ => 1,
                    };
                    for _ in 0..ncook {
                        let cc = *rng.pick(&cc_pool);
                        let mut d: Vec<u8> = match rng.below(8) {
                            // random length, random octets
                            0 => {
                                let n = rng.below(50) as usize;
                                rng.bytes(n)
                            }
                            // client cookie only / with a non-standard server part
                            1 => {
                                let mut d = cc.to_vec();
                                if rng.chance(1, 2) {
                                    let n = rng.below(34) as usize;
                                    d.extend(rng.bytes(n));
                                }
                                d
                            }
                            // a cookie this server handed out earlier
                            2 | 3 if !learned.is_empty() => {
                                let (d, from) = rng.pick(&learned).clone();
                                if cookies.is_empty() && rng.chance(3, 4) {
                                    ipn = from;
                                }
                                d
                            }
                            // a cookie computed by the recorder for chosen arguments
                            _ => {
                                let s = if rng.chance(5, 6) { sname.clone() } else { format!("s{}", rng.below(3)) };
                                let hip = if rng.chance(5, 6) { ipn } else { rng.below(world.ips.len() as u64) as usize };
                                let v = if rng.chance(5, 6) { 1 } else { rng.below(256) as u8 };
                                let r = if rng.chance(3, 4) { [0, 0, 0] } else { [rng.next() as u8, 0, 1] };
                                let ts = match rng.below(8) {
                                    0 => now,
                                    1 => now.wrapping_sub(rng.below(3601) as u32),
                                    2 => now.wrapping_add(rng.below(301) as u32),
                                    3 => now.wrapping_sub(3598 + rng.below(6) as u32),
                                    4 => now.wrapping_add(298 + rng.below(6) as u32),
                                    5 => now.wrapping_add(0x7fff_f000 + rng.below(0x2000) as u32),
                                    6 => now.wrapping_sub(rng.below(100_000) as u32),
                                    _ => rng.next() as u32,
                                };
                                let h = world.term(&s, &cc, v, r, ts, hip);
                                std_cookie(&cc, v, r, ts, &h)
                            }
                        };
                        // mutation: flip a bit, truncate or extend
                        match rng.below(12) {
                            0 if !d.is_empty() => {
                                let i = rng.below(d.len() as u64) as usize;
                                d[i] ^= 1 << rng.below(8);
                            }
                            1 if !d.is_empty() => {
                                let n = rng.below(d.len() as u64) as usize;
                                d.truncate(n);
                            }
                            2 => {
                                let n = 1 + rng.below(20) as usize;
                                d.extend(rng.bytes(n));
                            }
                            _ => {}
                        }
                        cookies.push(d);
                    }
                }
                // the one term the server may legitimately produce now
                if let Some(first) = cookies.first() {
                    if first.len() >= 8 {
                        let cc: [u8; 8] = first[..8].try_into().unwrap();
                        world.term(&sname, &cc, 1, [0, 0, 0], now, ipn);
                    }
                }
                let abs_cks: Vec<Value> = cookies.iter().map(|d| world.abstract_cookie(d)).collect();
                let cs = CallSpec { udp, ip: world.ips[ipn].1, qd, opt: opt.to_string(), cookies };
                let variant = rng.below(3) as u8;
                let secret = secret_of(&sname);
                let res = std::panic::catch_unwind(std::panic::AssertUnwindSafe(|| {
                    do_call(&rt, &mw, &svc, variant, &secret, now, id, &cs)
                }));
                let res = match res {
                    Ok(o) => {
                        let mut r = o.obs.clone();
                        if r["rcode"] == "BADCOOKIE" {
                            badcookie += 1;
                        }
                        if enabled && cs.udp && denied.contains(&world.ips[ipn].0) && r["act"] == "pass" {
                            auth_pass += 1;
                            // accepted although timestamp and clock are on different sides of a wrap
                            if let Some(d) = cs.cookies.first().filter(|d| d.len() == 24) {
                                let ts = u32::from_be_bytes([d[12], d[13], d[14], d[15]]);
                                if (ts >> 31) != (now >> 31) {
                                    wrap_valid += 1;
                                }
                            }
                        }
                        // the response's COOKIE option, abstracted from its octets
                        r["ck"] = match o.cookies.len() {
                            0 => no_ck(),
                            1 => world.abstract_cookie(&o.cookies[0]),
                            _ => json!({"k": "multi", "len": 0, "cc": "-", "v": 0, "r": 0, "ts": [0, 0], "h": junk()}),
                        };
                        if o.cookies.len() == 1 && o.cookies[0].len() == 24 {
                            learned.push((o.cookies[0].clone(), ipn));
                            if learned.len() > 32 {
                                learned.remove(0);
                            }
                        }
                        r
                    }
                    Err(_) => {
                        panics += 1;
                        json!({"act": "panic", "rcode": "-", "tc": false, "ck": no_ck(), "echo": "any", "fwd": "none", "rest": "-"})
                    }
                };
                w.event(json!({"ev": "call", "udp": udp, "ip": world.ips[ipn].0, "qd": qd, "opt": opt,
                               "cks": abs_cks, "res": res}));
            }
        }
    }
    let n = w.finish();
    println!("RECORDED {}", json!({"events": n, "panics": panics, "seed": seed, "auth_pass": auth_pass,
        "badcookie": badcookie, "wrap_valid": wrap_valid}));
}
