//! S->I executor for the C04 cases generated from spec/MC_Order.tla.
#[path = "../rdata.rs"]
mod rdata;
#[path = "../order_carrier.rs"]
mod order_carrier;
use order_carrier::*;
use rdata::order::*;
use serde_json::json;
use verif_harness::common::*;

fn main() {
    run_cases(|input| match input["kind"].as_str() {
        Some("label") => observe_labels(&bytes_of(&input["a"]), &bytes_of(&input["b"])),
        Some("name") => observe_names(&bytes_of(&input["a"]), &bytes_of(&input["b"])),
        Some("charstr") => observe_charstrs(&bytes_of(&input["a"]), &bytes_of(&input["b"])),
        Some("rdata") => observe_rdata_pair(
            &bytes_of(&input["a"]),
            &bytes_of(&input["b"]),
            input["eqfree"].as_bool().unwrap_or(false),
        ),
        Some("record") => observe_record_pair(
            &input["a"],
            &input["b"],
            input["eqfree"].as_bool().unwrap_or(false),
            input["canonfree"].as_bool().unwrap_or(false),
        ),
        Some("xrecord") => observe_xrecord(
            &input["a"],
            &input["b"],
            input["rep"].as_str().unwrap_or(""),
            input["xans"].as_i64().unwrap_or(0),
            input["eqfree"].as_bool().unwrap_or(false),
            input["canonfree"].as_bool().unwrap_or(false),
        ),
        Some("carrier") => observe_carrier(&input["c"]),
        Some("rcarrier") => observe_rel_carrier(&input["c"]),
        Some("cpair") => observe_carrier_pair(&input["a"], &input["b"]),
        Some("crdata") => observe_carried_rdata(
            &bytes_of(&input["a"]),
            input["cs"].as_array().map(|v| &v[..]).unwrap_or(&[]),
            &bytes_of(&input["b"]),
            input["eqfree"].as_bool().unwrap_or(false),
        ),
        Some("crecord") => observe_carried_record(
            &input["a"],
            &input["oc"],
            input["cs"].as_array().map(|v| &v[..]).unwrap_or(&[]),
            &input["b"],
            input["canonfree"].as_bool().unwrap_or(false),
        ),
        _ => json!({"bad_case": true}),
    });
}
