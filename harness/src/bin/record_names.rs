//! I->S recorder for C03: random programs of 1..400 calls on a real
//! `NameBuilder` over `Vec<u8>` or `BytesMut`, made by any of its
//! constructors, argument sizes biased towards the label and name limits,
//! one event per call.  usage: record_names <out.ndjson> <seed> <max-events>
#[path = "../names.rs"]
mod names;

use bytes::BytesMut;
use domain::base::name::NameBuilder;
use names::*;
use octseq::builder::{FreezeBuilder, OctetsBuilder};
use serde_json::{json, Value};
use verif_harness::common::*;

/// label lengths of a relative name with wire length w (0 or >= 2)
fn rel_lens(mut w: usize, rng: &mut Rng) -> Vec<usize> {
    let mut out = vec![];
    while w >= 2 {
        let max = std::cmp::min(63, w - 1);
        let mut l = if rng.chance(1, 2) { max } else { 1 + rng.below(max as u64) as usize };
        if w - (1 + l) == 1 {
            // never leave a single octet
            if l > 1 { l -= 1 } else { l += 1 }
        }
        out.push(l);
        w -= 1 + l;
    }
    out
}

fn main() {
    quiet_panics();
    let args: Vec<String> = std::env::args().collect();
    let mut w = TraceWriter::create(&args[1]);
    let mut rng = Rng::new(args[2].parse().unwrap_or(1));
    let max: u64 = args[3].parse().unwrap_or(3000);
    let mut fill = Fill(0);
    while w.n < max {
        let plen = match rng.below(4) {
            0 => 1 + rng.below(8),
            1 => 1 + rng.below(40),
            _ => 1 + rng.below(400),
        };
        // a style per program: how greedy the sizes are
        let greedy = rng.below(4);
        // a third of the programs continue an existing relative name
        let start: Vec<usize> = if rng.chance(1, 3) {
            let wl = if rng.chance(1, 2) { 200 + rng.below(55) as usize } else { rng.below(255) as usize };
            rel_lens(if wl == 1 { 2 } else { wl }, &mut rng)
        } else {
            vec![]
        };
        if rng.chance(1, 2) {
            program::<Vec<u8>>(&mut w, &mut rng, &mut fill, &start, plen, greedy);
        } else {
            program::<BytesMut>(&mut w, &mut rng, &mut fill, &start, plen, greedy);
        }
    }
    let n = w.finish();
    println!("events {}", n);
}

fn program<T>(w: &mut TraceWriter, rng: &mut Rng, fill: &mut Fill, start: &[usize], plen: u64, greedy: u64)
where
    T: OctetsBuilder + AsRef<[u8]> + AsMut<[u8]> + FreezeBuilder + Clone + Ctor,
    T::Octets: AsRef<[u8]>,
{
        let how = rng.below(1000) as usize;
        let mut b: NameBuilder<T> = if start.is_empty() {
            T::ctor(how)
        } else {
            T::from_rel(rel_of(&json!(start), fill), how)
        };
        w.event(json!({"ev": "new", "labs": start, "s": proj(&b), "octets": T::KIND, "how": how % 7}));
        for _ in 0..plen {
            let len = b.len();
            let room = 254usize.saturating_sub(len);
            let size = |rng: &mut Rng| -> usize {
                match rng.below(6 + greedy) {
                    0 => 0,
                    1 | 2 => 1 + rng.below(4) as usize,
                    3 => rng.below(70) as usize,
                    4 => 60 + rng.below(6) as usize,
                    5 => (room + 2).saturating_sub(rng.below(5) as usize),
                    6 => 63usize.saturating_sub(rng.below(3) as usize),
                    _ => std::cmp::min(63, (room + 1).saturating_sub(rng.below(4) as usize)),
                }
            };
            let (op, arg): (&str, Value) = match rng.below(20) {
                0..=4 => ("push", json!([])),
                5..=7 => ("append_slice", json!([size(rng)])),
                8 | 9 => ("end_label", json!([])),
                10..=12 => ("append_label", json!([size(rng)])),
                13 => {
                    let wlen = match rng.below(4) {
                        0 => 0,
                        1 => 2 + rng.below(6) as usize,
                        2 => std::cmp::min(254, (room + 2).saturating_sub(rng.below(5) as usize)),
                        _ => rng.below(255) as usize,
                    };
                    let wlen = if wlen == 1 { 2 } else { wlen };
                    ("append_name", json!(rel_lens(wlen, rng)))
                }
                14 => ("append_digits", json!([1 + rng.below(3)])),
                15 | 16 => (
                    "push_symbol",
                    json!(*rng.pick(&["dot", "escdot", "bracket", "ord", "ord", "dec", "bad"])),
                ),
                17 => ("finish", json!([])),
                18 => ("into_name", json!([])),
                _ => {
                    let wlen = match rng.below(3) {
                        0 => 0,
                        1 => std::cmp::min(254, (room + 2).saturating_sub(rng.below(5) as usize)),
                        _ => rng.below(255) as usize,
                    };
                    let wlen = if wlen == 1 { 2 } else { wlen };
                    ("append_origin", json!(rel_lens(wlen, rng)))
                }
            };
            let (res, out) = apply(&mut b, op, &arg, fill);
            if is_consuming(op) || out[0] != "none" {
                w.event(json!({"ev": op, "a": arg, "res": res, "out": out}));
            } else {
                w.event(json!({"ev": op, "a": arg, "res": res, "s": proj(&b)}));
            }
            if res == "panic" {
                // a builder that panicked mid-call is not reused
                break;
            }
        }
}
