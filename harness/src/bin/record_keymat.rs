//! I->S recorder for KeyMaterial.tla (X12): random key material much larger
//! than TLC's constants, one event per call of the real library.
//! usage: record_keymat <out.ndjson> <seed> <events> --open-devs D_a,D_b
#[path = "../keymat.rs"]
mod keymat;
use domain::base::iana::{DigestAlgorithm, SecurityAlgorithm};
use domain::base::ToName;
use domain::dnssec::validator::base::DnskeyExt;
use domain::rdata::Dnskey;
use keymat::*;
use serde_json::{json, Value};
use verif_harness::common::*;

fn rand_labels(rng: &mut Rng, max: u64) -> Value {
    let n = rng.below(max + 1);
    let alphabet = [b'a', b'A', b'b', b'B', b'c', b'-', b'1'];
    Value::Array((0..n).map(|_| {
        let len = 1 + rng.below(3) as usize;
        json_bytes(&(0..len).map(|_| *rng.pick(&alphabet)).collect::<Vec<u8>>())
    }).collect())
}

fn rand_key(rng: &mut Rng) -> Value {
    let flags = match rng.below(4) { 0 => 256, 1 => 257, 2 => 385, _ => rng.below(65536) };
    let alg = *rng.pick(&[1u64, 3, 5, 7, 8, 10, 13, 14, 15, 16, 253, 0, 255]);
    let n = match rng.below(5) { 0 => rng.below(4), 1 => 32, 2 => 64, 3 => 260, _ => rng.below(700) } as usize;
    let mut octs = rng.bytes(n);
    if rng.chance(1, 4) {
        for o in octs.iter_mut() { *o = 255; }
    }
    json!({"flags": flags, "proto": if rng.chance(4, 5) { 3 } else { rng.below(256) }, "alg": alg, "pub": json_bytes(&octs)})
}

fn rand_priv(rng: &mut Rng) -> Vec<Value> {
    let algs: [(u64, &str); 6] = [(8, "RSASHA256"), (10, "RSASHA512"), (13, "ECDSAP256SHA256"),
                                  (14, "ECDSAP384SHA384"), (15, "ED25519"), (16, "ED448")];
    let rsa = ["Modulus", "PublicExponent", "PrivateExponent", "Prime1", "Prime2", "Exponent1", "Exponent2", "Coefficient"];
    let (num, name) = *rng.pick(&algs);
    let mut f = vec![json!({"k": "fmt", "v": *rng.pick(&["v1.2", "v1.2", "v1.3", "v1.10", "v1.1", "v2.0"])}),
                     json!({"k": "alg", "num": num, "name": name})];
    if num == 8 || num == 10 {
        let mut order: Vec<&str> = rsa.to_vec();
        for i in (1..order.len()).rev() { order.swap(i, rng.below(i as u64 + 1) as usize); }
        for n in order { f.push(json!({"k": "field", "name": n, "v": "key"})); }
    } else {
        f.push(json!({"k": "field", "name": "PrivateKey", "v": "key"}));
    }
    // mutations
    for _ in 0..rng.below(4) {
        let i = rng.below(f.len() as u64 + 1) as usize;
        match rng.below(9) {
            0 => f.insert(i, json!({"k": "blank"})),
            1 => f.insert(i, json!({"k": "junk"})),
            2 => f.insert(i, json!({"k": "field", "name": *rng.pick(&["Created", "Publish", "Activate"]), "v": "key"})),
            3 if i < f.len() => { f.remove(i); }
            4 if i < f.len() && f[i]["k"] == "field" => {
                f[i]["v"] = json!(*rng.pick(&["m1", "p1", "empty", "bad"]));
            }
            5 if i < f.len() => { let x = f[i].clone(); f.push(x); }
            6 if i < f.len() && f[i]["k"] == "alg" => {
                let (n2, nm2) = *rng.pick(&algs);
                f[i] = if rng.chance(1, 2) { json!({"k": "alg", "num": n2, "name": name}) }
                       else { json!({"k": "alg", "num": n2, "name": nm2}) };
            }
            7 if f.len() >= 2 => { let j = rng.below(f.len() as u64) as usize; let a = i.min(f.len() - 1); f.swap(a, j); }
            _ => f.push(json!({"k": "blank"})),
        }
    }
    f
}

fn main() {
    quiet_panics();
    let args: Vec<String> = std::env::args().collect();
    let mut w = TraceWriter::create(&args[1]);
    let mut rng = Rng::new(args[2].parse().unwrap_or(1));
    let max: u64 = args[3].parse().unwrap_or(400);
    let mats = Mats::new();
    let rt = tokio::runtime::Builder::new_current_thread().enable_time().build().expect("rt");
    w.event(json!({"ev": "devs", "open": open_devs()}));
    let mut calls: Vec<Vec<String>> = vec![];
    while w.n < max {
        match rng.below(7) {
            0 => {
                let k = rand_key(&mut rng);
                let d = dnskey_of(&k);
                w.event(json!({"ev": "keytag", "key": k, "tag": d.key_tag(), "zone": d.is_zone_key(),
                               "revoked": d.is_revoked(), "sep": d.is_secure_entry_point()}));
            }
            1 => {
                let (k, o) = (rand_key(&mut rng), rand_labels(&mut rng, 4));
                let (d, owner) = (dnskey_of(&k), name_of(&o));
                let dt = *rng.pick(&[1u8, 2, 4]);
                // the digest input, computed independently of the library ...
                let mut input = owner.to_name::<Vec<u8>>().as_slice().to_ascii_lowercase();
                input.extend_from_slice(&d.flags().to_be_bytes());
                input.push(d.protocol());
                input.push(d.algorithm().to_int());
                input.extend_from_slice(d.public_key());
                let hname = ["", "sha1", "sha256", "", "sha384"][dt as usize];
                let term = json!({"op": hname, "of": [{"op": "oct", "o": json_bytes(&input)}]});
                // ... is what the library digests
                let m = d.digest(&owner, DigestAlgorithm::from_int(dt)).map(|x| x.as_ref() == &eval_term(&term)[..]).unwrap_or(false);
                w.event(json!({"ev": "ds", "owner": o, "key": k, "dt": dt, "input": json_bytes(&input), "match": m}));
            }
            2 => {
                let f = rand_priv(&mut rng);
                let res = observe(|| priv_case(&mats, &f));
                w.event(json!({"ev": "priv", "file": f, "res": res}));
            }
            3 => {
                let cap = if rng.chance(1, 3) { 24 } else { 9 };
                let n = rng.below(cap);
                let mut t: Vec<Value> = vec![];
                let has_r = rng.chance(3, 4);
                let at = rng.below(n + 1);
                for i in 0..n {
                    if has_r && i == at { t.push(json!("R")); }
                    t.push(json!(*rng.pick(&["N", "N", "S", "S", "C", "X", "R", "N", "S"])));
                    if t.last().unwrap() == "R" && rng.chance(4, 5) { t.pop(); }
                    if t.last().map(|x| x == "X").unwrap_or(false) && rng.chance(2, 3) { t.pop(); }
                }
                let res = observe(|| pub_case(mats.get(15, 1), &t));
                w.event(json!({"ev": "pub", "text": t, "res": res}));
            }
            4 => {
                calls.clear();
                w.event(json!({"ev": "anew"}));
            }
            5 if calls.len() < 6 => {
                let n = 1 + rng.below(3);
                let recs: Vec<Value> = (0..n).map(|i| json!({"owner": rand_labels(&mut rng, 3),
                    "kind": *rng.pick(&["DS", "DNSKEY"]), "id": (calls.len() as u64) * 4 + i + 1})).collect();
                calls.push(recs.iter().map(anchor_line).collect());
                let ok = anchors_from(&calls).is_ok();
                w.event(json!({"ev": "add", "recs": recs, "res": if ok { "ok" } else { "err" }}));
            }
            _ => {
                let name = rand_labels(&mut rng, 4);
                let found = match anchors_from(&calls) {
                    Ok(ta) => observe(|| find_via_validator(&rt, ta, &name_of(&name))),
                    Err(_) => json!({"err": true}),
                };
                w.event(json!({"ev": "find", "name": name, "found": found}));
            }
        }
    }
    let _ = (SecurityAlgorithm::ED25519, Dnskey::<Vec<u8>>::new(0, 3, SecurityAlgorithm::ED25519, vec![]));
    w.finish();
}
