//! S->I executor for spec/ZoneVersions.tla (X03): TLC-generated behaviours
//! (reader acquire/release, write sessions with update/remove of the apex
//! SOA and TXT RRsets, commit with or without bump_soa_serial, abandon) are
//! performed on a real in-memory `Zone`; after every step what every held
//! reader and a fresh reader see is compared with the specification's.
#[path = "../zonetree.rs"]
mod zonetree;

use serde_json::Value;
use verif_harness::common::run_cases;

fn main() {
    run_cases(|input| {
        let bits = input["bits"].as_u64().unwrap_or(3) as u32;
        let mut h = zonetree::VersionsHarness::new(input["soa0"].as_i64().unwrap_or(-1), bits);
        let mut out = vec![];
        for op in input["ops"].as_array().cloned().unwrap_or_default() {
            h.apply(&op);
            out.push(h.project());
        }
        // readers and the write session go before the zone
        h.writer = None;
        h.readers.clear();
        Value::Array(out)
    });
}
