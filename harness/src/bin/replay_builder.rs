//! S->I executor for MsgBuilder.tla behaviours (C02).
//!
//! A case is a whole behaviour: compressor, target, the calls with their
//! abstract items.  Every call is made on the real builder; after every call
//! the observation [result, length, four counts, number of accepted items,
//! length prefix] is recorded.  Independently of the specification the
//! executor checks on the real run that a failed push left octets and counts
//! bit-identical, that the stream prefix equals the message length after
//! every call, and at the end that the octets parse back (own reader and
//! the library's `Message`) to the accepted items; for targets without a
//! compressor the octets must equal the plain encodings exactly.
#[path = "../builder.rs"]
mod builder;

use builder::*;
use serde_json::{json, Value};
use std::sync::{mpsc, Arc, Mutex};
use verif_harness::common::*;

/// the API route used for call i in variant v: variants 0..8 and 11..18 use
/// the same entry point for every call, the others mix them (the route
/// number is taken apart with different moduli by the driver, see
/// builder::Drive: entry point of the push, owner representation, TTL
/// constructor, conversion, limit, header, read-out, finish)
fn route_of(v: u32, i: usize) -> u32 {
    match v {
        0..=8 => v,
        9 => (i as u32) * 5 + 3,
        10 => (i as u32) * 11 + 7,
        11..=18 => v - 2 + 17 * (v - 10) + 68 * (v - 10) + 408 * (v % 3),
        19 => (i as u32 + 1) * 7919 + 13,
        _ => (i as u32 + 3) * 104729 + 5,
    }
}
const VARIANTS: u32 = 21;

fn four(v: &Value) -> [u8; 4] {
    let b = bytes_of(v);
    let mut h = [0u8; 4];
    for i in 0..4.min(b.len()) {
        h[i] = b[i];
    }
    h
}

fn run(comp: &str, tgt: &str, calls: &[Value], variant: u32) -> Value {
    let mut d = make(comp, tgt, variant % 2 == 1);
    // after request_axfr the message ID is random: it is reported as the
    // ID the call names until the header is written again
    let mut id_masked: Option<u16> = None;
    let mut gone = false;
    let mut acc: Vec<(u8, Item)> = vec![];
    let mut steps = vec![];
    let mut notes: Vec<String> = vec![];
    let is_stream = tgt == "stream" || tgt == "sarray";
    let mut finished: Option<(Vec<u8>, Option<Vec<u8>>)> = None;
    for (i, c) in calls.iter().enumerate() {
        let op = c["op"].as_str().unwrap_or("");
        let mut res = "-";
        d.set_route(route_of(variant, i));
        match op {
            "goto" => {
                let s = c["n"].as_u64().unwrap_or(0) as u8;
                if s < d.section() {
                    drop_above(&mut acc, s);
                }
                d.goto(s);
            }
            "rewind" => {
                let s = d.section();
                acc.retain(|(x, _)| *x != s);
                d.rewind();
            }
            "limit" => d.set_limit(Some(c["n"].as_u64().unwrap_or(0) as usize)),
            "clear" => d.set_limit(None),
            "finish" => {
                finished = Some(d.finish());
            }
            "hdr" => {
                d.set_header(four(&c["h"]));
                id_masked = None;
            }
            "start" => {
                let qs: Vec<Item> = c["qs"]
                    .as_array()
                    .map(|a| a.iter().map(item_from_json).collect())
                    .unwrap_or_default();
                let kind = c["kind"].as_str().unwrap_or("");
                let rq = four(&c["rq"]);
                res = d.start(kind, rq, c["n"].as_u64().unwrap_or(0) as u8, &qs);
                if res == "gone" {
                    gone = true;
                } else {
                    // which questions went in is read from the count
                    let n = d.counts()[0] as usize;
                    for q in qs.iter().take(n) {
                        acc.push((1, q.clone()));
                    }
                    id_masked = if kind == "axfr" {
                        Some(u16::from_be_bytes([rq[0], rq[1]]))
                    } else {
                        None
                    };
                }
            }
            _ => {
                let it = item_from_json(&c["item"]);
                let rc = if op == "optrc" { Some(c["n"].as_u64().unwrap_or(0) as u16) } else { None };
                let before = (d.octets(), d.stream());
                let ok = d.push(&it, rc);
                if ok {
                    acc.push((d.section(), it));
                    res = "ok";
                } else {
                    res = "err";
                    let mut after = (d.octets(), d.stream());
                    if rc.is_some() {
                        // the RCODE bits of the header are compared with the
                        // specification (flags word of the step)
                        after.0[3] = (after.0[3] & 0xf0) | (before.0[3] & 0x0f);
                        if let (Some(a), Some(b)) = (after.1.as_mut(), before.1.as_ref()) {
                            a[5] = (a[5] & 0xf0) | (b[5] & 0x0f);
                        }
                    }
                    if after != before {
                        notes.push(format!("call {}: failed push changed the octets", i + 1));
                    }
                }
            }
        }
        if gone {
            // the builder was consumed by the failing call: nothing to observe
            steps.push(json!(["gone", 0, 0, 0, 0, 0, 0, 0, 0, 0]));
            return json!({"steps": steps, "valid": true});
        }
        let hd = match &finished {
            Some((o, _)) => [o[0], o[1], o[2], o[3]],
            None => d.header(),
        };
        let id = id_masked.unwrap_or(u16::from_be_bytes([hd[0], hd[1]]));
        let fl = u16::from_be_bytes([hd[2], hd[3]]);
        let (len, cnt, stream) = match &finished {
            Some((o, s)) => {
                let c = [
                    u16::from_be_bytes([o[4], o[5]]),
                    u16::from_be_bytes([o[6], o[7]]),
                    u16::from_be_bytes([o[8], o[9]]),
                    u16::from_be_bytes([o[10], o[11]]),
                ];
                (o.len(), c, s.clone())
            }
            None => (d.len(), d.counts(), d.stream()),
        };
        let shim = if is_stream {
            match &stream {
                Some(s) if s.len() == len + 2 => u16::from_be_bytes([s[0], s[1]]) as usize,
                _ => {
                    notes.push(format!("call {}: stream slice is not prefix + message", i + 1));
                    usize::MAX
                }
            }
        } else {
            len
        };
        steps.push(json!([res, len, cnt[0], cnt[1], cnt[2], cnt[3], acc.len(), shim, id, fl]));
        if finished.is_some() {
            break;
        }
    }
    let octets = match finished {
        Some((o, _)) => o,
        None => d.octets(),
    };
    let exact = comp == "none";
    let mut valid = true;
    if let Err(e) = parses_back_to(&octets, &acc, exact) {
        valid = false;
        notes.push(format!("reader: {}", e));
    }
    if let Err(e) = library_reparse(&octets, &acc) {
        valid = false;
        notes.push(e);
    }
    if let Err(e) = library_reparse2(&octets, &acc, variant) {
        valid = false;
        notes.push(e);
    }
    if exact && octets[4..] != plain_message(&acc)[4..] {
        valid = false;
        notes.push("octets differ from the plain encodings".into());
    }
    let hard: Vec<&String> = notes
        .iter()
        .filter(|n| n.starts_with("call "))
        .collect();
    if hard.is_empty() {
        json!({"steps": steps, "valid": valid})
    } else {
        json!({"steps": steps, "valid": valid, "broken": hard})
    }
}

/// one run of a behaviour on a worker thread
struct Job {
    no: usize,
    comp: String,
    tgt: String,
    calls: Arc<Vec<Value>>,
    variant: u32,
}

fn main() {
    let all_variants = tier_thorough();
    let mut case_no = 0usize;
    // the variants of one behaviour are executed by a few worker threads
    // (every run builds its own message; nothing is shared)
    let (job_tx, job_rx) = mpsc::channel::<Job>();
    let job_rx = Arc::new(Mutex::new(job_rx));
    let (res_tx, res_rx) = mpsc::channel::<(usize, Value)>();
    for _ in 0..4 {
        let rx = Arc::clone(&job_rx);
        let tx = res_tx.clone();
        std::thread::spawn(move || loop {
            let job = match rx.lock().expect("job queue").recv() {
                Ok(j) => j,
                Err(_) => return,
            };
            let v = catch(|| run(&job.comp, &job.tgt, &job.calls, job.variant));
            if tx.send((job.no, v)).is_err() {
                return;
            }
        });
    }
    run_cases(|input| {
        let comp = input["comp"].as_str().unwrap_or("none").to_string();
        let tgt = input["tgt"].as_str().unwrap_or("vec").to_string();
        let calls = Arc::new(input["calls"].as_array().cloned().unwrap_or_default());
        // every behaviour is executed once per API route variant; the
        // specification does not distinguish them (nor Vec<u8> and BytesMut,
        // nor the stream targets over them)
        let mut tgts = vec![tgt.as_str()];
        if tgt == "vec" {
            tgts.push("bytes");
        }
        if tgt == "stream" {
            tgts.push("sbytes");
        }
        // quick tier: a third of the variants per behaviour, which third
        // rotates with the behaviour; thorough tier: all of them
        case_no += 1;
        let mut jobs: Vec<(&str, u32)> = vec![];
        for (ti, t) in tgts.into_iter().enumerate() {
            for v in 0..VARIANTS {
                if v == 0 && t == tgt {
                    continue;
                }
                if !all_variants && (v as usize + case_no + ti) % 3 != 0 {
                    continue;
                }
                jobs.push((t, v));
            }
        }
        for (no, (t, v)) in jobs.iter().enumerate() {
            job_tx
                .send(Job { no, comp: comp.clone(), tgt: t.to_string(), calls: Arc::clone(&calls), variant: *v })
                .expect("workers alive");
        }
        let first = run(&comp, &tgt, &calls, 0);
        let mut results: Vec<Option<Value>> = vec![None; jobs.len()];
        for _ in 0..jobs.len() {
            let (no, v) = res_rx.recv().expect("workers alive");
            results[no] = Some(v);
        }
        for (no, other) in results.into_iter().enumerate() {
            let other = other.expect("every job answered");
            if other != first {
                let (t, v) = jobs[no];
                return json!({"route_variant": v, "tgt": t, "obs": other, "variant0": first});
            }
        }
        first
    });
}

fn catch<F: FnOnce() -> Value>(f: F) -> Value {
    match std::panic::catch_unwind(std::panic::AssertUnwindSafe(f)) {
        Ok(v) => v,
        Err(e) => json!({"panic": panic_msg(e)}),
    }
}
