//! S->I executor for MsgBuilder.tla behaviours (C02).
//!
//! A case is a whole behaviour: compressor, target, the calls with their
//! abstract items.  Every call is made on the real builder; after every call
//! the observation [result, length, four counts, number of accepted items,
//! length prefix] is recorded.  Independently of the specification the
//! executor checks on the real run that a failed push left octets and counts
//! bit-identical, that the stream prefix equals the message length after
//! every call, and at the end that the octets parse back (own reader and
//! the library's `Message`) to the accepted items; for targets without a
//! compressor the octets must equal the plain encodings exactly.
#[path = "../builder.rs"]
mod builder;

use builder::*;
use serde_json::{json, Value};
use verif_harness::common::*;

/// the API route used for call i in variant v: variants 0..8 use the same
/// entry point for every call, 9 and 10 mix them
fn route_of(v: u32, i: usize) -> u32 {
    match v {
        0..=8 => v,
        9 => (i as u32) * 5 + 3,
        _ => (i as u32) * 11 + 7,
    }
}
const VARIANTS: u32 = 11;

fn run(comp: &str, tgt: &str, calls: &[Value], variant: u32) -> Value {
    let mut d = make(comp, tgt);
    let mut acc: Vec<(u8, Item)> = vec![];
    let mut steps = vec![];
    let mut notes: Vec<String> = vec![];
    let is_stream = tgt == "stream" || tgt == "sarray";
    let mut finished: Option<(Vec<u8>, Option<Vec<u8>>)> = None;
    for (i, c) in calls.iter().enumerate() {
        let op = c["op"].as_str().unwrap_or("");
        let mut res = "-";
        d.set_route(route_of(variant, i));
        match op {
            "goto" => {
                let s = c["n"].as_u64().unwrap_or(0) as u8;
                if s < d.section() {
                    drop_above(&mut acc, s);
                }
                d.goto(s);
            }
            "rewind" => {
                let s = d.section();
                acc.retain(|(x, _)| *x != s);
                d.rewind();
            }
            "limit" => d.set_limit(Some(c["n"].as_u64().unwrap_or(0) as usize)),
            "clear" => d.set_limit(None),
            "finish" => {
                finished = Some(d.finish());
            }
            _ => {
                let it = item_from_json(&c["item"]);
                let before = (d.octets(), d.stream());
                let ok = d.push(&it);
                if ok {
                    acc.push((d.section(), it));
                    res = "ok";
                } else {
                    res = "err";
                    if (d.octets(), d.stream()) != before {
                        notes.push(format!("call {}: failed push changed the octets", i + 1));
                    }
                }
            }
        }
        let (len, cnt, stream) = match &finished {
            Some((o, s)) => {
                let c = [
                    u16::from_be_bytes([o[4], o[5]]),
                    u16::from_be_bytes([o[6], o[7]]),
                    u16::from_be_bytes([o[8], o[9]]),
                    u16::from_be_bytes([o[10], o[11]]),
                ];
                (o.len(), c, s.clone())
            }
            None => (d.len(), d.counts(), d.stream()),
        };
        let shim = if is_stream {
            match &stream {
                Some(s) if s.len() == len + 2 => u16::from_be_bytes([s[0], s[1]]) as usize,
                _ => {
                    notes.push(format!("call {}: stream slice is not prefix + message", i + 1));
                    usize::MAX
                }
            }
        } else {
            len
        };
        steps.push(json!([res, len, cnt[0], cnt[1], cnt[2], cnt[3], acc.len(), shim]));
        if finished.is_some() {
            break;
        }
    }
    let octets = match finished {
        Some((o, _)) => o,
        None => d.octets(),
    };
    let exact = comp == "none";
    let mut valid = true;
    if let Err(e) = parses_back_to(&octets, &acc, exact) {
        valid = false;
        notes.push(format!("reader: {}", e));
    }
    if let Err(e) = library_reparse(&octets, &acc) {
        valid = false;
        notes.push(e);
    }
    if exact && octets != plain_message(&acc) {
        valid = false;
        notes.push("octets differ from the plain encodings".into());
    }
    let hard: Vec<&String> = notes
        .iter()
        .filter(|n| n.starts_with("call "))
        .collect();
    if hard.is_empty() {
        json!({"steps": steps, "valid": valid})
    } else {
        json!({"steps": steps, "valid": valid, "broken": hard})
    }
}

fn main() {
    run_cases(|input| {
        let comp = input["comp"].as_str().unwrap_or("none").to_string();
        let tgt = input["tgt"].as_str().unwrap_or("vec").to_string();
        let calls = input["calls"].as_array().cloned().unwrap_or_default();
        // every behaviour is executed once per API route variant; the
        // specification does not distinguish them (nor Vec<u8> and BytesMut)
        let first = run(&comp, &tgt, &calls, 0);
        let mut tgts = vec![tgt.as_str()];
        if tgt == "vec" {
            tgts.push("bytes");
        }
        for t in tgts {
            for v in 0..VARIANTS {
                if v == 0 && t == tgt {
                    continue;
                }
                let other = catch(|| run(&comp, t, &calls, v));
                if other != first {
                    return json!({"route_variant": v, "tgt": t, "obs": other, "variant0": first});
                }
            }
        }
        first
    });
}

fn catch<F: FnOnce() -> Value>(f: F) -> Value {
    match std::panic::catch_unwind(std::panic::AssertUnwindSafe(f)) {
        Ok(v) => v,
        Err(e) => json!({"panic": panic_msg(e)}),
    }
}
