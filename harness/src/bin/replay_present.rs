//! S->I executor for Presentation.tla cases (C06).
//!
//! A case gives a record as wire octets (owner, class, TTL, type, RDATA), a
//! display kind, an origin for the reader (or none) and optionally the text
//! the *specification's* writer produces for it.  Observation:
//!   lib:  the record written by the library (display_zonefile(kind) or
//!         fmt::Display) and read back by zonefile::inplace::Zonefile --
//!         "eq" if exactly one equal record comes back, else what was read;
//!   spec: the specification's text read back by the library's reader.
#[path = "../zf.rs"]
mod zf;
#[path = "../present_types.rs"]
mod present_types;
use serde_json::{json, Value};
use std::io::BufRead;
use verif_harness::common::*;

fn run_one(input: &Value) -> Value {
    let (owner, class, ttl, rtype, rdata) = if let Some(t) = input.get("type_case") {
        // type sweep: (table row, variant) -> hand-assembled wire RDATA
        let table = present_types::type_table();
        let row = &table[t[0].as_u64().unwrap_or(0) as usize % table.len()];
        let v = &row.variants[t[1].as_u64().unwrap_or(0) as usize % row.variants.len()];
        (bytes_of(&input["owner"]), 1u16, 3600u32, row.rtype, v.clone())
    } else {
        (bytes_of(&input["owner"]), input["class"].as_u64().unwrap_or(1) as u16,
         input["ttl"].as_u64().unwrap_or(0) as u32, input["rtype"].as_u64().unwrap_or(0) as u16,
         bytes_of(&input["rdata"]))
    };
    let kind = input["kind"].as_str().unwrap_or("simple");
    let origin_v = bytes_of(&input["origin"]);
    let origin = if origin_v.is_empty() { None } else { Some(&origin_v[..]) };
    let rec = match zf::record_from_wire(&owner, class, ttl, rtype, &rdata) {
        Ok(r) => r,
        Err(e) => return json!({"bad_wire": e}),
    };
    let text = zf::write_record(&rec, kind);
    zf::tick(&text);
    let mut lib = zf::read_back(&rec, text.as_bytes(), origin);
    if input.get("type_case").is_some() && lib != json!("eq") {
        // the type sweep has no model of what a misreading looks like
        lib = json!("neq");
    }
    let mut obs = json!({"lib": lib});
    if let Some(st) = input.get("stext") {
        obs["spec"] = zf::read_back(&rec, &bytes_of(st), origin);
    }
    obs
}

fn probe() {
    quiet_panics();
    for line in std::io::stdin().lock().lines() {
        let line = line.unwrap();
        let input: Value = match serde_json::from_str(&line) { Ok(v) => v, Err(e) => { println!("bad json {}", e); continue; } };
        let inp = if input.get("in").is_some() { input["in"].clone() } else { input };
        for kind in ["simple", "tabbed", "multiline", "display"] {
            let mut i = inp.clone();
            i["kind"] = json!(kind);
            let r = std::panic::catch_unwind(|| {
                let rec = zf::record_from_wire(&bytes_of(&i["owner"]), i["class"].as_u64().unwrap_or(1) as u16,
                    i["ttl"].as_u64().unwrap_or(0) as u32, i["rtype"].as_u64().unwrap_or(0) as u16, &bytes_of(&i["rdata"]));
                let text = rec.as_ref().map(|r| zf::write_record(r, kind)).unwrap_or_else(|e| format!("<{}>", e));
                (text, run_one(&i))
            });
            match r {
                Ok((t, o)) => println!("{:9} {:?} => {}", kind, t, o),
                Err(p) => println!("{:9} PANIC {}", kind, panic_msg(p)),
            }
        }
    }
}

/// run the whole type table through the round trip and print what fails
fn sweep() {
    quiet_panics();
    let table = present_types::type_table();
    let (mut n, mut bad) = (0, 0);
    for (i, row) in table.iter().enumerate() {
        for (j, v) in row.variants.iter().enumerate() {
            for kind in ["simple", "tabbed", "multiline", "display"] {
                for origin in [vec![], b"\x07example\x00".to_vec()] {
                    let inp = json!({"type_case": [i, j], "owner": json_bytes(b"\x04host\x07example\x00"),
                                     "kind": kind, "origin": json_bytes(&origin)});
                    n += 1;
                    let r = std::panic::catch_unwind(|| run_one(&inp));
                    let text = zf::record_from_wire(b"\x04host\x07example\x00", 1, 3600, row.rtype, v)
                        .map(|r| zf::write_record(&r, kind)).unwrap_or_else(|e| format!("<{}>", e));
                    match r {
                        Ok(o) if o["lib"] == json!("eq") => {}
                        Ok(o) => { bad += 1; if origin.is_empty() { println!("{} #{} {} {:?} => {}", row.name, j, kind, text, o); } }
                        Err(p) => { bad += 1; println!("{} #{} {} PANIC {}", row.name, j, kind, panic_msg(p)); }
                    }
                }
            }
        }
    }
    println!("SWEEP n={} bad={}", n, bad);
}

fn types() {
    // list the type table: one line per row with the number of variants
    for (i, row) in present_types::type_table().iter().enumerate() {
        println!("{}", json!({"i": i, "rtype": row.rtype, "name": row.name, "n": row.variants.len()}));
    }
}

fn main() {
    if has_flag("--probe") {
        return probe();
    }
    if has_flag("--sweep") {
        return sweep();
    }
    if has_flag("--types") {
        return types();
    }
    zf::start_watchdog(20);
    run_cases(run_one);
}
