//! S->I executor for Presentation.tla cases (C06).
//!
//! A case gives a record as wire octets (owner, class, TTL, type, RDATA), a
//! display kind, an origin for the reader (or none) and optionally the text
//! the *specification's* writer produces for it.  Observation:
//!   lib:  the record written by the library (display_zonefile(kind) or
//!         fmt::Display) and read back by zonefile::inplace::Zonefile --
//!         "eq" if exactly one equal record comes back, else what was read;
//!   spec: the specification's text read back by the library's reader.
#[path = "../zf.rs"]
mod zf;
#[path = "../present_types.rs"]
mod present_types;
use bytes::Bytes;
use serde_json::{json, Value};
use std::io::BufRead;
use verif_harness::common::*;

fn route_of(input: &Value) -> (String, String, String) {
    let r = &input["route"];
    let g = |i: usize, d: &str| r.get(i).and_then(|x| x.as_str()).unwrap_or(d).to_string();
    (g(0, "new"), g(1, "wire"), g(2, "zone"))
}

/// The token route: the specification's record-data tokens read by
/// ZoneRecordData::scan over an IterScanner (and, where the type has one, by
/// the FromStr impl / UnknownRecordData::scan / base16::decode_vec).
fn tok_obs(rec: &zf::FlatRecord, rtype: u16, toks: &Value) -> Value {
    use domain::base::iana::Rtype;
    use domain::base::name::Name;
    use domain::base::scan::IterScanner;
    use domain::rdata::{Ns, ZoneRecordData};
    use std::str::FromStr;
    let strs: Vec<String> = toks.as_array().map(|a| a.iter().map(|t| string_of(&t["t"])).collect()).unwrap_or_default();
    let rd_json = |d: &zf::FlatData| {
        use domain::base::rdata::ComposeRecordData;
        let mut v: Vec<u8> = Vec::new();
        let _ = d.compose_rdata(&mut v);
        json!({"rd": json_bytes(&v)})
    };
    let mut sc = IterScanner::<_, Bytes>::new(strs.iter());
    let first = match ZoneRecordData::<Bytes, Name<Bytes>>::scan(Rtype::from_int(rtype), &mut sc) {
        Ok(d) if !sc.is_exhausted() => { let _ = d; return json!({"err": true}); }
        Ok(d) => d,
        Err(_) => return json!({"err": true}),
    };
    if first != *rec.data() {
        return rd_json(&first);
    }
    // aliases
    if [2u16, 5, 12, 39].contains(&rtype) {
        match Ns::<Name<Bytes>>::from_str(&strs[0]) {
            Ok(ns) => { let d: zf::FlatData = ZoneRecordData::Ns(ns); let want: zf::FlatData = ZoneRecordData::Ns(Ns::new(name_of(rec)));
                        if d != want { return json!({"from_str": "differs"}); } }
            Err(_) => return json!({"from_str": "err"}),
        }
    }
    json!("eq")
}

/// The generic form read by the routes that take the marker themselves:
/// UnknownRecordData::scan over an IterScanner, the hex words by
/// base16::decode_vec.  "eq" where the tokens are not the generic form.
fn tokm_obs(rec: &zf::FlatRecord, rtype: u16, toks: &Value) -> Value {
    use domain::base::iana::Rtype;
    use domain::base::rdata::{ComposeRecordData, UnknownRecordData};
    use domain::base::scan::IterScanner;
    use domain::rdata::ZoneRecordData;
    let strs: Vec<String> = toks.as_array().map(|a| a.iter().map(|t| string_of(&t["t"])).collect()).unwrap_or_default();
    if strs.first().map(|s| s != "\\#").unwrap_or(true) {
        return json!("eq");
    }
    let mut sc = IterScanner::<_, Bytes>::new(strs.iter());
    match UnknownRecordData::<Bytes>::scan(Rtype::from_int(rtype), &mut sc) {
        Ok(u) => { let d: zf::FlatData = ZoneRecordData::Unknown(u); if d != *rec.data() || !sc.is_exhausted() { return json!({"unknown_scan": "differs"}); } }
        Err(_) => return json!({"err": true}),
    }
    let hex: String = strs[2..].concat();
    let mut w: Vec<u8> = Vec::new();
    let _ = rec.data().compose_rdata(&mut w);
    match domain::utils::base16::decode_vec(&hex) {
        Ok(v) if v == w => json!("eq"),
        Ok(_) => json!({"decode_vec": "differs"}),
        Err(_) => json!({"decode_vec": "err"}),
    }
}

fn name_of(rec: &zf::FlatRecord) -> domain::base::name::Name<Bytes> {
    // the single name of NS-like data, from its wire form
    use domain::base::rdata::ComposeRecordData;
    let mut v: Vec<u8> = Vec::new();
    let _ = rec.data().compose_rdata(&mut v);
    domain::base::name::Name::from_octets(Bytes::from(v)).expect("name data")
}

/// Label texts: [l: octets, t: the specification's text]
fn lbl_obs(ltexts: &Value) -> Value {
    use domain::base::name::{Label, OwnedLabel};
    use std::str::FromStr;
    for e in ltexts.as_array().cloned().unwrap_or_default() {
        let l = bytes_of(&e["l"]);
        let label = match Label::from_slice(&l) { Ok(x) => x, Err(_) => return json!({"bad_label": json_bytes(&l)}) };
        let lib_text = format!("{}", label);
        if format!("{}", label.to_owned()) != lib_text { return json!({"label": json_bytes(&l), "to_owned": "differs"}); }
        for (who, t) in [("spec", string_of(&e["t"])), ("lib", lib_text.clone())] {
            match OwnedLabel::from_str(&t) {
                Ok(o) if o.as_label().as_slice() == &l[..] && format!("{}", o) == lib_text && o.as_label().is_wildcard() == (l == b"*") => {}
                Ok(o) => return json!({"label": json_bytes(&l), "text": who, "read": json_bytes(o.as_label().as_slice())}),
                Err(_) => return json!({"label": json_bytes(&l), "text": who, "err": true}),
            }
        }
    }
    json!("eq")
}

/// Character-string texts: [s: octets, t: the specification's unquoted text]
fn cs_obs(ctexts: &Value) -> Value {
    use domain::base::charstr::CharStr;
    use domain::base::scan::{IterScanner, Scanner};
    use std::str::FromStr;
    for e in ctexts.as_array().cloned().unwrap_or_default() {
        let s = bytes_of(&e["s"]);
        let cs = match CharStr::from_octets(Bytes::copy_from_slice(&s)) { Ok(c) => c, Err(_) => return json!({"bad_charstr": true}) };
        let lib_text = format!("{}", cs.display_unquoted());
        for (who, t) in [("spec", string_of(&e["t"])), ("lib", lib_text)] {
            match CharStr::<Bytes>::from_str(&t) {
                Ok(c) if c.as_slice() == &s[..] => {}
                Ok(c) => return json!({"charstr": json_bytes(&s), "text": who, "read": json_bytes(c.as_slice())}),
                Err(_) => return json!({"charstr": json_bytes(&s), "text": who, "err": true}),
            }
            let toks = [t.clone()];
            let mut sc = IterScanner::<_, Bytes>::new(toks.iter());
            match sc.scan_charstr() {
                Ok(c) if c.as_slice() == &s[..] => {}
                _ => return json!({"charstr": json_bytes(&s), "text": who, "scan_charstr": "differs"}),
            }
        }
    }
    json!("eq")
}

fn opts_of<'a>(cfg: &Value, origin_v: &'a [u8]) -> zf::ReadOpts<'a> {
    zf::ReadOpts {
        origin: if origin_v.is_empty() { None } else { Some(origin_v) },
        default_class: cfg["dclass"].as_i64().filter(|c| *c >= 0).map(|c| c as u16),
        allow_invalid: cfg["allow"].as_bool().unwrap_or(false),
    }
}

/// A zone case: records, a kind per record, the writing mode, the reader's
/// configuration, the routes.  Observation: what the configured reader
/// returns for the library's text and for the specification's text.
fn run_zone(input: &Value) -> Value {
    let z = &input["zone"];
    let (mk, mkd, _) = route_of(input);
    let mut recs = vec![];
    for r in z["recs"].as_array().cloned().unwrap_or_default() {
        match zf::record_via(&mk, &mkd, &bytes_of(&r["owner"]), r["class"].as_u64().unwrap_or(1) as u16,
                             r["ttl"].as_u64().unwrap_or(0) as u32, r["rtype"].as_u64().unwrap_or(0) as u16, &bytes_of(&r["rdata"])) {
            Ok(x) => recs.push(x),
            Err(e) => return json!({"bad_wire": e}),
        }
    }
    let kinds: Vec<String> = z["kinds"].as_array().map(|a| a.iter().map(|k| k.as_str().unwrap_or("simple").to_string()).collect()).unwrap_or_default();
    let text = if z["mode"] == json!("fmt") {
        zf::write_zone_fmt(&recs, kinds.first().map(|s| s.as_str()).unwrap_or("simple"))
    } else {
        recs.iter().zip(kinds.iter()).map(|(r, k)| zf::write_record(r, k)).collect::<String>()
    };
    zf::tick(&text);
    let origin_v = bytes_of(&z["cfg"]["origin"]);
    let o = opts_of(&z["cfg"], &origin_v);
    let ctor = z["ctor"].as_str().unwrap_or("from_slice");
    let mut obs = json!({"lib": zf::read_all_via(ctor, text.as_bytes(), &o)});
    if let Some(st) = input.get("stext") {
        obs["spec"] = zf::read_all_via(ctor, &bytes_of(st), &o);
    }
    obs
}

fn run_one(input: &Value) -> Value {
    if input.get("zone").is_some() {
        return run_zone(input);
    }
    let (mk, mkd, wr) = route_of(input);
    let (owner, class, ttl, rtype, rdata) = if let Some(t) = input.get("type_case") {
        // type sweep: (table row, variant) -> hand-assembled wire RDATA
        let table = present_types::type_table();
        let row = &table[t[0].as_u64().unwrap_or(0) as usize % table.len()];
        let v = &row.variants[t[1].as_u64().unwrap_or(0) as usize % row.variants.len()];
        (bytes_of(&input["owner"]), 1u16, 3600u32, row.rtype, v.clone())
    } else {
        (bytes_of(&input["owner"]), input["class"].as_u64().unwrap_or(1) as u16,
         input["ttl"].as_u64().unwrap_or(0) as u32, input["rtype"].as_u64().unwrap_or(0) as u16,
         bytes_of(&input["rdata"]))
    };
    let kind = input["kind"].as_str().unwrap_or("simple");
    let origin_v = bytes_of(&input["origin"]);
    let origin = if origin_v.is_empty() { None } else { Some(&origin_v[..]) };
    // adm = false: the specification says the constructors do not admit the
    // record (a field value outside Admitted(kind, v)): nothing to round-trip
    let not_admitted = input.get("adm") == Some(&json!(false));
    // raw: a text the specification's reader refuses (a name beyond the length
    // limit): what the library's reader makes of it, and whether any route
    // builds the record at all
    let raw = input.get("raw").map(|t| zf::read_all(&bytes_of(t), &zf::ReadOpts { origin, default_class: None, allow_invalid: false }));
    let built = zf::record_via(&mk, &mkd, &owner, class, ttl, rtype, &rdata);
    let na = || {
        let mut v = json!({"lib": "na", "spec": "na", "tok": "na", "tokm": "na", "lbl": "na", "cs": "na"});
        if let Some(r) = &raw {
            v["raw"] = r.clone();
            v["built"] = json!(built.is_ok() || zf::record_from_wire(&owner, class, ttl, rtype, &rdata).is_ok());
        }
        v
    };
    let rec = match built.clone() {
        Ok(r) => r,
        Err(_) if not_admitted => return na(),
        Err(e) => return json!({"bad_wire": e}),
    };
    // carrier records of the restricted-alphabet fields: the typed constructors
    // admit exactly what the wire parser admits, and build the same data
    if input.get("type_case").is_none() {
        match present_types::typed_fields(rtype, &rdata) {
            Some(Ok(d)) if d != *rec.data() => return json!({"typed_constructors": "build different data"}),
            Some(Err(e)) => return json!({"typed_constructors": e}),
            _ => {}
        }
    }
    let text = zf::write_record_via(&wr, &rec, kind);
    zf::tick(&text);
    let mut lib = zf::read_back(&rec, text.as_bytes(), origin);
    if input.get("type_case").is_some() && lib != json!("eq") {
        // the type sweep has no model of what a misreading looks like
        lib = json!("neq");
    }
    let mut obs = json!({"lib": lib});
    if let Some(st) = input.get("stext") {
        obs["spec"] = zf::read_back(&rec, &bytes_of(st), origin);
    }
    if let Some(rt) = input.get("rel") {
        // an equivalent spelling of the specification: names relative to the origin
        obs["rel"] = if zf::read_back(&rec, &bytes_of(rt), origin) == json!("eq") { json!("eq") } else { json!("neq") };
    }
    if input.get("type_case").is_some() {
        obs["tok"] = tok_words_obs(&rec, rtype);
    }
    if let Some(toks) = input.get("toks") {
        obs["tok"] = tok_obs(&rec, rtype, toks);
        obs["tokm"] = tokm_obs(&rec, rtype, toks);
    }
    if let Some(l) = input.get("ltexts") {
        obs["lbl"] = lbl_obs(l);
    }
    if let Some(c) = input.get("ctexts") {
        obs["cs"] = cs_obs(c);
    }
    if not_admitted && raw.is_none() && ["lib", "spec", "tok", "tokm", "lbl", "cs"].iter().all(|k| obs[*k] == json!("eq")) {
        // the library admits more than the specification's Admitted: the law
        // holds for the record all the same, nothing to report
        return na();
    }
    if let Some(r) = &raw {
        obs["raw"] = r.clone();
        obs["built"] = json!(true);
    }
    obs
}

fn probe() {
    quiet_panics();
    for line in std::io::stdin().lock().lines() {
        let line = line.unwrap();
        let input: Value = match serde_json::from_str(&line) { Ok(v) => v, Err(e) => { println!("bad json {}", e); continue; } };
        let inp = if input.get("in").is_some() { input["in"].clone() } else { input };
        for kind in ["simple", "tabbed", "multiline", "display"] {
            let mut i = inp.clone();
            i["kind"] = json!(kind);
            let r = std::panic::catch_unwind(|| {
                let rec = zf::record_from_wire(&bytes_of(&i["owner"]), i["class"].as_u64().unwrap_or(1) as u16,
                    i["ttl"].as_u64().unwrap_or(0) as u32, i["rtype"].as_u64().unwrap_or(0) as u16, &bytes_of(&i["rdata"]));
                let text = rec.as_ref().map(|r| zf::write_record(r, kind)).unwrap_or_else(|e| format!("<{}>", e));
                (text, run_one(&i))
            });
            match r {
                Ok((t, o)) => println!("{:9} {:?} => {}", kind, t, o),
                Err(p) => println!("{:9} PANIC {}", kind, panic_msg(p)),
            }
        }
    }
}

/// run the whole type table through the round trip and print what fails
fn sweep() {
    quiet_panics();
    let table = present_types::type_table();
    let (mut n, mut bad) = (0, 0);
    for (i, row) in table.iter().enumerate() {
        for (j, v) in row.variants.iter().enumerate() {
            for kind in ["simple", "tabbed", "multiline", "display"] {
                for origin in [vec![], b"\x07example\x00".to_vec()] {
                    let inp = json!({"type_case": [i, j], "owner": json_bytes(b"\x04host\x07example\x00"),
                                     "kind": kind, "origin": json_bytes(&origin)});
                    n += 1;
                    let r = std::panic::catch_unwind(|| run_one(&inp));
                    let text = zf::record_from_wire(b"\x04host\x07example\x00", 1, 3600, row.rtype, v)
                        .map(|r| zf::write_record(&r, kind)).unwrap_or_else(|e| format!("<{}>", e));
                    match r {
                        Ok(o) if o["lib"] == json!("eq") => {}
                        Ok(o) => { bad += 1; if origin.is_empty() { println!("{} #{} {} {:?} => {}", row.name, j, kind, text, o); } }
                        Err(p) => { bad += 1; println!("{} #{} {} PANIC {}", row.name, j, kind, panic_msg(p)); }
                    }
                }
            }
        }
    }
    println!("SWEEP n={} bad={}", n, bad);
}

/// The token route for the type sweep: the library's own record-data tokens
/// (collected by a FormatWriter of the harness, cut into words) read by
/// ZoneRecordData::scan over an IterScanner.
fn tok_words_obs(rec: &zf::FlatRecord, rtype: u16) -> Value {
    use domain::base::iana::Rtype;
    use domain::base::name::Name;
    use domain::base::scan::IterScanner;
    use domain::rdata::ZoneRecordData;
    let words = zf::rdata_words(rec);
    let mut sc = IterScanner::<_, Bytes>::new(words.iter());
    match ZoneRecordData::<Bytes, Name<Bytes>>::scan(Rtype::from_int(rtype), &mut sc) {
        Ok(d) if sc.is_exhausted() && d == *rec.data() => json!("eq"),
        Ok(_) => json!("neq"),
        Err(e) if e.to_string().contains("only implemented by some Scanners") => json!("unsupported"),
        Err(_) => json!("err"),
    }
}

fn types() {
    // list the type table: one line per row with the number of variants
    for (i, row) in present_types::type_table().iter().enumerate() {
        println!("{}", json!({"i": i, "rtype": row.rtype, "name": row.name, "n": row.variants.len()}));
    }
}

fn main() {
    if has_flag("--probe") {
        return probe();
    }
    if has_flag("--sweep") {
        return sweep();
    }
    if has_flag("--types") {
        return types();
    }
    zf::start_watchdog(20);
    run_cases(run_one);
}
